"""C16 — checks that are not function contracts.

E  (exhaustive)  normalizeStringForPostscript: every one of the 0x110000 code points x {allowSpaces} is sent through
                 the REAL function; every character of every result must be printable ASCII 33..126 minus
                 []{}<>()/% (space only if allowed).  Together with S this discharges the `chars` clause of the
                 contract `normalizeStringForPostscript` (contracts/c16.py) for ALL strings.
S  (structural)  the loop body of normalizeStringForPostscript is a function of the current character and
                 `allowSpaces` only (checked on the function's AST), so f(s) is the concatenation of f(s[i]);
                 the concatenation step itself is lemma C16.concat_preserves_chars (SMT).  A bounded random
                 cross-check of f(s) == ''.join(f(c) for c in s) runs as well.
T  (conformance) the trusted clause for fontTools' binary2num, on all digit strings up to a length + random; the trusted
                 date / environment library models (strftime / strptime / timegm / fromtimestamp / int(str)).
A  (call sites)  every literal call site of intListToNum / getAttrWithFallback / InfoCompiler._set_attrs in the
                 repo is covered by a contract variant (the variants are per literal argument).
F  (bounded)     the special fallbacks still outside pyvc's subset (contracts/c16.py OUT_OF_REACH) against independent formulas.
I  (bounded)     InfoCompiler end to end: overrides incl. 0 / False / [] reach the original font's tables.
O  (bounded)     observer: small UFOs with random subsets of info attributes -> compile (TTF and OTF) -> save ->
                 reload -> name / OS/2 / hhea / head / post / CFF fields against an independent statement of
                 "explicit value, rounded" / "documented fallback".
"""
from __future__ import annotations

import ast
import calendar
import io
import itertools
import json
import math
import os
import random
import time
import traceback
import unicodedata

from vcheck.extra import hook

PID = "C16"
ROOT = os.path.dirname(os.path.dirname(os.path.dirname(os.path.abspath(__file__))))
OUT = os.environ.get("VERIF_OUT", os.path.join(ROOT, "out"))

PS_OK = {chr(i) for i in range(33, 127)} - set("[](){}<>/%")


def _replay(name, payload):
    d = os.path.join(OUT, PID, "replay")
    os.makedirs(d, exist_ok=True)
    p = os.path.join(d, "".join(ch if ch.isalnum() or ch in "._-@#" else "_" for ch in name) + ".json")
    with open(p, "w") as f:
        json.dump(payload, f, indent=1, default=str)
    return p


def _violation(obligation, payload):
    """`./check replay` re-runs a case through a CONTRACT's run-time harness: payloads that name a contract keep
    `case`; the others (end-to-end observers) carry the failing input under `input` plus how to reproduce it."""
    if "contract" not in payload and payload.get("case") is not None:
        payload = dict(payload)
        payload["input"] = payload.pop("case")
        payload["case"] = None
    p = _replay(obligation, {"property": PID, "obligation": obligation, **payload})
    return f"VIOLATION property={PID} replay={p} obligation={obligation}"


def otr(x):
    """independent statement of OpenType rounding: nearest integer, halves up"""
    return int(math.floor(x + 0.5))


def bits(xs, start, length):
    """sum of 2^(i-start) over the DISTINCT bit numbers of the range present in xs"""
    return sum(1 << (i - start) for i in set(xs) if start <= i < start + length)


class Res:
    def __init__(self):
        self.r = {"obligations": 0, "discharged": 0, "bounded": [], "trusted": [], "violations": [], "checker_errors": [], "evaluations": 0, "distinct": 0, "assumptions": []}

    def oblig(self, ok):
        self.r["obligations"] += 1
        self.r["discharged"] += 1 if ok else 0


# ---------------------------------------------------------------------------------------------------------
# E + S


def ps_exhaustive(res: Res):
    from ufo2ft.fontInfoData import normalizeStringForPostscript as f

    from contracts.c16 import ps_norm_char

    n = 0
    for allow in (True, False):
        okset = PS_OK | ({" "} if allow else set())
        bad = []
        differs = []
        for cp in range(0x110000):
            r = f(chr(cp), allow)
            if r and not okset.issuperset(r):
                bad.append(cp)
            if r != ps_norm_char(chr(cp), allow):
                differs.append(cp)
        n += 0x110000
        res.oblig(not bad)
        # clause `function` of the contract: the real function agrees with the independent reading on every code point
        res.oblig(not differs)
        if differs:
            res.r["violations"].append(
                _violation(
                    f"C16.normalizeStringForPostscript.function[allowSpaces={allow}]",
                    {"clause": "result == ps_norm(s, allowSpaces): the documented normalisation (keep acceptable ASCII, NFKD-decompose the rest, '?' for what stays non-ASCII, drop what is not acceptable)",
                     "function": "ufo2ft.fontInfoData.normalizeStringForPostscript", "allowSpaces": allow,
                     "failing_code_points": len(differs), "first": [f"U+{c:04X}" for c in differs[:20]],
                     "contract": "ufo2ft.fontInfoData:normalizeStringForPostscript", "case": {"s": chr(differs[0]), "allowSpaces": allow}, "observed": f(chr(differs[0]), allow),
                     "expected": ps_norm_char(chr(differs[0]), allow), "reproduce": f"normalizeStringForPostscript(chr({differs[0]}), allowSpaces={allow})"},
                )
            )
        if bad:
            res.r["violations"].append(
                _violation(
                    f"C16.normalizeStringForPostscript.chars[allowSpaces={allow}]",
                    {"clause": "every character of the result is printable ASCII 33..126 minus [](){}<>/% (space only if allowSpaces)",
                     "function": "ufo2ft.fontInfoData.normalizeStringForPostscript", "allowSpaces": allow,
                     "failing_code_points": len(bad), "first": [f"U+{c:04X}" for c in bad[:20]],
                     "contract": "ufo2ft.fontInfoData:normalizeStringForPostscript", "case": {"s": chr(bad[0]), "allowSpaces": allow}, "observed": f(chr(bad[0]), allow),
                     "reproduce": f"normalizeStringForPostscript(chr({bad[0]}), allowSpaces={allow})"},
                )
            )
    res.r["evaluations"] += n
    res.r["distinct"] += n
    res.r["bounded"].append({"what": "normalizeStringForPostscript per-character clauses (`chars`: acceptable characters only; `function`: equal to the independent reading ps_norm_char)", "method": "complete enumeration of all 0x110000 code points x {allowSpaces True, False} through the real function", "exhaustive": True, "bound": None})


def ps_structure(res: Res, tier, seed):
    """The loop `for c in s` only ever appends a value computed from (c, allowSpaces, module constants)."""
    from pyvc.extract import load_function

    from ufo2ft.fontInfoData import normalizeStringForPostscript as f

    why = None
    try:
        fdef = load_function("ufo2ft.fontInfoData:normalizeStringForPostscript").fdef
        body = [s for s in fdef.body if not (isinstance(s, ast.Expr) and isinstance(s.value, ast.Constant))]
        params = [a.arg for a in fdef.args.args]
        if len(body) != 3 or params[:1] != ["s"]:
            why = "function is not `acc = []; for c in s: ...; return ''.join(acc)`"
        else:
            init, loop, ret = body
            ok_init = isinstance(init, ast.Assign) and len(init.targets) == 1 and isinstance(init.targets[0], ast.Name) and isinstance(init.value, ast.List) and not init.value.elts
            acc = init.targets[0].id if ok_init else None
            ok_loop = isinstance(loop, ast.For) and isinstance(loop.target, ast.Name) and isinstance(loop.iter, ast.Name) and loop.iter.id == "s" and not loop.orelse
            ok_ret = (
                isinstance(ret, ast.Return) and isinstance(ret.value, ast.Call) and isinstance(ret.value.func, ast.Attribute) and ret.value.func.attr == "join"
                and isinstance(ret.value.func.value, ast.Constant) and ret.value.func.value.value == "" and len(ret.value.args) == 1
                and isinstance(ret.value.args[0], ast.Name) and ret.value.args[0].id == acc
            )
            if not (ok_init and ok_loop and ok_ret):
                why = "function is not `acc = []; for c in s: ...; return ''.join(acc)`"
            else:
                cvar = loop.target.id
                comp_vars = set()
                for n in ast.walk(loop):
                    if isinstance(n, ast.comprehension):
                        for t in ast.walk(n.target):
                            if isinstance(t, ast.Name):
                                comp_vars.add(t.id)
                import builtins

                import ufo2ft.fontInfoData as M

                appended_ok = True
                for n in ast.walk(ast.Module(body=loop.body, type_ignores=[])):
                    if isinstance(n, (ast.Break, ast.Return, ast.Global, ast.Nonlocal, ast.While, ast.For, ast.Try, ast.With, ast.Delete, ast.AugAssign, ast.NamedExpr, ast.Yield, ast.Await)):
                        why = f"loop body contains {type(n).__name__}"
                    if isinstance(n, ast.Name):
                        if isinstance(n.ctx, ast.Store) and n.id not in {cvar} | comp_vars:
                            why = f"loop body assigns '{n.id}' (state carried between characters)"
                        if isinstance(n.ctx, ast.Load) and n.id not in {cvar, acc, "allowSpaces"} | comp_vars and not hasattr(M, n.id) and not hasattr(builtins, n.id):
                            why = f"loop body reads '{n.id}'"
                        if isinstance(n.ctx, ast.Load) and n.id == "s":
                            why = "loop body reads the whole string"
                    if isinstance(n, (ast.Attribute, ast.Subscript)) and isinstance(n.ctx, ast.Store):
                        why = "loop body stores into an object"
                    if isinstance(n, ast.Call) and isinstance(n.func, ast.Attribute) and n.func.attr in {"append", "extend", "insert", "remove", "pop", "clear", "add", "update", "discard", "sort", "reverse", "setdefault"}:
                        if not (n.func.attr == "append" and isinstance(n.func.value, ast.Name) and n.func.value.id == acc and len(n.args) == 1):
                            why = f"loop body mutates something other than by {acc}.append(x)"
                # the accumulator is used only as the receiver of .append
                uses = [n for n in ast.walk(ast.Module(body=loop.body, type_ignores=[])) if isinstance(n, ast.Name) and n.id == acc]
                appends = [n for n in ast.walk(ast.Module(body=loop.body, type_ignores=[])) if isinstance(n, ast.Call) and isinstance(n.func, ast.Attribute) and n.func.attr == "append" and isinstance(n.func.value, ast.Name) and n.func.value.id == acc]
                if len(uses) != len(appends):
                    why = "the accumulator is read inside the loop"
    except Exception as e:  # noqa
        why = f"structure analysis failed: {e!r}"
    res.oblig(why is None)
    # bounded cross-check of the homomorphism (always), on strings mixing all interesting classes
    rng = random.Random(seed)
    pools = [(0, 0x7F), (0x80, 0x2FF), (0x2000, 0x206F), (0x3000, 0x30FF), (0xFF00, 0xFFEF), (0x1D400, 0x1D7FF), (0xD800, 0xDFFF), (0, 0x10FFFF)]
    n = 400 if tier == "quick" else 20000
    for k in range(n):
        s = "".join(chr(rng.randint(*rng.choice(pools))) for _ in range(rng.randint(0, 8)))
        for allow in (True, False):
            if f(s, allow) != "".join(f(c, allow) for c in s):
                res.r["violations"].append(_violation("C16.normalizeStringForPostscript.per-character", {"clause": "f(s) == ''.join(f(c) for c in s)", "case": {"s": s, "allowSpaces": allow}, "observed": f(s, allow)}))
                break
    res.r["evaluations"] += 2 * n
    if why is not None:
        res.r["bounded"].append({"what": "normalizeStringForPostscript: result is the concatenation of per-character results", "method": f"AST shape check FAILED ({why}); only the random cross-check supports it", "bound": f"{n} random strings of length <= 8"})
        res.r["checker_errors"].append(f"C16.normalizeStringForPostscript.per-character: the loop no longer has the shape the enumeration argument needs ({why})")
    else:
        res.r["assumptions"].append("normalizeStringForPostscript: per-character decomposition established on the AST (loop body reads only the current character, allowSpaces and module constants, carries no state between characters, and only appends to the accumulator) + lemma C16.concat_preserves_chars")


# ---------------------------------------------------------------------------------------------------------
# T: binary2num


def binary2num_model(s):
    acc = 0
    for ch in s:
        if ch.isspace():
            continue
        acc = acc * 2 + (0 if ch == "0" else 1)
    return acc


def conf_binary2num(res: Res, tier, seed):
    from fontTools.misc.textTools import binary2num

    n = 0
    bad = None
    maxlen = 9 if tier == "quick" else 12
    for ln in range(0, maxlen + 1):
        for t in itertools.product("01 ", repeat=ln):
            s = "".join(t)
            n += 1
            if binary2num(s) != binary2num_model(s):
                bad = bad or s
    rng = random.Random(seed)
    for _ in range(2000):
        s = " ".join("".join(rng.choice("01") for _ in range(8)) for _ in range(rng.randint(0, 4)))
        n += 1
        if binary2num(s) != binary2num_model(s):
            bad = bad or s
    res.r["evaluations"] += n
    res.r["trusted"].append("fontTools.misc.textTools.binary2num (clause in contracts/c16.py; bounded conformance in the hook)")
    res.r["bounded"].append({"what": "conformance of the trusted clause for fontTools binary2num", "method": "all strings over {'0','1',' '} up to the bound + 2000 random byte-grouped strings against the clause's executable reading", "bound": f"length <= {maxlen}"})
    if bad is not None:
        res.r["checker_errors"].append(f"trusted clause for binary2num does not conform: {bad!r} -> {binary2num(bad)} vs model {binary2num_model(bad)}")
    conf_dates(res, tier, seed)


def conf_dates(res: Res, tier, seed):
    """trusted library models of contracts/c16.py for dates: (a) datetime.fromtimestamp(n, utc).strftime(FMT) is
    utc_date_string(n) (stated independently through time.gmtime); (b) what time.strftime(FMT, ..) produces is accepted by
    time.strptime(.., FMT) and calendar.timegm gives the instant back; (c) int(s) accepts s iff int_literal(s)"""
    from datetime import datetime, timezone

    from contracts import c16 as K

    rng = random.Random(seed + 7)
    n = 2000 if tier == "quick" else 50000
    bad = None
    for k in range(n):
        t = rng.choice([0, 1, 86399, 86400, 951782400, 1577934245, 2**31 - 1, 2**31, 4102444800]) if k < 20 else rng.randint(-2208988800, 32503680000)  # 1900 .. 3000
        a = datetime.fromtimestamp(t, timezone.utc).strftime(K._DATE_FMT)
        if a != K.utc_date_string(t) or K.utc_error(t) != "":
            bad = bad or f"utc_date_string({t}) = {K.utc_date_string(t)!r} but datetime gives {a!r}"
        if not K.date_valid(a) or K.date_seconds(a) != t:
            bad = bad or f"date string {a!r} of instant {t}: date_valid={K.date_valid(a)}, date_seconds={K.date_seconds(a) if K.date_valid(a) else None}"
    for s_ in ["0", "-5", " 12 ", "1_0", "", "abc", "1e3", "１２", "+7", "0x10", "12.0"]:
        try:
            int(s_)
            ok = True
        except ValueError:
            ok = False
        if ok != K.int_literal(s_) or (ok and int(s_) != K.int_value(s_)):
            bad = bad or f"int({s_!r})"
    res.r["evaluations"] += n
    res.r["trusted"].append("time.strptime / calendar.timegm / time.strftime / time.gmtime / datetime.fromtimestamp / int(str) / os.environ (clauses in contracts/c16.py; bounded conformance in the hook)")
    res.r["bounded"].append({"what": "conformance of the trusted date / environment models", "method": "instants 1900..3000: datetime.fromtimestamp(n, utc).strftime == utc_date_string(n), the string parses back to n; int() literals", "bound": f"{n} instants"})
    if bad is not None:
        res.r["checker_errors"].append(f"trusted date model does not conform: {bad}")


# ---------------------------------------------------------------------------------------------------------
# A: call sites


def call_sites(res: Res):
    from contracts import c16 as K

    repo = os.environ.get("VERIF_REPO", "/repo")
    base = os.path.join(repo, "Lib", "ufo2ft")
    n_gawf = n_gawf_dyn = n_ilt = n_sa = 0
    problems = []
    sa_seen = {}
    for dp, _, fns in os.walk(base):
        for fn in fns:
            if not fn.endswith(".py"):
                continue
            path = os.path.join(dp, fn)
            with open(path, encoding="utf-8") as fh:
                tree = ast.parse(fh.read())
            for node in ast.walk(tree):
                if not isinstance(node, ast.Call):
                    continue
                f = node.func
                name = f.id if isinstance(f, ast.Name) else f.attr if isinstance(f, ast.Attribute) else None
                where = f"{os.path.relpath(path, repo)}:{node.lineno}"
                if name == "getAttrWithFallback" and len(node.args) == 2:
                    a = node.args[1]
                    if isinstance(a, ast.Constant) and isinstance(a.value, str):
                        n_gawf += 1
                        if a.value not in K.ATTR_TYPES:
                            problems.append(f"{where}: getAttrWithFallback(.., {a.value!r}) has no contract variant")
                    else:
                        n_gawf_dyn += 1
                elif name == "intListToNum" and len(node.args) == 3:
                    n_ilt += 1
                    s, l = node.args[1], node.args[2]
                    if not (isinstance(s, ast.Constant) and isinstance(l, ast.Constant) and (s.value, l.value) in K.SIGNATURES):
                        problems.append(f"{where}: intListToNum(.., {ast.unparse(s)}, {ast.unparse(l)}) is not one of the verified signatures")
                elif name == "_set_attrs" and len(node.args) == 2 and fn == "infoCompiler.py":
                    n_sa += 1
                    try:
                        tag = ast.literal_eval(node.args[0])
                        attrs = ast.literal_eval(node.args[1])
                    except Exception:
                        problems.append(f"{where}: _set_attrs with non-literal arguments")
                        continue
                    sa_seen[tag] = (set(attrs), where)
    # every attribute the fallback tables know has a variant, and vice versa
    import ufo2ft.fontInfoData as M

    known = set(M.staticFallbackData) | set(M.specialFallbacks)
    if known != set(K.ATTR_TYPES):
        problems.append(f"fallback tables and contract variants differ: only in code {sorted(known - set(K.ATTR_TYPES))}, only in contracts {sorted(set(K.ATTR_TYPES) - known)}")
    # the bare intListToNum contract (used where one caller has several signatures) claims nothing beyond the proved variants:
    # every ensures clause is `implies(start == s and length == l, <the variant's clause>)`, its requires lists exactly the signatures
    from pyvc.api import CONTRACTS

    bare = CONTRACTS[f"{K.MOD}:intListToNum"]
    want = {f"{s_}+{l_}:{k}": f"implies(start == {s_} and length == {l_}, {e})" for s_, l_ in K.SIGNATURES for k, e in CONTRACTS[f"{K.MOD}:intListToNum#{s_}+{l_}"].ensures.items()}
    if dict(bare.ensures) != want or bare.requires != [" or ".join(f"(start == {s_} and length == {l_})" for s_, l_ in K.SIGNATURES)] or bare.props:
        problems.append("the bare intListToNum contract is not the conjunction of the proved per-signature variants")
    # `_isNonBMP#named` (used by setupTable_name) is the proved contract `_isNonBMP` with the definition of the name `non_bmp`
    # folded: the name's python body must be literally `return non_bmp_from(s, 0)` and the two clauses must be the folded /
    # unfolded forms of each other
    import inspect

    from pyvc.api import SPECFNS

    nb = SPECFNS["non_bmp"]
    body = [n for n in ast.parse(inspect.getsource(nb.fn).split("\n", 1)[1]).body[0].body if not (isinstance(n, ast.Expr) and isinstance(n.value, ast.Constant))]
    proved, named = CONTRACTS["ufo2ft.outlineCompiler:_isNonBMP"], CONTRACTS["ufo2ft.outlineCompiler:_isNonBMP#named"]
    if not (len(body) == 1 and isinstance(body[0], ast.Return) and ast.unparse(body[0].value) == "non_bmp_from(s, 0)" and nb.opaque
            and dict(proved.ensures) == {"iff": "result == non_bmp_from(s, 0)"} and PID in proved.props and not proved.requires
            and dict(named.ensures) == {"iff": "result == non_bmp(s)"} and not named.requires and dict(named.params) == dict(proved.params)):
        problems.append("_isNonBMP#named is not the definitional folding of the proved contract _isNonBMP")
    res.oblig(not problems)
    for p in problems:
        res.r["checker_errors"].append("C16 call-site coverage: " + p)
    # _set_attrs: the attribute lists at the call sites are the documented ones (a dropped / extra attribute is a violation)
    for tag, want in K.SET_ATTRS_SITES.items():
        got = sa_seen.get(tag)
        ok = got is not None and got[0] == set(want)
        res.oblig(ok)
        if not ok:
            res.r["violations"].append(
                _violation(f"C16.InfoCompiler._set_attrs.callsite[{tag}]", {"clause": "the call site passes exactly the documented attribute list", "tag": tag,
                           "missing": sorted(set(want) - (got[0] if got else set())), "extra": sorted((got[0] if got else set()) - set(want)), "where": got[1] if got else None, "case": None})
            )
    res.r["assumptions"].append(f"call sites scanned on the AST: getAttrWithFallback literal {n_gawf} / computed {n_gawf_dyn} (hhea/vhea name templates), intListToNum {n_ilt}, _set_attrs {n_sa}")


# ---------------------------------------------------------------------------------------------------------
# independent statement of the documented fallbacks


def ps_name_doc(s, allow_spaces):
    """Independent reading of the normalisation (contracts/c16.py `ps_norm`): keep acceptable ASCII; other characters
    are compatibility-decomposed, non-ASCII remains become '?', and only acceptable characters survive."""
    from contracts.c16 import ps_norm

    return ps_norm(s, allow_spaces)


STYLES = ["regular", "bold", "italic", "bold italic"]


class Doc:
    """with-fallback values of a fontinfo dict, from the documentation (tables of contracts/c16.py + formulas)"""

    def __init__(self, d):
        from contracts import c16 as K

        self.d = {k: v for k, v in d.items() if v is not None}
        self.static = {a: v for a, (_, v) in K.STATIC.items()}

    def v(self, a):
        if a in self.d:
            return self.d[a]
        m = getattr(self, "fb_" + a, None)
        if m is not None:
            return m()
        return self.static[a]

    def fb_ascender(self):
        return otr(self.v("unitsPerEm") * 0.8)

    def fb_descender(self):
        return -otr(self.v("unitsPerEm") * 0.2)

    def fb_capHeight(self):
        return otr(self.v("unitsPerEm") * 0.7)

    def fb_xHeight(self):
        return otr(self.v("unitsPerEm") * 0.5)

    def fb_styleMapFamilyName(self):
        fam = self.v("openTypeNamePreferredFamilyName")
        st = self.d.get("styleMapStyleName") or self.v("openTypeNamePreferredSubfamilyName")
        if st.lower() in STYLES:
            st = ""
        return (fam + " " + st).strip()

    def fb_styleMapStyleName(self):
        st = self.v("openTypeNamePreferredSubfamilyName").strip().lower()
        return st if st in STYLES else "regular"

    def fb_openTypeHeadCreated(self):
        return time.strftime("%Y/%m/%d %H:%M:%S", time.gmtime(int(os.environ["SOURCE_DATE_EPOCH"])))

    def fb_openTypeHheaAscender(self):
        return self.v("ascender") + self.v("openTypeOS2TypoLineGap")

    def fb_openTypeHheaDescender(self):
        return self.v("descender")

    def fb_openTypeHheaCaretSlopeRise(self):
        a = self.v("italicAngle")
        if a != 0 and "openTypeHheaCaretSlopeRun" in self.d:
            return otr(self.d["openTypeHheaCaretSlopeRun"] / math.tan(math.radians(-a)))
        return self.v("unitsPerEm")

    def fb_openTypeHheaCaretSlopeRun(self):
        a = self.v("italicAngle")
        if a != 0:
            return otr(math.tan(math.radians(-a)) * self.v("openTypeHheaCaretSlopeRise"))
        return 0

    def fb_openTypeNameVersion(self):
        return "Version %d.%03d" % (self.v("versionMajor"), self.v("versionMinor"))

    def fb_openTypeNameUniqueID(self):
        ver = self.v("openTypeNameVersion")
        ver = ver.replace("Version ", "")
        return "%s;%s;%s" % (ver, self.v("openTypeOS2VendorID"), self.v("postscriptFontName"))

    def fb_openTypeNamePreferredFamilyName(self):
        return self.v("familyName")

    def fb_openTypeNamePreferredSubfamilyName(self):
        return self.v("styleName")

    def fb_openTypeNameWWSFamilyName(self):
        return None

    def fb_openTypeNameWWSSubfamilyName(self):
        return None

    def fb_openTypeOS2TypoAscender(self):
        return self.v("ascender")

    def fb_openTypeOS2TypoDescender(self):
        return self.v("descender")

    def fb_openTypeOS2TypoLineGap(self):
        return max(int(self.v("unitsPerEm") * 1.2) - self.v("ascender") + self.v("descender"), 0)

    def fb_openTypeOS2WinAscent(self):
        return self.v("ascender") + self.v("openTypeOS2TypoLineGap")

    def fb_openTypeOS2WinDescent(self):
        return abs(self.v("descender"))

    def fb_postscriptFontName(self):
        return ps_name_doc(self.v("openTypeNamePreferredFamilyName") + "-" + self.v("openTypeNamePreferredSubfamilyName"), False)

    def fb_postscriptFullName(self):
        return self.v("openTypeNamePreferredFamilyName") + " " + self.v("openTypeNamePreferredSubfamilyName")

    def fb_postscriptSlantAngle(self):
        return self.v("italicAngle")

    def fb_postscriptUnderlineThickness(self):
        return self.v("unitsPerEm") * 0.05

    def fb_postscriptUnderlinePosition(self):
        return self.v("unitsPerEm") * -0.075

    def fb_postscriptBlueScale(self):
        zones = list(self.v("postscriptBlueValues")) + list(self.v("postscriptOtherBlues"))
        hs = [abs(zones[i + 1] - zones[i]) for i in range(0, len(zones) - 1, 2)] if (len(self.v("postscriptBlueValues")) % 2 == 0 and len(self.v("postscriptOtherBlues")) % 2 == 0) else []
        m = max(hs, default=0)
        return 3 / (4 * m) if m else 0.039625


def close(a, b):
    if isinstance(a, (int, float)) and isinstance(b, (int, float)) and not isinstance(a, bool) and not isinstance(b, bool):
        return abs(a - b) <= 1e-9 * max(1.0, abs(a), abs(b))
    return a == b


NAMES = ["New", "Fam ily", "Ünï", "A[b]", "x/y", " lead", "Sans  Serif", "Ｆｕｌｌ", "ﬁne", "Ωmega", "\U0001d518ni"]
STYLE_NAMES = ["Regular", "Bold", "italic", " Bold Italic ", "Light", "Condensed Bold", "", "Ünï"]


def rand_info(rng, latin1_only=False, valid_for_compile=False):
    """a random subset of fontinfo attributes with UFO3-valid values (integral / fractional / negative, falsy)"""
    d = {}

    def maybe(a, vals, p=0.45):
        if rng.random() < p:
            d[a] = rng.choice(vals)

    names = [n for n in NAMES if not latin1_only or all(ord(c) < 256 for c in n)]
    styles = [n for n in STYLE_NAMES if (not latin1_only or all(ord(c) < 256 for c in n)) and (n or not valid_for_compile)]
    maybe("unitsPerEm", [1000, 2048, 16, 1000.4, 999.5, 250])
    maybe("ascender", [0, 800, 750.5, 1900, -10, 0.0])
    maybe("descender", [0, -200, -250.5, 30, -0.0])
    maybe("capHeight", [0, 700, 650.5])
    maybe("xHeight", [0, 500, 480.5])
    maybe("italicAngle", [0, 0.0, -12, -12.5, 10, 180 if not valid_for_compile else 9.5])
    maybe("familyName", names)
    maybe("styleName", styles)
    maybe("styleMapFamilyName", names, 0.2)
    maybe("styleMapStyleName", ["regular", "bold", "italic", "bold italic"], 0.3)
    maybe("openTypeNamePreferredFamilyName", names, 0.25)
    maybe("openTypeNamePreferredSubfamilyName", [s for s in styles if s], 0.25)
    maybe("versionMajor", [0, 1, 3, 12])
    maybe("versionMinor", [0, 5, 50, 999])
    maybe("copyright", ["", "(c) 2020", "© Füü", "a  b"], 0.3)
    maybe("trademark", ["", "TM™", "plain"], 0.3)
    maybe("openTypeNameVersion", ["Version 2.5", "1.000;x", "v"], 0.2)
    maybe("openTypeNameUniqueID", ["", "uid:1"], 0.15)
    # FINDING (notes/C16.md): an explicit non-ASCII postscriptFontName compiles to a CFF that cannot be reloaded
    maybe("postscriptFontName", ["My-Font", "A B[c]"] + ([] if latin1_only else ["Ünï-X"]), 0.25)
    maybe("postscriptFullName", ["Full Name", "Ünï Full"], 0.2)
    maybe("openTypeOS2VendorID", ["", "AB", "ABCD"], 0.3)
    maybe("openTypeOS2TypoLineGap", [0, 90, 12], 0.35)
    maybe("openTypeOS2TypoAscender", [0, 700, 701], 0.3)
    maybe("openTypeOS2TypoDescender", [0, -300, -299], 0.3)
    maybe("openTypeOS2WinAscent", [0, 900, 901], 0.3)
    maybe("openTypeOS2WinDescent", [0, 300, 251], 0.3)
    maybe("openTypeHheaAscender", [0, 950, 949], 0.3)
    maybe("openTypeHheaDescender", [0, -250, -251], 0.3)
    maybe("openTypeHheaLineGap", [0, 100, 33], 0.3)
    maybe("openTypeHheaCaretSlopeRise", [0, 1, 1000], 0.2)
    maybe("openTypeHheaCaretSlopeRun", [0, 1, 213], 0.2)
    maybe("openTypeHheaCaretOffset", [0, -20, 15], 0.2)
    maybe("openTypeOS2WeightClass", [1, 400, 700, 1000], 0.3)
    maybe("openTypeOS2WidthClass", [1, 5, 9], 0.3)
    maybe("openTypeOS2Type", [[], [2], [3, 8], [2, 2, 9], [0, 1, 2, 3, 8, 9]], 0.35)
    maybe("openTypeOS2Selection", [[], [7], [7, 8], [1, 2, 3, 4, 7, 8, 9], [7, 7]], 0.35)
    maybe("openTypeHeadFlags", [[], [0], [0, 1, 3], [3, 3, 11], [0, 1, 2, 3, 4, 11, 12, 13, 14]], 0.35)
    maybe("openTypeHeadLowestRecPPEM", [0, 6, 9], 0.3)
    maybe("openTypeOS2Panose", [[0] * 10, [2, 11, 5, 2, 4, 5, 4, 2, 2, 4]], 0.3)
    maybe("openTypeOS2FamilyClass", [[0, 0], [8, 2], [14, 15]], 0.3)
    maybe("openTypeOS2UnicodeRanges", [[], [0], [0, 1, 31, 32, 63, 64, 95, 96, 122], [5, 5, 127]], 0.3)
    maybe("openTypeOS2CodePageRanges", [[], [0], [0, 1, 29, 31, 32, 63], [63, 63]], 0.3)
    for a in ("openTypeOS2SubscriptXSize", "openTypeOS2SubscriptYSize", "openTypeOS2SubscriptXOffset", "openTypeOS2SubscriptYOffset",
              "openTypeOS2SuperscriptXSize", "openTypeOS2SuperscriptYSize", "openTypeOS2SuperscriptXOffset", "openTypeOS2SuperscriptYOffset",
              "openTypeOS2StrikeoutSize", "openTypeOS2StrikeoutPosition"):
        maybe(a, [0, 50, 333, -75], 0.2)
    maybe("postscriptUnderlineThickness", [0, 0.0, 40, 55.5], 0.35)
    maybe("postscriptUnderlinePosition", [0, -100, -75.5, 20], 0.35)
    maybe("postscriptIsFixedPitch", [False, True], 0.35)
    # FINDING (notes/C16.md): a non-ASCII postscriptWeightName makes compileOTF raise (CFF Weight is written as ASCII)
    maybe("postscriptWeightName", ["", "Bold"] + ([] if latin1_only else ["Üxtra"]), 0.2)
    maybe("postscriptBlueValues", [[], [-10, 0, 500, 510], [-15, 0, 480, 495.5, 700, 712]], 0.3)
    maybe("postscriptOtherBlues", [[], [-250, -240]], 0.2)
    maybe("openTypeHeadCreated", ["2020/01/02 03:04:05", "1999/12/31 23:59:59"], 0.25)
    return d


# ---------------------------------------------------------------------------------------------------------
# F: the six out-of-reach fallbacks (and, as a cross-check, every other attribute) against Doc


def fallback_functions(res: Res, tier, seed):
    import types

    from contracts import c16 as K

    import ufo2ft.fontInfoData as M

    rng = random.Random(seed + 1)
    n = 150 if tier == "quick" else 6000
    os.environ["SOURCE_DATE_EPOCH"] = "1577934245"
    fails = {}
    evals = 0
    try:
        for _ in range(n):
            d = rand_info(rng)
            info = types.SimpleNamespace(**{a: None for a in K.ATTR_TYPES})
            for k_, v_ in d.items():
                setattr(info, k_, v_)
            doc = Doc(d)
            for a in K.ATTR_TYPES:
                evals += 1
                try:
                    want = doc.v(a)
                except ZeroDivisionError:
                    continue
                try:
                    got = M.getAttrWithFallback(info, a)
                except Exception as e:  # noqa
                    if a == "postscriptBlueScale" and isinstance(e, AssertionError):
                        continue
                    got = f"raised {e!r}"
                if not close(got, want) and a not in fails:
                    fails[a] = {"attr": a, "info": d, "observed": got, "expected": want, "explicit": a in d}
    finally:
        os.environ.pop("SOURCE_DATE_EPOCH", None)
    res.r["evaluations"] += evals
    res.r["distinct"] += n
    for a, f in fails.items():
        res.r["violations"].append(
            _violation(f"C16.getAttrWithFallback[{a}].{'explicit-wins' if f['explicit'] else 'fallback'}(bounded)",
                       {"clause": "explicit value returned unchanged, else the documented fallback", **({"contract": f"ufo2ft.fontInfoData:getAttrWithFallback#{a}", "case": {"attrs": f["info"], "bare": True}} if a not in K.OUT_OF_REACH else {"case": f}),
                        "observed": f, "reproduce": f"getAttrWithFallback(SimpleNamespace(**{{a: None for a in ATTRS}}, **info), {a!r})"})
        )
    from contracts import c16 as K2

    res.r["bounded"].append({"what": f"special fallbacks outside pyvc's subset ({', '.join(sorted(K2.OUT_OF_REACH))}) — and all other attributes again (openTypeHeadCreated under SOURCE_DATE_EPOCH) — against an independent statement of the documented fallbacks",
                             "method": "random fontinfo subsets on a duck-typed info object", "bound": f"{n} info objects x {len(K.ATTR_TYPES)} attributes"})


# ---------------------------------------------------------------------------------------------------------
# I: InfoCompiler end to end

_IC_BASE = {
    "familyName": "Base", "styleName": "Bold Italic", "unitsPerEm": 1000, "versionMajor": 1, "versionMinor": 5, "italicAngle": -12,
    "openTypeHheaLineGap": 77, "openTypeHheaCaretOffset": 11, "openTypeOS2TypoLineGap": 88, "postscriptUnderlinePosition": -80,
    "postscriptUnderlineThickness": 44, "postscriptIsFixedPitch": True, "openTypeOS2Type": [2], "openTypeHeadFlags": [0, 1],
    "openTypeOS2Panose": [2, 11, 5, 2, 4, 5, 4, 2, 2, 4], "openTypeOS2FamilyClass": [8, 2], "openTypeOS2WeightClass": 700,
    "openTypeOS2Selection": [7], "openTypeOS2VendorID": "ABCD", "openTypeHeadLowestRecPPEM": 9, "ascender": 800, "descender": -200,
}
# override attribute -> list of (table, field, expected value given the override value v)
_IC_OVERRIDES = {
    "openTypeHheaLineGap": ([0, 5, 12], [("hhea", "lineGap", lambda v: otr(v))]),
    "openTypeHheaCaretOffset": ([0, -3], [("hhea", "caretOffset", lambda v: otr(v))]),
    "openTypeOS2TypoLineGap": ([0, 10], [("OS/2", "sTypoLineGap", lambda v: otr(v))]),
    "postscriptUnderlinePosition": ([0, -50.5], [("post", "underlinePosition", lambda v: otr(v))]),
    "postscriptUnderlineThickness": ([0, 20], [("post", "underlineThickness", lambda v: otr(v))]),
    "postscriptIsFixedPitch": ([False, True], [("post", "isFixedPitch", lambda v: int(v))]),
    "italicAngle": ([0, -5.5], [("post", "italicAngle", lambda v: float(v))]),
    "openTypeOS2Type": ([[], [3]], [("OS/2", "fsType", lambda v: bits(v, 0, 16))]),
    "openTypeHeadFlags": ([[], [3]], [("head", "flags", lambda v: bits(v, 0, 16))]),
    "openTypeOS2FamilyClass": ([[0, 0], [1, 3]], [("OS/2", "sFamilyClass", lambda v: (v[0] << 8) + v[1])]),
    "openTypeOS2WeightClass": ([1, 300], [("OS/2", "usWeightClass", lambda v: v)]),
    "openTypeHeadLowestRecPPEM": ([0, 7], [("head", "lowestRecPPEM", lambda v: otr(v))]),
    "ascender": ([0, 700.5], [("OS/2", "sTypoAscender", lambda v: otr(v))]),
    "descender": ([0, -100], [("OS/2", "sTypoDescender", lambda v: otr(v)), ("hhea", "descent", lambda v: otr(v))]),
    "openTypeOS2Panose": ([[0] * 10], [("OS/2", "panose.bSerifStyle", lambda v: v[1])]),
    "versionMinor": ([0, 25], [("head", "fontRevision", lambda v: round(float("1.%03d" % v), 3))]),
}


def info_compiler_e2e(res: Res, tier, seed):
    from contracts.rtlib import build_ufo

    from ufo2ft import compileTTF
    from ufo2ft.infoCompiler import InfoCompiler

    rng = random.Random(seed + 2)
    n = 10 if tier == "quick" else 120
    base = {"glyphs": {"a": {"width": 500, "unicodes": [97], "box": [10, 0, 300, 400]}, "space": {"width": 250, "unicodes": [32]}}, "info": dict(_IC_BASE)}
    fail = None
    evals = 0
    for k in range(n):
        ufo = build_ufo(base, "ufoLib2" if k % 2 == 0 else "defcon")
        otf = compileTTF(ufo)
        keys = list(_IC_OVERRIDES) if k == 0 else rng.sample(sorted(_IC_OVERRIDES), rng.randint(1, 6))
        over = {a: (_IC_OVERRIDES[a][0][0] if k == 0 else rng.choice(_IC_OVERRIDES[a][0])) for a in keys}
        before = {(t, f): _tbl_get(otf, t, f) for a in _IC_OVERRIDES for (t, f, _) in _IC_OVERRIDES[a][1]}
        try:
            out = InfoCompiler(otf, ufo, dict(over)).compile()
        except Exception:  # noqa
            fail = fail or {"overrides": over, "observed": "raised " + traceback.format_exc()[-400:]}
            continue
        for a, (_, checks) in _IC_OVERRIDES.items():
            for t, f, exp in checks:
                evals += 1
                got = _tbl_get(out, t, f)
                # every checked field depends on its own attribute only (the base info sets the others explicitly):
                # overridden -> the override's value; not overridden -> the value compiled from the base info
                want = exp(over[a]) if a in over else before[(t, f)]
                if not close(got, want):
                    fail = fail or {"overrides": over, "table": t, "field": f, "observed": got, "expected": want, "ufo_lib": "ufoLib2" if k % 2 == 0 else "defcon",
                                    "reproduce": "otf = compileTTF(build_ufo({'glyphs': .., 'info': base_info})); InfoCompiler(otf, ufo, overrides).compile()[table].field"}
    res.r["evaluations"] += evals
    res.r["distinct"] += n
    if fail:
        res.r["violations"].append(_violation("C16.InfoCompiler.overrides-reach-tables(bounded)", {"clause": "an overriding info value (0 / False / [] included) appears in the original font's table; untouched attributes keep their value", "case": fail, "base_info": _IC_BASE}))
    res.r["bounded"].append({"what": "InfoCompiler end to end: designspace-style info overrides incl. 0 / False / [] reach head / hhea / OS/2 / post of the already compiled font", "method": "compileTTF of a 2-glyph UFO (ufoLib2 and defcon), then InfoCompiler(otf, ufo, overrides).compile()", "bound": f"{n} override sets over {len(_IC_OVERRIDES)} attributes"})


def _tbl_get(font, tag, field):
    o = font[tag]
    for p in field.split("."):
        o = getattr(o, p)
    return o


# ---------------------------------------------------------------------------------------------------------
# O: observer


def expected_tables(d, flavor):
    """table fields a compiled font must show for fontinfo dict d (explicit value, rounded where integral; else documented fallback)"""
    doc = Doc(d)
    v = doc.v
    E = {}
    upm = v("unitsPerEm")
    E["head.unitsPerEm"] = otr(upm)
    E["head.fontRevision"] = round(float("%d.%03d" % (v("versionMajor"), v("versionMinor"))), 3)
    sm = v("styleMapStyleName")
    E["head.macStyle"] = {"regular": 0, "bold": 1, "italic": 2, "bold italic": 3}[sm]
    E["head.flags"] = bits(v("openTypeHeadFlags"), 0, 16)
    E["head.lowestRecPPEM"] = otr(v("openTypeHeadLowestRecPPEM"))
    if "openTypeHeadCreated" in d:
        from fontTools.misc.timeTools import epoch_diff

        E["head.created"] = calendar.timegm(time.strptime(d["openTypeHeadCreated"], "%Y/%m/%d %H:%M:%S")) - epoch_diff
    for f, a in (("ascent", "openTypeHheaAscender"), ("descent", "openTypeHheaDescender"), ("lineGap", "openTypeHheaLineGap"),
                 ("caretSlopeRise", "openTypeHheaCaretSlopeRise"), ("caretSlopeRun", "openTypeHheaCaretSlopeRun"), ("caretOffset", "openTypeHheaCaretOffset")):
        E["hhea." + f] = otr(v(a))
    E["OS/2.usWeightClass"] = v("openTypeOS2WeightClass")
    E["OS/2.usWidthClass"] = v("openTypeOS2WidthClass")
    E["OS/2.fsType"] = bits(v("openTypeOS2Type"), 0, 16)
    ang = float(v("italicAngle"))

    def adj(off):
        return off * math.tan(math.radians(-ang)) if ang else 0

    def sub(a, dflt):
        x = v(a)
        return otr(dflt() if x is None else x)

    E["OS/2.ySubscriptXSize"] = sub("openTypeOS2SubscriptXSize", lambda: upm * 0.65)
    E["OS/2.ySubscriptYSize"] = sub("openTypeOS2SubscriptYSize", lambda: upm * 0.6)
    E["OS/2.ySubscriptYOffset"] = sub("openTypeOS2SubscriptYOffset", lambda: upm * 0.075)
    E["OS/2.ySubscriptXOffset"] = sub("openTypeOS2SubscriptXOffset", lambda: adj(-E["OS/2.ySubscriptYOffset"]))
    E["OS/2.ySuperscriptXSize"] = sub("openTypeOS2SuperscriptXSize", lambda: E["OS/2.ySubscriptXSize"])
    E["OS/2.ySuperscriptYSize"] = sub("openTypeOS2SuperscriptYSize", lambda: E["OS/2.ySubscriptYSize"])
    E["OS/2.ySuperscriptYOffset"] = sub("openTypeOS2SuperscriptYOffset", lambda: upm * 0.35)
    E["OS/2.ySuperscriptXOffset"] = sub("openTypeOS2SuperscriptXOffset", lambda: adj(E["OS/2.ySuperscriptYOffset"]))
    E["OS/2.yStrikeoutSize"] = sub("openTypeOS2StrikeoutSize", lambda: v("postscriptUnderlineThickness"))
    xh = v("xHeight")
    E["OS/2.yStrikeoutPosition"] = sub("openTypeOS2StrikeoutPosition", lambda: xh * 0.6 if xh else upm * 0.22)
    fc = v("openTypeOS2FamilyClass")
    E["OS/2.sFamilyClass"] = (fc[0] << 8) + fc[1]
    pan = v("openTypeOS2Panose")
    for i, f in enumerate(("bFamilyType", "bSerifStyle", "bWeight", "bProportion", "bContrast", "bStrokeVariation", "bArmStyle", "bLetterForm", "bMidline", "bXHeight")):
        E["OS/2.panose." + f] = pan[i]
    ur = v("openTypeOS2UnicodeRanges")
    if ur is not None:
        for i in range(4):
            E[f"OS/2.ulUnicodeRange{i + 1}"] = bits(ur, 32 * i, 32)
    cr = v("openTypeOS2CodePageRanges")
    if cr is not None:
        for i in range(2):
            E[f"OS/2.ulCodePageRange{i + 1}"] = bits(cr, 32 * i, 32)
    E["OS/2.achVendID"] = v("openTypeOS2VendorID").ljust(4)
    E["OS/2.sxHeight"] = otr(v("xHeight"))
    E["OS/2.sCapHeight"] = otr(v("capHeight"))
    E["OS/2.sTypoAscender"] = otr(v("openTypeOS2TypoAscender"))
    E["OS/2.sTypoDescender"] = otr(v("openTypeOS2TypoDescender"))
    E["OS/2.sTypoLineGap"] = otr(v("openTypeOS2TypoLineGap"))
    E["OS/2.usWinAscent"] = otr(v("openTypeOS2WinAscent"))
    E["OS/2.usWinDescent"] = otr(v("openTypeOS2WinDescent"))
    E["OS/2.fsSelection"] = bits(list(v("openTypeOS2Selection")) + {"regular": [6], "bold": [5], "italic": [0], "bold italic": [0, 5]}[sm], 0, 16)
    E["post.italicAngle"] = ang
    E["post.underlinePosition"] = otr(v("postscriptUnderlinePosition"))
    E["post.underlineThickness"] = otr(v("postscriptUnderlineThickness"))
    E["post.isFixedPitch"] = int(v("postscriptIsFixedPitch"))
    # name records (3, 1|10, 0x409)
    pf, ps_ = v("openTypeNamePreferredFamilyName"), v("openTypeNamePreferredSubfamilyName")
    nv = {
        0: v("copyright"), 1: v("styleMapFamilyName"), 2: sm.title(), 3: v("openTypeNameUniqueID"), 4: pf + " " + ps_, 5: v("openTypeNameVersion"),
        6: v("postscriptFontName"), 7: v("trademark"), 8: v("openTypeNameManufacturer"), 9: v("openTypeNameDesigner"), 10: v("openTypeNameDescription"),
        11: v("openTypeNameManufacturerURL"), 12: v("openTypeNameDesignerURL"), 13: v("openTypeNameLicense"), 14: v("openTypeNameLicenseURL"),
        16: pf, 17: ps_, 18: v("openTypeNameCompatibleFullName"), 19: v("openTypeNameSampleText"), 21: None, 22: None,
    }
    if nv[1] == nv[16] and nv[2] == nv[17]:
        nv[16] = nv[17] = None
    if nv[6]:
        nv[6] = ps_name_doc(nv[6], True)
    for i, s in nv.items():
        E[f"name.{i}"] = s if s else None
    if flavor == "otf":
        E["CFF.fontName"] = v("postscriptFontName")
        E["CFF.FullName"] = v("postscriptFullName")
        E["CFF.FamilyName"] = pf
        E["CFF.Weight"] = v("postscriptWeightName")
        E["CFF.isFixedPitch"] = int(v("postscriptIsFixedPitch"))
        E["CFF.ItalicAngle"] = ang
        E["CFF.UnderlinePosition"] = otr(v("postscriptUnderlinePosition"))
        E["CFF.UnderlineThickness"] = otr(v("postscriptUnderlineThickness"))
        for f, a in (("Notice", "trademark"), ("Copyright", "copyright")):
            s = v(a)
            E["CFF." + f] = ps_name_doc(s.replace("©", "Copyright"), True) if s else ""
    return E


def observed_tables(font, flavor):
    O = {}
    for t, fs in (("head", ("unitsPerEm", "fontRevision", "macStyle", "flags", "lowestRecPPEM", "created")),
                  ("hhea", ("ascent", "descent", "lineGap", "caretSlopeRise", "caretSlopeRun", "caretOffset")),
                  ("post", ("italicAngle", "underlinePosition", "underlineThickness", "isFixedPitch"))):
        for f in fs:
            O[f"{t}.{f}"] = getattr(font[t], f)
    os2 = font["OS/2"]
    for f in ("usWeightClass", "usWidthClass", "fsType", "ySubscriptXSize", "ySubscriptYSize", "ySubscriptYOffset", "ySubscriptXOffset", "ySuperscriptXSize",
              "ySuperscriptYSize", "ySuperscriptYOffset", "ySuperscriptXOffset", "yStrikeoutSize", "yStrikeoutPosition", "sFamilyClass", "ulUnicodeRange1",
              "ulUnicodeRange2", "ulUnicodeRange3", "ulUnicodeRange4", "ulCodePageRange1", "ulCodePageRange2", "achVendID", "sxHeight", "sCapHeight",
              "sTypoAscender", "sTypoDescender", "sTypoLineGap", "usWinAscent", "usWinDescent", "fsSelection"):
        O["OS/2." + f] = getattr(os2, f)
    for f in ("bFamilyType", "bSerifStyle", "bWeight", "bProportion", "bContrast", "bStrokeVariation", "bArmStyle", "bLetterForm", "bMidline", "bXHeight"):
        O["OS/2.panose." + f] = getattr(os2.panose, f)
    for i in list(range(0, 15)) + [16, 17, 18, 19, 21, 22]:
        recs = [n for n in font["name"].names if n.nameID == i and n.platformID == 3 and n.langID == 0x409 and n.platEncID in (1, 10)]
        O[f"name.{i}"] = recs[0].toUnicode() if recs else None
    if flavor == "otf":
        cff = font["CFF "].cff
        td = cff.topDictIndex[0]
        O["CFF.fontName"] = cff.fontNames[0]
        for f in ("FullName", "FamilyName", "isFixedPitch", "ItalicAngle", "UnderlinePosition", "UnderlineThickness"):
            O["CFF." + f] = getattr(td, f)
        O["CFF.Weight"] = td.rawDict.get("Weight")
        O["CFF.Notice"] = td.rawDict.get("Notice", "")
        O["CFF.Copyright"] = td.rawDict.get("Copyright", "")
    return O


def field_ok(key, got, want, flavor="otf"):
    if key == "head.flags" and flavor == "ttf":
        # bit 1 (left side bearing at x=0) is recomputed by fontTools' maxp.recalc for TrueType outlines on save
        return (got & ~2) == (want & ~2)
    if key == "OS/2.achVendID":
        return (got or "").ljust(4)[:4] == want[:4]
    if key in ("head.fontRevision", "post.italicAngle", "CFF.ItalicAngle"):
        return abs(got - want) < 1e-3  # 16.16 fixed / CFF real encoding
    if key.startswith("CFF.") and want in (None, ""):
        return got in (None, "")  # an empty CFF string and an absent operator are the same after reload
    return got == want


def in_range(E):
    """struct ranges of the fields are fontTools' (totality is out of scope): only cases that fit are compiled"""
    for k, v_ in E.items():
        if isinstance(v_, bool) or not isinstance(v_, int):
            continue
        unsigned = any(s in k for s in ("usWin", "usWeight", "usWidth", "fsType", "fsSelection", "flags", "macStyle", "unitsPerEm", "lowestRecPPEM", "ulUnicode", "ulCodePage"))
        if unsigned and not (0 <= v_ < (1 << 32 if ".ul" in k else 1 << 16)):
            return False
        if not unsigned and not (-32768 <= v_ <= 32767) and not k.startswith("head.created"):
            return False
    if not (16 <= E["head.unitsPerEm"] <= 16384):
        return False
    return True


def observer(res: Res, tier, seed):
    from contracts.rtlib import build_ufo
    from fontTools.ttLib import TTFont

    from ufo2ft import compileOTF, compileTTF

    rng = random.Random(seed + 3)
    n = 24 if tier == "quick" else 240
    os.environ["SOURCE_DATE_EPOCH"] = "1577934245"
    fails = {}
    evals = 0
    done = 0
    try:
        for k in range(n):
            flavor = "ttf" if k % 2 == 0 else "otf"
            # FINDING (notes/C16.md): compileOTF raises UnicodeEncodeError for names with a non-Latin-1 character
            # (CFF FullName / FamilyName / Weight are stored un-normalised); OTF cases are kept to Latin-1 until decided.
            d = rand_info(rng, latin1_only=(flavor == "otf"), valid_for_compile=True)
            try:
                E = expected_tables(d, flavor)
            except (ZeroDivisionError, OverflowError):
                continue
            if not in_range(E):
                continue
            desc = {"glyphs": {"a": {"width": 500, "unicodes": [97], "box": [10, 0, 300, 400]}, "space": {"width": 250, "unicodes": [32]}}, "info": d,
                    "ufolib": "ufoLib2" if (k // 2) % 2 == 0 else "defcon"}
            try:
                ufo = build_ufo(desc, desc["ufolib"])
            except (ValueError, TypeError):
                continue  # the UFO library itself rejects the value
            done += 1
            try:
                font = (compileTTF if flavor == "ttf" else compileOTF)(ufo)
                buf = io.BytesIO()
                font.save(buf)
                buf.seek(0)
                O = observed_tables(TTFont(buf), flavor)
            except Exception:  # noqa
                fails.setdefault("compiles-saves-reloads", {"info": d, "flavor": flavor, "ufolib": desc["ufolib"], "observed": "raised " + traceback.format_exc()[-600:]})
                continue
            for key, want in E.items():
                evals += 1
                if not field_ok(key, O.get(key), want, flavor):
                    fails.setdefault(key, {"info": d, "flavor": flavor, "ufolib": desc["ufolib"], "field": key, "observed": O.get(key), "expected": want})
    finally:
        os.environ.pop("SOURCE_DATE_EPOCH", None)
    res.r["evaluations"] += evals
    res.r["distinct"] += done
    for key, f in list(fails.items())[:5]:
        res.r["violations"].append(_violation(f"C16.observer[{key}](bounded)", {"clause": "explicit info value appears in the table field (rounded where integral, ASCII where demanded); absent one gets the documented fallback", "case": f}))
    res.r["bounded"].append({"what": "end-to-end observer: random subsets of fontinfo attributes -> compileTTF / compileOTF -> save -> reload -> head / hhea / OS/2 / post / name / CFF top dict against an independent model of explicit-or-fallback",
                             "method": "2-glyph UFOs (ufoLib2 and defcon), values integral / fractional / negative / falsy, non-ASCII names (OTF: Latin-1 only, see finding)", "bound": f"{done} compiled fonts"})


@hook(PID)
def c16_hook(tier, seed):
    res = Res()
    steps = [("E", lambda: ps_exhaustive(res)), ("S", lambda: ps_structure(res, tier, seed)), ("T", lambda: conf_binary2num(res, tier, seed)), ("A", lambda: call_sites(res)),
             ("F", lambda: fallback_functions(res, tier, seed)), ("I", lambda: info_compiler_e2e(res, tier, seed)), ("O", lambda: observer(res, tier, seed))]
    for nm, fn in steps:
        try:
            fn()
        except Exception:  # noqa
            res.r["checker_errors"].append(f"C16 hook step {nm} crashed: {traceback.format_exc()[-700:]}")
    return res.r
