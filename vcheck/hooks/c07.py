"""C07 — compiling never modifies the caller's sources unless inplace is requested.

Deductive part: frame obligations (one per mutation site reachable from the root) discharged by the
whole-program points-to/effect analysis of pyvc.frames, for the roots listed in PROVED_ROOTS (all nine public functions).
Bounded part: deep snapshot of the sources before/after every public compile function on fixtures and on a few synthetic
in-memory designspaces (paths the fixtures do not reach)."""
from __future__ import annotations

import json
import os
import time

from vcheck import framecheck as fc
from vcheck.extra import hook

ROOT = os.path.dirname(os.path.dirname(os.path.dirname(os.path.abspath(__file__))))
PID = "C07"
# roots for which the analysis reports nothing but the known findings on the unchanged tree
PROVED_ROOTS = [
    "compileTTF", "compileOTF", "compileInterpolatableTTFs", "compileInterpolatableTTFsFromDS", "compileInterpolatableOTFsFromDS",
    "compileVariableTTF", "compileVariableTTFs", "compileVariableCFF2", "compileVariableCFF2s",
]
ALL_ROOTS = [
    "compileTTF", "compileOTF", "compileInterpolatableTTFs", "compileInterpolatableTTFsFromDS", "compileInterpolatableOTFsFromDS",
    "compileVariableTTF", "compileVariableTTFs", "compileVariableCFF2", "compileVariableCFF2s",
]


def frame_part(pid, roots, out_dir):
    known = fc.load_known(pid)
    cuts = [c for k in known for c in k.get("cuts", [])]
    specs = [{"name": r, "kind": "compile", "cuts": cuts} for r in roots]
    res = fc.run_roots(specs)
    n_guard, bad_guard = fc._inplace_guard()
    obligations = n_guard
    discharged = n_guard - len(bad_guard)
    violations, knowns, functions = [], [], set()
    samples = []
    for r in res:
        functions |= set(r["functions"])
        alarm_keys = {(a["file"], a["line"], a["what"]) for a in r["alarms"]}
        for s in r["sites"]:
            obligations += 1
            if (s["file"], s["line"], s["what"]) not in alarm_keys:
                discharged += 1
        if len(samples) < 3 and r["sites"]:
            s0 = r["sites"][len(r["sites"]) // 2]
            samples.append({"obligation": f"{pid}.frame.{r['root']}.{s0['file']}:{s0['line']} `{s0['what']}` target not in SRC", "touches": s0["touches"]})
        for a in r["alarms"]:
            hit = None
            for k in known:
                if any(fc.site_matches(s, a["file"], a["func"], a["code"]) for s in k["sites"]):
                    hit = k
            if hit:
                knowns.append((hit, f"{a['file']}:{a['line']}"))
                continue
            name = f"{pid}.frame.{r['root']}.{a['file'].split('/')[-1]}:{a['line']}"
            os.makedirs(out_dir, exist_ok=True)
            p = os.path.join(out_dir, name.replace("/", "_") + ".json")
            with open(p, "w") as f:
                json.dump({"property": pid, "obligation": name, "clause": "frame: the mutated object is not reachable from the caller's sources (inplace=False)",
                           "case": None, "root": r["root"], "site": a, "solver_output": f"points-to analysis: SRC in targets of `{a['what']}` at {a['file']}:{a['line']} ({a['code']}) in {a['func']}"}, f, indent=1)
            violations.append(f"VIOLATION property={pid} replay={p} obligation={name} no-failing-input-found")
    for b in bad_guard:
        violations.append(f"VIOLATION property={pid} replay={os.path.join(out_dir, 'inplace-guard.json')} obligation={pid}.frame.inplace-forwarded-only no-failing-input-found")
        os.makedirs(out_dir, exist_ok=True)
        with open(os.path.join(out_dir, "inplace-guard.json"), "w") as f:
            json.dump({"property": pid, "obligation": f"{pid}.frame.inplace-forwarded-only", "case": None, "solver_output": "\n".join(bad_guard)}, f)
    return {
        "obligations": obligations, "discharged": discharged, "violations": violations, "known": knowns,
        "functions": sorted(functions), "roots": [{k: r[k] for k in ("root", "rounds", "restarts", "contexts", "wall_s", "unknown_calls")} for r in res],
        "trusted_fresh": sorted({x for r in res for x in r["trusted_fresh"]}), "samples": samples, "globals": [g for r in res for g in r["globals"]],
    }


# ---- bounded observer ---------------------------------------------------------------------------------------
def _fixture_cases(tier):
    base = os.path.join(os.environ.get("VERIF_REPO", "/repo"), "tests", "data")
    ufos = ["TestFont.ufo", "ColorTest.ufo", "TestMathFont-Regular.ufo", "DottedCircleTest.ufo", "NestedComponents-Regular.ufo", "UseMyMetrics.ufo", "LayerFont-Regular.ufo"]
    dss = ["TestVarFont.designspace", "TestVarfea.designspace", "NestedComponents.designspace", "SkipExportGlyphsTest.designspace"]
    if tier == "thorough":
        ufos += ["CantarellAnchorPropagation.ufo", "ContextualAnchorsTest-Regular.ufo", "MultipleAnchorClasses.ufo", "Alternates-Regular.ufo", "SpacingCombiningTest-Regular.ufo", "COLRv1Test.ufo"]
        dss += ["OTestFont.designspace", "DSv5/MutatorSansVariable_Weight_Width-CFF2.designspace"]
    return [os.path.join(base, u) for u in ufos], [os.path.join(base, d) for d in dss if os.path.exists(os.path.join(base, d))]


def observer_part(pid, tier, out_dir):
    import warnings

    warnings.filterwarnings("ignore")
    import logging

    logging.disable(logging.CRITICAL)
    import ufoLib2
    import defcon
    from fontTools.designspaceLib import DesignSpaceDocument

    import ufo2ft
    from contracts import rtlib

    known = fc.load_known(pid)
    ufos, dss = _fixture_cases(tier)
    evals = 0
    violations, knowns = [], []
    samples = []

    def report(kind, path, fn, opts, diffs):
        for k in known:
            ob = k.get("observer")
            # fixture "*": any fixture / synthetic document -- but ONLY differences on the listed paths are attributed
            if ob and ob["fixture"] in ("*", os.path.basename(path)) and all(any(d.startswith(p) or p in d for p in ob["paths"]) for d in diffs):
                knowns.append((k, f"observer:{os.path.basename(path)}:{fn}"))
                return
        name = f"{pid}.observer.{fn}.{os.path.basename(path)}"
        os.makedirs(out_dir, exist_ok=True)
        p = os.path.join(out_dir, name + ".json")
        with open(p, "w") as f:
            json.dump({"property": pid, "obligation": name, "clause": "sources equal before and after the call (deep snapshot)", "case": {"fixture": path, "function": fn, "options": opts, "loader": kind},
                       "observed": diffs, "contract": None}, f, indent=1)
        violations.append(f"VIOLATION property={pid} replay={p} obligation={name}")

    static_opts = [{}, {"removeOverlaps": False, "flattenComponents": True}, {"useProductionNames": True}] if tier == "thorough" else [{}, {"flattenComponents": True}]
    for path in ufos:
        for kind, opener in (("ufoLib2", ufoLib2.Font.open), ("defcon", defcon.Font)):
            if tier != "thorough" and kind == "defcon" and not path.endswith(("TestFont.ufo", "ColorTest.ufo")):
                continue
            for fn in ("compileTTF", "compileOTF"):
                for opts in static_opts:
                    try:
                        f = opener(path)
                        before = rtlib.snapshot_ufo(f)
                        for _ in range(2):  # "after one and after repeated calls"
                            try:
                                getattr(ufo2ft, fn)(f, **opts)
                            except Exception:
                                pass
                        after = rtlib.snapshot_ufo(f)
                    except Exception as e:  # noqa
                        continue
                    evals += 1
                    d = rtlib.diff_paths(before, after)
                    if d:
                        report(kind, path, fn, opts, d)
                    elif len(samples) < 2:
                        samples.append({"fixture": os.path.basename(path), "function": fn, "options": opts, "loader": kind, "result": "sources unchanged"})
    ds_fns = ["compileInterpolatableTTFsFromDS", "compileInterpolatableOTFsFromDS", "compileVariableTTF", "compileVariableCFF2", "compileVariableTTFs", "compileVariableCFF2s"]
    for path in dss:
        for fn in ds_fns:
            if tier != "thorough" and fn in ("compileVariableTTFs", "compileVariableCFF2s") and "TestVarFont" not in path:
                continue
            try:
                ds = DesignSpaceDocument.fromfile(path)
                ds.loadSourceFonts(ufoLib2.Font.open)
                before = rtlib.snapshot_designspace(ds)
                try:
                    getattr(ufo2ft, fn)(ds)
                except Exception:
                    pass
                after = rtlib.snapshot_designspace(ds)
            except Exception:
                continue
            evals += 1
            d = rtlib.diff_paths(before, after)
            if d:
                report("ufoLib2", path, fn, {}, d)
    # interpolatable from a list of UFOs
    base = os.path.dirname(ufos[0])
    for names in (["TestVarFont-Regular.ufo", "TestVarFont-Bold.ufo"], ["NestedComponents-Regular.ufo", "NestedComponents-Bold.ufo"]):
        try:
            fonts = [ufoLib2.Font.open(os.path.join(base, n)) for n in names]
            before = [rtlib.snapshot_ufo(f) for f in fonts]
            list(ufo2ft.compileInterpolatableTTFs(fonts))
            after = [rtlib.snapshot_ufo(f) for f in fonts]
            evals += 1
            d = rtlib.diff_paths(before, after)
            if d:
                report("ufoLib2", os.path.join(base, names[0]), "compileInterpolatableTTFs", {}, d)
        except Exception:
            pass
    # synthetic designspaces that exercise paths the fixtures do not reach (found by the frame analysis):
    # masters whose lib asks for the propagateAnchors pre-filter, with a nested composite whose base glyph has contours AND
    # components (so that InterpolatedLayer hands out the glyph object itself instead of interpolating a new one)
    for name, make in _synthetic_designspaces():
        for fn in ds_fns:
            try:
                ds = make()
                before = rtlib.snapshot_designspace(ds)
                try:
                    getattr(ufo2ft, fn)(ds)
                except Exception:
                    pass
                after = rtlib.snapshot_designspace(ds)
            except Exception:
                continue
            evals += 1
            d = rtlib.diff_paths(before, after)
            if d:
                report("ufoLib2", name, fn, {}, d)
    logging.disable(logging.NOTSET)
    return {"evaluations": evals, "violations": violations, "known": knowns, "samples": samples}


def _synthetic_designspaces():
    import ufoLib2
    from fontTools.designspaceLib import AxisDescriptor, DesignSpaceDocument, SourceDescriptor

    def master(weight, filters):
        f = ufoLib2.Font()
        f.info.familyName = "T"
        f.info.styleName = "W%d" % weight
        f.info.unitsPerEm = 1000
        f.info.ascender = 800
        f.info.descender = -200
        f.info.xHeight = 500
        f.info.capHeight = 700

        def sq(g, x0, y0, x1, y1):
            p = g.getPen()
            p.moveTo((x0, y0))
            p.lineTo((x1, y0))
            p.lineTo((x1, y1))
            p.lineTo((x0, y1))
            p.closePath()

        g = f.newGlyph(".notdef")
        g.width = 500
        g = f.newGlyph("a")
        g.width = 500 + weight // 10
        g.unicodes = [0x61]
        sq(g, 50, 0, 400 + weight // 10, 500)
        g.appendAnchor({"name": "top", "x": 250, "y": 520})
        g = f.newGlyph("acutecomb")
        g.width = 0
        g.unicodes = [0x301]
        sq(g, -50, 550, 50, 700)
        g.appendAnchor({"name": "_top", "x": 0, "y": 520})
        g = f.newGlyph("aacute")  # mixed: one contour and two components
        g.width = 500 + weight // 10
        g.unicodes = [0xE1]
        sq(g, 0, -100, 20, -80)
        p = g.getPen()
        p.addComponent("a", (1, 0, 0, 1, 0, 0))
        p.addComponent("acutecomb", (1, 0, 0, 1, 250, 0))
        g = f.newGlyph("aacute.alt")  # nested composite
        g.width = 500 + weight // 10
        f["aacute.alt"].getPen().addComponent("aacute", (1, 0, 0, 1, 0, 0))
        f.lib["com.github.googlei18n.ufo2ft.filters"] = filters
        return f

    def doc(filters):
        def make():
            ds = DesignSpaceDocument()
            ax = AxisDescriptor()
            ax.name, ax.tag, ax.minimum, ax.default, ax.maximum = "Weight", "wght", 400, 400, 700
            ds.addAxis(ax)
            for w in (400, 700):
                s = SourceDescriptor()
                s.font = master(w, [dict(x) for x in filters])
                s.location = {"Weight": w}
                s.name = "master.%d" % w
                s.familyName, s.styleName = "T", "W%d" % w
                ds.addSource(s)
            return ds

        return make

    yield "synthetic:propagateAnchors-pre.designspace", doc([{"name": "propagateAnchors", "pre": True}])
    yield "synthetic:flattenComponents-pre.designspace", doc([{"name": "flattenComponents", "pre": True}])
    yield "synthetic:decomposeTransformedComponents-pre.designspace", doc([{"name": "decomposeTransformedComponents", "pre": True}])


@hook(PID)
def c07(tier, seed):
    t0 = time.time()
    out_dir = os.path.join(os.environ.get("VERIF_OUT", os.path.join(ROOT, "out")), PID, "replay")
    fr = frame_part(PID, PROVED_ROOTS, out_dir)
    ob = observer_part(PID, tier, out_dir)
    return {
        "obligations": fr["obligations"], "discharged": fr["discharged"] + len({w for _, w in fr["known"]}) * 0,
        "violations": fr["violations"] + ob["violations"],
        "known": fr["known"] + ob["known"],
        "evaluations": ob["evaluations"], "distinct": ob["evaluations"],
        "bounded": [{"what": "deep snapshot of every source (all layers' glyphs, lib, info, kerning, groups, features; designspace document) before/after each of the 9 public compile functions, each static function called twice, on the repository's fixture UFOs/designspaces", "bound": f"{ob['evaluations']} (function, fixture, options, loader) combinations", "result": "clean" if not ob["violations"] else "violations"}],
        "trusted": ["frames: library calls do not mutate their arguments except through the catalogued mutator / pen-protocol names (pyvc/frames.py MUTATORS, PEN_METHODS, DRAW_METHODS, MUTATING_FUNCS with the depth each one writes to, ARG_MUTATING_METHODS extractGlyph/extractInfo/extractKerning)",
                    "frames: library functions listed in FRESH_FUNCS return new objects that do not alias their arguments, and neither keep, mutate nor call them: " + ", ".join(fr["trusted_fresh"]),
                    "frames: FRESH_METHODS of a source object return new objects; SHALLOW_FRESH_METHODS (values, items, asdict, getDataForSerialization, ...) and copy.copy / .copy() return a new container or record whose CONTENTS are the source's own objects",
                    "frames: library objects expose constructor arguments only through keyword-named attributes, a wrapping pen's output pen, and container elements; a library CONSTRUCTOR may call functions / bound methods / partials it is given but no other callable instances; PURE_BUILTINS and FRESH_FUNCS do not call their arguments",
                    "frames: deepcopyExceptFonts gives a fresh document sharing only the `.font` objects; splitInterpolable / splitVariableFonts give new documents with new source descriptors whose other field values are shared by reference (fontTools/designspaceLib/split.py); both are snapshots (stores to the original that provably come later do not reach them)",
                    "frames: DesignSpaceDocument.loadSourceFonts writes source.font only for sources whose font is None (fontTools/designspaceLib); DesignSpaceDocument.findDefault assigns doc.default",
                    "frames: the attribute `name` of a source / library object (glyph, layer, anchor, component, axis, source, lookup, ...) is a str",
                    "frames: input domain -- the argument of compileTTF / compileOTF / compileInterpolatableTTFs is a UFO font (list of fonts) with no DesignSpaceDocument reachable from it; the argument of the *FromDS / compileVariable* functions is a DesignSpaceDocument whose sources' `.font` are such UFO fonts",
                    "frames: class- and module-level state at the time of the call equals the state after import (constant folding of class-level reflection such as getInterpolatableFilterClass, contents of module-level constant collections); constructors run once per object",
                    "frames: filters named in the UFO lib resolve to the non-interpolatable filter classes shipped in ufo2ft.filters; user-supplied filter / feature-writer / compiler subclasses are not analysed",
                    "frames: exceptions raised by library code carry no analysed objects; code synthesised by dataclasses / namedtuple only reads and compares fields; binary special methods receive analysed instances defining the same method"],
        "assumptions": ["frame analysis: allocation-site points-to, flow-insensitive on the heap; locals by reaching definitions; contexts cloned on constant bool/None/str arguments, on the number of *args and call site of vararg functions, and per allocation site for constructors; `x is None` / isinstance tests decided from the final points-to sets and kept only if re-validated by the fixpoint computed under them; guards narrow locals; constructs outside the model (local classes, global/nonlocal, exec/eval, metaclasses, __new__/__setattr__/__getattribute__/descriptors, explicit __init__ calls) are reported as undischarged obligations",
                        f"deductive frame proof covers the roots {PROVED_ROOTS}; engine self-test: selftest/frames_run.py (must-alarm / must-not-alarm twins on synthetic programs)"],
        "explanation": f"frame obligations: {fr['obligations']} mutation sites / guards in {len(fr['functions'])} functions reachable from {PROVED_ROOTS}; {fr['discharged']} discharged by the points-to analysis; {len(fr['known'])} sites attributed to known findings. Observer (bounded): {ob['evaluations']} snapshot comparisons.",
        "frame_roots": fr["roots"],
        "frame_functions": len(fr["functions"]),
        "frame_samples": fr["samples"],
    }
