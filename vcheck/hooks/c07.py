"""C07 — compiling never modifies the caller's sources unless inplace is requested.

Deductive part: frame obligations (one per mutation site reachable from the root) discharged by the
whole-program points-to/effect analysis of pyvc.frames, for the roots listed in PROVED_ROOTS.
Bounded part: deep snapshot of the sources before/after every public compile function on fixtures."""
from __future__ import annotations

import json
import os
import time

from vcheck import framecheck as fc
from vcheck.extra import hook

ROOT = os.path.dirname(os.path.dirname(os.path.dirname(os.path.abspath(__file__))))
PID = "C07"
# roots for which the analysis is exact on the unchanged tree (only the known findings are reported)
PROVED_ROOTS = [
    "compileTTF", "compileOTF", "compileInterpolatableTTFs", "compileInterpolatableTTFsFromDS", "compileInterpolatableOTFsFromDS",
    "compileVariableTTF", "compileVariableTTFs", "compileVariableCFF2", "compileVariableCFF2s",
]
ALL_ROOTS = [
    "compileTTF", "compileOTF", "compileInterpolatableTTFs", "compileInterpolatableTTFsFromDS", "compileInterpolatableOTFsFromDS",
    "compileVariableTTF", "compileVariableTTFs", "compileVariableCFF2", "compileVariableCFF2s",
]


def frame_part(pid, roots, out_dir):
    known = fc.load_known(pid)
    cuts = [c for k in known for c in k.get("cuts", [])]
    specs = [{"name": r, "kind": "compile", "cuts": cuts} for r in roots]
    res = fc.run_roots(specs)
    n_guard, bad_guard = fc._inplace_guard()
    obligations = n_guard
    discharged = n_guard - len(bad_guard)
    violations, knowns, functions = [], [], set()
    samples = []
    for r in res:
        functions |= set(r["functions"])
        alarm_keys = {(a["file"], a["line"], a["what"]) for a in r["alarms"]}
        for s in r["sites"]:
            obligations += 1
            if (s["file"], s["line"], s["what"]) not in alarm_keys:
                discharged += 1
        if len(samples) < 3 and r["sites"]:
            s0 = r["sites"][len(r["sites"]) // 2]
            samples.append({"obligation": f"{pid}.frame.{r['root']}.{s0['file']}:{s0['line']} `{s0['what']}` target not in SRC", "touches": s0["touches"]})
        for a in r["alarms"]:
            hit = None
            for k in known:
                if any(fc.site_matches(s, a["file"], a["func"], a["code"]) for s in k["sites"]):
                    hit = k
            if hit:
                knowns.append((hit, f"{a['file']}:{a['line']}"))
                continue
            name = f"{pid}.frame.{r['root']}.{a['file'].split('/')[-1]}:{a['line']}"
            os.makedirs(out_dir, exist_ok=True)
            p = os.path.join(out_dir, name.replace("/", "_") + ".json")
            with open(p, "w") as f:
                json.dump({"property": pid, "obligation": name, "clause": "frame: the mutated object is not reachable from the caller's sources (inplace=False)",
                           "case": None, "root": r["root"], "site": a, "solver_output": f"points-to analysis: SRC in targets of `{a['what']}` at {a['file']}:{a['line']} ({a['code']}) in {a['func']}"}, f, indent=1)
            violations.append(f"VIOLATION property={pid} replay={p} obligation={name} no-failing-input-found")
    for b in bad_guard:
        violations.append(f"VIOLATION property={pid} replay={os.path.join(out_dir, 'inplace-guard.json')} obligation={pid}.frame.inplace-forwarded-only no-failing-input-found")
        os.makedirs(out_dir, exist_ok=True)
        with open(os.path.join(out_dir, "inplace-guard.json"), "w") as f:
            json.dump({"property": pid, "obligation": f"{pid}.frame.inplace-forwarded-only", "case": None, "solver_output": "\n".join(bad_guard)}, f)
    return {
        "obligations": obligations, "discharged": discharged, "violations": violations, "known": knowns,
        "functions": sorted(functions), "roots": [{k: r[k] for k in ("root", "rounds", "restarts", "contexts", "wall_s", "unknown_calls")} for r in res],
        "trusted_fresh": sorted({x for r in res for x in r["trusted_fresh"]}), "samples": samples, "globals": [g for r in res for g in r["globals"]],
    }


# ---- bounded observer ---------------------------------------------------------------------------------------
def _fixture_cases(tier):
    base = os.path.join(os.environ.get("VERIF_REPO", "/repo"), "tests", "data")
    ufos = ["TestFont.ufo", "ColorTest.ufo", "TestMathFont-Regular.ufo", "DottedCircleTest.ufo", "NestedComponents-Regular.ufo", "UseMyMetrics.ufo", "LayerFont-Regular.ufo"]
    dss = ["TestVarFont.designspace", "TestVarfea.designspace", "NestedComponents.designspace", "SkipExportGlyphsTest.designspace"]
    if tier == "thorough":
        ufos += ["CantarellAnchorPropagation.ufo", "ContextualAnchorsTest-Regular.ufo", "MultipleAnchorClasses.ufo", "Alternates-Regular.ufo", "SpacingCombiningTest-Regular.ufo", "COLRv1Test.ufo"]
        dss += ["OTestFont.designspace", "DSv5/MutatorSansVariable_Weight_Width-CFF2.designspace"]
    return [os.path.join(base, u) for u in ufos], [os.path.join(base, d) for d in dss if os.path.exists(os.path.join(base, d))]


def observer_part(pid, tier, out_dir):
    import warnings

    warnings.filterwarnings("ignore")
    import logging

    logging.disable(logging.CRITICAL)
    import ufoLib2
    import defcon
    from fontTools.designspaceLib import DesignSpaceDocument

    import ufo2ft
    from contracts import rtlib

    known = fc.load_known(pid)
    ufos, dss = _fixture_cases(tier)
    evals = 0
    violations, knowns = [], []
    samples = []

    def report(kind, path, fn, opts, diffs):
        for k in known:
            ob = k.get("observer")
            if ob and os.path.basename(path) == ob["fixture"] and all(any(d.startswith(p) or p in d for p in ob["paths"]) for d in diffs):
                knowns.append((k, f"observer:{os.path.basename(path)}:{fn}"))
                return
        name = f"{pid}.observer.{fn}.{os.path.basename(path)}"
        os.makedirs(out_dir, exist_ok=True)
        p = os.path.join(out_dir, name + ".json")
        with open(p, "w") as f:
            json.dump({"property": pid, "obligation": name, "clause": "sources equal before and after the call (deep snapshot)", "case": {"fixture": path, "function": fn, "options": opts, "loader": kind},
                       "observed": diffs, "contract": None}, f, indent=1)
        violations.append(f"VIOLATION property={pid} replay={p} obligation={name}")

    static_opts = [{}, {"removeOverlaps": False, "flattenComponents": True}, {"useProductionNames": True}] if tier == "thorough" else [{}, {"flattenComponents": True}]
    for path in ufos:
        for kind, opener in (("ufoLib2", ufoLib2.Font.open), ("defcon", defcon.Font)):
            if tier != "thorough" and kind == "defcon" and not path.endswith(("TestFont.ufo", "ColorTest.ufo")):
                continue
            for fn in ("compileTTF", "compileOTF"):
                for opts in static_opts:
                    try:
                        f = opener(path)
                        before = rtlib.snapshot_ufo(f)
                        for _ in range(2):  # "after one and after repeated calls"
                            try:
                                getattr(ufo2ft, fn)(f, **opts)
                            except Exception:
                                pass
                        after = rtlib.snapshot_ufo(f)
                    except Exception as e:  # noqa
                        continue
                    evals += 1
                    d = rtlib.diff_paths(before, after)
                    if d:
                        report(kind, path, fn, opts, d)
                    elif len(samples) < 2:
                        samples.append({"fixture": os.path.basename(path), "function": fn, "options": opts, "loader": kind, "result": "sources unchanged"})
    ds_fns = ["compileInterpolatableTTFsFromDS", "compileInterpolatableOTFsFromDS", "compileVariableTTF", "compileVariableCFF2", "compileVariableTTFs", "compileVariableCFF2s"]
    for path in dss:
        for fn in ds_fns:
            if tier != "thorough" and fn in ("compileVariableTTFs", "compileVariableCFF2s") and "TestVarFont" not in path:
                continue
            try:
                ds = DesignSpaceDocument.fromfile(path)
                ds.loadSourceFonts(ufoLib2.Font.open)
                before = rtlib.snapshot_designspace(ds)
                try:
                    getattr(ufo2ft, fn)(ds)
                except Exception:
                    pass
                after = rtlib.snapshot_designspace(ds)
            except Exception:
                continue
            evals += 1
            d = rtlib.diff_paths(before, after)
            if d:
                report("ufoLib2", path, fn, {}, d)
    # interpolatable from a list of UFOs
    base = os.path.dirname(ufos[0])
    for names in (["TestVarFont-Regular.ufo", "TestVarFont-Bold.ufo"], ["NestedComponents-Regular.ufo", "NestedComponents-Bold.ufo"]):
        try:
            fonts = [ufoLib2.Font.open(os.path.join(base, n)) for n in names]
            before = [rtlib.snapshot_ufo(f) for f in fonts]
            list(ufo2ft.compileInterpolatableTTFs(fonts))
            after = [rtlib.snapshot_ufo(f) for f in fonts]
            evals += 1
            d = rtlib.diff_paths(before, after)
            if d:
                report("ufoLib2", os.path.join(base, names[0]), "compileInterpolatableTTFs", {}, d)
        except Exception:
            pass
    logging.disable(logging.NOTSET)
    return {"evaluations": evals, "violations": violations, "known": knowns, "samples": samples}


@hook(PID)
def c07(tier, seed):
    t0 = time.time()
    out_dir = os.path.join(os.environ.get("VERIF_OUT", os.path.join(ROOT, "out")), PID, "replay")
    fr = frame_part(PID, PROVED_ROOTS, out_dir)
    ob = observer_part(PID, tier, out_dir)
    return {
        "obligations": fr["obligations"], "discharged": fr["discharged"] + len({w for _, w in fr["known"]}) * 0,
        "violations": fr["violations"] + ob["violations"],
        "known": fr["known"] + ob["known"],
        "evaluations": ob["evaluations"], "distinct": ob["evaluations"],
        "bounded": [{"what": "deep snapshot of every source (all layers' glyphs, lib, info, kerning, groups, features; designspace document) before/after each of the 9 public compile functions, each static function called twice, on the repository's fixture UFOs/designspaces", "bound": f"{ob['evaluations']} (function, fixture, options, loader) combinations", "result": "clean" if not ob["violations"] else "violations"}],
        "trusted": ["frames: library calls do not mutate their arguments except through the catalogued mutator / pen-protocol names (pyvc/frames.py MUTATORS, PEN_METHODS, DRAW_METHODS, MUTATING_FUNCS)",
                    "frames: library functions listed in FRESH_FUNCS / FRESH_METHODS return new objects that do not alias their arguments: " + ", ".join(fr["trusted_fresh"]),
                    "frames: library objects expose constructor arguments only through keyword-named attributes, a wrapping pen's output pen, and container elements",
                    "frames: deepcopyExceptFonts / splitInterpolable / splitVariableFonts give fresh documents whose sources still reference the original fonts",
                    "frames: user-supplied filter / feature-writer / compiler subclasses are not analysed"],
        "assumptions": ["frame analysis is flow-insensitive except for top-level reassignments (strong updates) and `x is None` tests decided from the final points-to sets (re-validated by restart)",
                        f"deductive frame proof covers the roots {PROVED_ROOTS}; the interpolatable / variable roots are covered by the bounded observer only"],
        "explanation": f"frame obligations: {fr['obligations']} mutation sites / guards in {len(fr['functions'])} functions reachable from {PROVED_ROOTS}; {fr['discharged']} discharged by the points-to analysis; {len(fr['known'])} sites attributed to known findings. Observer (bounded): {ob['evaluations']} snapshot comparisons.",
        "frame_roots": fr["roots"],
        "frame_functions": len(fr["functions"]),
        "frame_samples": fr["samples"],
    }
