"""C18 — bounded parts: function-level checks of the GDEF / curs writer helpers that are outside the pyvc subset, and the
end-to-end observer reading GlyphClassDef, LigCaretList and the cursive EntryExitRecords back from compiled tables.

Runs the REAL code of the tree under check natively; nothing here is counted as proved.
`python -m vcheck.hooks.c18 replay <file>` re-runs one recorded case.
"""
from __future__ import annotations

import itertools
import json
import math
import os
import random
import sys
import traceback

from vcheck.extra import hook
from vcheck.hooks.c17 import ROOT, Report, guarded

CLASS_VALUE = {"base": 1, "ligature": 2, "mark": 3, "component": 4}


def ot_round(v):
    return int(math.floor(v + 0.5))


def _ufo(case):
    """case: glyphs {name: {uni, anchors [[name,x,y]]}}, order, cats, skip, fea"""
    import logging

    import ufoLib2

    logging.getLogger("ufo2ft").setLevel(logging.CRITICAL)
    ufo = ufoLib2.Font()
    ufo.info.unitsPerEm = 1000
    ufo.info.ascender = 800
    ufo.info.descender = -200
    g = ufo.newGlyph(".notdef")
    g.width = 500
    for name, d in case["glyphs"].items():
        g = ufo.newGlyph(name)
        g.width = 0 if d.get("mark") else 500
        if d.get("uni") is not None:
            g.unicodes = [d["uni"]]
        for an, x, y in d.get("anchors", []):
            g.appendAnchor({"name": an, "x": x, "y": y} if an is not None else {"x": x, "y": y})  # None: an unnamed anchor
        if not d.get("nocontour"):
            pen = g.getPen()
            pen.moveTo((0, 0)); pen.lineTo((10, 0)); pen.lineTo((10, 10)); pen.closePath()
        for base in d.get("components", []):  # (a glyph made of components only has no contour of its own: `bool(glyph)` is False)
            g.getPointPen().addComponent(base, (1, 0, 0, 1, 0, 0))
    if case.get("cats") is not None:
        ufo.lib["public.openTypeCategories"] = dict(case["cats"])
    if case.get("skip"):
        ufo.lib["public.skipExportGlyphs"] = list(case["skip"])
    ufo.lib["public.glyphOrder"] = [".notdef"] + list(case.get("order") or case["glyphs"])
    ufo.features.text = case.get("fea", "")
    if case.get("offset"):
        # a glyph-set filter that MOVES every anchor (and outline) before the features are written
        ufo.lib["com.github.googlei18n.ufo2ft.filters"] = [{"name": "transformations", "kwargs": {"OffsetX": case["offset"]}, "pre": True}]
    return ufo


def _exported(case):
    return [n for n in [".notdef"] + list(case["glyphs"]) if n not in set(case.get("skip") or ())]


# =====================================================================================================================
# 1. function-level checks (writers run outside a compiler: glyph set = font minus public.skipExportGlyphs)


def _gdef_writer(case):
    from io import StringIO

    from fontTools.feaLib.parser import Parser

    from ufo2ft.featureWriters import GdefFeatureWriter

    ufo = _ufo(case)
    fea = Parser(StringIO(case.get("fea", "")), glyphNames=set(ufo.keys()), followIncludes=False).parse()
    w = GdefFeatureWriter(mode=case.get("mode", "skip"))
    w.setContext(ufo, fea)
    return w, ufo, fea


def expected_carets(case, offset=0):
    """per exported glyph the increasing distinct rounded caret_ x / vcaret_ y coordinates of ITS OWN anchors (moved by `offset` when a
    glyph-set filter moved them)"""
    out = {}
    for name in _exported(case):
        d = case["glyphs"].get(name)
        if not d:
            continue
        cs = set()
        for an, x, y in d.get("anchors", []):
            if not an:
                continue
            if an.startswith("caret_"):
                cs.add(x + offset)
            elif an.startswith("vcaret_"):
                cs.add(y)
        if cs:
            out[name] = [ot_round(c) for c in sorted(cs)]
    return out


def check_gdef_functions(case):
    from fontTools.feaLib import ast as fa

    fails = []
    w, ufo, fea = _gdef_writer(case)
    exported = _exported(case)
    # _sortedGlyphClass: category ∩ exported glyphs, sorted
    for names in (set(case["glyphs"]), {"a", "zzz"}, set(), set(case.get("skip") or ())):
        got = w._sortedGlyphClass(names)
        want = sorted(set(exported) & names)
        if got != want:
            fails.append(("sortedGlyphClass", f"{sorted(names)} -> {got}, expected {want}"))
    # _getLigatureCarets: per exported glyph the distinct caret_ x / vcaret_ y coordinates, increasing, rounded
    got = w._getLigatureCarets()
    want = expected_carets(case)
    if got != want:
        fails.append(("ligatureCarets", f"{got} expected {want}"))
    if list(got) != [n for n in exported if n in want]:
        fails.append(("ligatureCarets-order", f"{list(got)}"))
    # _write: class statement arguments and caret statements, appended to the (possibly user-written) GDEF block
    user_block = next((s for s in fea.statements if isinstance(s, fa.TableBlock) and s.name == "GDEF"), None)
    user_before = list(user_block.statements) if user_block is not None else None
    top_before = list(fea.statements)
    todo = set(w.context.todo)
    if todo:
        w._write()
        blk = user_block if user_block is not None else fea.statements[-1]
        if user_block is not None:
            if blk.statements[: len(user_before)] != user_before or fea.statements != top_before:
                fails.append(("user-gdef-kept", "user GDEF statements changed"))
            new = blk.statements[len(user_before):]
        else:
            if fea.statements[:-1] != top_before or not (isinstance(blk, fa.TableBlock) and blk.name == "GDEF"):
                fails.append(("new-gdef-appended", "file changed other than by one appended GDEF block"))
            new = list(blk.statements)
        cats = case.get("cats") or {}
        exp = []
        if "GlyphClassDefs" in todo:
            exp.append(("GCD", tuple(sorted(n for n in exported if cats.get(n) == c) for c in ("base", "mark", "ligature", "component"))))
        if "LigatureCarets" in todo:
            exp += [("CARET", n, tuple(cs)) for n, cs in want.items()]
        gotd = []
        for s in new:
            if isinstance(s, fa.GlyphClassDefStatement):
                gotd.append(("GCD", tuple(tuple(x.glyphs) for x in (s.baseGlyphs, s.markGlyphs, s.ligatureGlyphs, s.componentGlyphs))))
            elif isinstance(s, fa.LigatureCaretByPosStatement):
                gotd.append(("CARET", s.glyphs.glyph, tuple(s.carets)))
            else:
                gotd.append(("OTHER", type(s).__name__))
        norm_e = [(e[0], tuple(tuple(x) for x in e[1])) if e[0] == "GCD" else e for e in exp]
        if gotd != norm_e:
            fails.append(("gdef-statements", f"written {gotd}, expected {norm_e}"))
    return fails


def gdef_function_domain(tier):
    rng = random.Random(18)
    names = ["a", "b", "f_i", "acutecomb", "x.comp", "skipped"]
    cases = []
    n = 60 if tier == "quick" else 600
    feas = ["", "", "table GDEF {\n    GlyphClassDef [a], , , ;\n} GDEF;\n", "table GDEF {\n    LigatureCaretByPos f_i 100;\n} GDEF;\n", "table GDEF {\n    # c\n} GDEF;\n"]
    for _ in range(n):
        glyphs = {}
        for nm in names:
            anchors = []
            # anchor names are unique within a glyph (with duplicates `_getAnchor` reads the first one of that name: see notes/C18.md)
            for an in rng.sample(["caret_1", "caret_2", "caret_", "vcaret_1", "top", "caretx", "Caret_1"], rng.randint(0, 3)):
                anchors.append([an, rng.choice([100, 100.4, 100.5, 250, 99.6, 0, -20.5]), rng.choice([0, 300, 300.5, 10])])
            if anchors and rng.random() < 0.15:
                anchors.append([anchors[0][0], 77.5, 33])  # a second anchor of the same name: every caret anchor contributes its OWN coordinate
            if rng.random() < 0.15:
                anchors.append([None, 5, 5])  # an unnamed anchor
            glyphs[nm] = {"uni": None, "anchors": anchors}
        cats = {nm: rng.choice(["base", "mark", "ligature", "component", "unassigned", "bogus"]) for nm in rng.sample(names + ["ghost"], rng.randint(0, 6))}
        cases.append({"glyphs": glyphs, "cats": cats or None, "skip": rng.choice([[], ["skipped"], ["skipped", "b"]]), "fea": rng.choice(feas), "mode": rng.choice(["skip", "skip", "append"])})
    return cases


# ---- curs writer ---------------------------------------------------------------------------------------------------


def _curs_writer(case):
    from io import StringIO

    from fontTools.feaLib.parser import Parser

    from ufo2ft.featureWriters import CursFeatureWriter

    ufo = _ufo(case)
    fea = Parser(StringIO(case.get("fea", "")), glyphNames=set(ufo.keys()), followIncludes=False).parse()
    w = CursFeatureWriter()
    w.setContext(ufo, fea)
    return w, ufo, fea


def expected_pairs(case):
    names = set()
    for n in _exported(case):
        for an, _, _ in case["glyphs"].get(n, {}).get("anchors", []):
            if an:
                names.add(an)
    pairs = set()
    if "entry" in names and "exit" in names:
        pairs.add(("entry", "exit"))
    for a in names:
        if a.startswith("entry.") and "exit." + a[6:] in names:
            pairs.add((a, "exit." + a[6:]))
    return sorted(pairs)


def _first_anchor(case, glyph, name, offset=0):
    for an, x, y in case["glyphs"].get(glyph, {}).get("anchors", []):
        if an == name:
            return (ot_round(x + offset), ot_round(y))
    return None


def check_curs_functions(case):
    fails = []
    w, ufo, fea = _curs_writer(case)
    ogs = w.getOrderedGlyphSet()
    if list(ogs) != [n for n in ufo.lib["public.glyphOrder"] if n in set(_exported(case))]:
        fails.append(("orderedGlyphSet", f"{list(ogs)}"))
    pairs = w._getCursiveAnchorPairs(ogs.items())
    if pairs != expected_pairs(case):
        fails.append(("cursiveAnchorPairs", f"{pairs} expected {expected_pairs(case)}"))
    for entry, exit_ in expected_pairs(case) + [("entry", "exit")]:
        stmts = w._makeCursiveStatements(list(ogs.values()), entry, exit_)
        got = [(s.glyphclass.glyph, s.entryAnchor and (s.entryAnchor.x, s.entryAnchor.y), s.exitAnchor and (s.exitAnchor.x, s.exitAnchor.y)) for s in stmts]
        want = []
        for n in ogs:
            e, x = _first_anchor(case, n, entry), _first_anchor(case, n, exit_)
            if e is not None or x is not None:
                want.append((n, e, x))
        if got != want:
            fails.append(("cursiveStatements", f"{entry}/{exit_}: {got} expected {want}"))
    return fails


def curs_function_domain(tier):
    rng = random.Random(181)
    names = ["a", "b", "c", "beh-ar", "skipped"]
    anchor_names = ["entry", "exit", "entry.LTR", "exit.LTR", "entry.RTL", "exit.RTL", "entry.1", "exit.1", "exit.2", "top", "entryx"]
    n = 80 if tier == "quick" else 800
    cases = []
    for _ in range(n):
        glyphs = {}
        for nm in names:
            anchors = [[an, rng.choice([0, 10.5, 100, 99.5, -3.5]), rng.choice([0, 200, 200.5])] for an in rng.sample(anchor_names, rng.randint(0, 3))]
            if rng.random() < 0.2:
                anchors.insert(rng.randint(0, len(anchors)), [None, 1, 1])  # an unnamed anchor (F-C18-a: crashed the writer before b1c4f33)
            glyphs[nm] = {"uni": {"a": 0x61, "b": 0x62, "beh-ar": 0x628}.get(nm), "anchors": anchors, "nocontour": rng.random() < 0.3}
        cases.append({"glyphs": glyphs, "skip": rng.choice([[], ["skipped"], ["skipped", "c"]])})
    return cases


# =====================================================================================================================
# 2. end-to-end observer on compiled tables


def compile_case(case):
    from ufo2ft.featureCompiler import FeatureCompiler
    from ufo2ft.outlineCompiler import OutlineTTFCompiler
    from ufo2ft.preProcessor import TTFPreProcessor

    ufo = _ufo(case)
    skip = set(case.get("skip") or ())
    glyphSet = TTFPreProcessor(ufo, removeOverlaps=False, convertCubics=False, skipExportGlyphs=skip).process()
    tt = OutlineTTFCompiler(ufo, glyphSet=glyphSet).compile()
    extras = {k: set(v) for k, v in (case.get("extra") or {}).items()} or None
    writers = None
    if case.get("mode") == "append":
        import ufo2ft.featureWriters as FW

        writers = [FW.GdefFeatureWriter(mode="append"), FW.CursFeatureWriter(mode="append")]
    elif case.get("only_gdef_curs", True):
        import ufo2ft.featureWriters as FW

        writers = [FW.GdefFeatureWriter, FW.CursFeatureWriter]
    fc = FeatureCompiler(ufo, tt, glyphSet=glyphSet, featureWriters=writers, extraSubstitutions=extras)
    fc.compile()
    return tt


def cursive_records(tt):
    out = {}
    if "GPOS" not in tt:
        return out
    for lookup in tt["GPOS"].table.LookupList.Lookup:
        rtl = bool(lookup.LookupFlag & 1)
        for st in lookup.SubTable:
            if st.LookupType == 9:
                st = st.ExtSubTable
            if st.LookupType != 3:
                continue
            for glyph, rec in zip(st.Coverage.glyphs, st.EntryExitRecord):
                e = rec.EntryAnchor and (rec.EntryAnchor.XCoordinate, rec.EntryAnchor.YCoordinate)
                x = rec.ExitAnchor and (rec.ExitAnchor.XCoordinate, rec.ExitAnchor.YCoordinate)
                out.setdefault(glyph, []).append((rtl, e, x))
    return out


def check_observer(case):
    fails = []
    tt = compile_case(case)
    exported = set(_exported(case))
    cats = case.get("cats") or {}
    user_gcd = case.get("user_gcd")
    gdef = tt["GDEF"].table if "GDEF" in tt else None
    # (G1) glyph classes == categories restricted to exported glyphs; a user-defined GlyphClassDef is left alone
    want = None
    if user_gcd is not None:
        want = dict(user_gcd)
    elif any(v in CLASS_VALUE or v == "unassigned" for v in cats.values()):
        want = {g: CLASS_VALUE[c] for g, c in cats.items() if g in exported and c in CLASS_VALUE}
    if want is not None:
        got = dict(gdef.GlyphClassDef.classDefs) if gdef is not None and gdef.GlyphClassDef is not None else {}
        if got != want:
            fails.append(("glyph-classes-mirror-categories", f"GlyphClassDef {got}, expected {want}"))
    # (G2) ligature carets == increasing distinct rounded caret coordinates of the exported glyphs (unless the user wrote carets)
    if not case.get("user_carets"):
        # coordinates that collide after rounding are stored once in the compiled LigGlyph (the writer lists both, feaLib/otlLib merges them)
        wantc = {g: sorted(set(cs)) for g, cs in expected_carets(case, case.get("offset", 0)).items()}
        gotc = {}
        if gdef is not None and gdef.LigCaretList is not None:
            for g, lg in zip(gdef.LigCaretList.Coverage.glyphs, gdef.LigCaretList.LigGlyph):
                gotc[g] = [cv.Coordinate for cv in lg.CaretValue]
        if gotc != wantc:
            fails.append(("ligature-carets-mirror-anchors", f"LigCaretList {gotc}, expected {wantc}"))
    # (G3) one cursive record per (pair, glyph having at least one of the two anchors) with the rounded coordinates, in a lookup
    #      whose RightToLeft flag is cleared exactly for LTR glyphs (no suffix) / by the explicit suffix
    recs = cursive_records(tt)
    ltr = set(case.get("ltr") or ())
    has_ltr_char = any(case["glyphs"].get(g, {}).get("uni") is not None and g in ltr for g in exported)
    wantr = {}
    for entry, exit_ in expected_pairs(case):
        for g in [n for n in _exported(case)]:
            e, x = _first_anchor(case, g, entry, case.get("offset", 0)), _first_anchor(case, g, exit_, case.get("offset", 0))
            if e is None and x is None:
                continue
            if entry.endswith(".LTR"):
                rtl = False
            elif entry.endswith(".RTL"):
                rtl = True
            elif entry.endswith((".LTR", ".RTL")) is False and has_ltr_char:
                rtl = g not in ltr
            else:
                rtl = True
            wantr.setdefault(g, []).append((rtl, e, x))
    norm = lambda d: {g: sorted(v, key=repr) for g, v in d.items()}  # noqa: E731
    if norm(recs) != norm(wantr):
        fails.append(("cursive-records-mirror-anchors", f"records {norm(recs)}, expected {norm(wantr)}"))
    return fails


def observer_domain(tier):
    A = lambda *xs: [list(x) for x in xs]  # noqa: E731
    base_glyphs = {
        "a": {"uni": 0x61, "anchors": A(("exit", 100, 200))},
        "b": {"uni": 0x62, "anchors": A(("entry", 0, 200), ("exit", 111.5, 200.4))},
        "b.alt": {"uni": None, "anchors": A(("entry", 5, 210), ("exit", 121, 210))},
        "a.swsh": {"uni": None, "anchors": A(("entry", 7, 7))},
        "beh-ar": {"uni": 0x628, "anchors": A(("entry", 300, 0), ("exit", 0, 0))},
        "beh-ar.fina": {"uni": None, "anchors": A(("exit", 10, 0))},
        "orphan": {"uni": None, "anchors": A(("entry", 1, 2))},
        "f_i": {"uni": None, "anchors": A(("caret_1", 250.5, 0), ("caret_2", 250.5, 10), ("caret_3", 100, 0), ("vcaret_1", 0, 333))},
        "acutecomb": {"uni": 0x301, "mark": True, "anchors": A(("_top", 0, 500))},
        "skipped": {"uni": 0x63, "anchors": A(("entry", 9, 9), ("caret_1", 5, 5))},
    }
    gsub = "feature swsh {\n    sub a by a.swsh;\n} swsh;\nfeature fina {\n    sub beh-ar by beh-ar.fina;\n} fina;\n"
    cats = {"a": "base", "b": "base", "f_i": "ligature", "acutecomb": "mark", "skipped": "base", "b.alt": "component", "ghost": "base", "orphan": "bogus", "a.swsh": "unassigned"}
    cases = []
    # rule-only alternates (designspace rules -> extraSubstitutions), GSUB alternates, mixed-direction repertoires
    cases.append({"glyphs": base_glyphs, "cats": cats, "skip": ["skipped"], "fea": gsub, "extra": {"b": ["b.alt"]}, "ltr": ["a", "b", "b.alt", "a.swsh"]})
    cases.append({"glyphs": base_glyphs, "cats": cats, "skip": [], "fea": gsub, "extra": None, "ltr": ["a", "b", "a.swsh", "skipped"]})
    cases.append({"glyphs": base_glyphs, "cats": cats, "skip": ["skipped"], "fea": "", "extra": {"b": ["b.alt"], "a": ["a.swsh"]}, "ltr": ["a", "b", "b.alt", "a.swsh"]})
    rtl_only = {k: v for k, v in base_glyphs.items() if k in ("beh-ar", "beh-ar.fina", "orphan", "f_i")}
    cases.append({"glyphs": rtl_only, "cats": {"f_i": "ligature"}, "skip": [], "fea": "", "ltr": []})
    ltr_only = {k: v for k, v in base_glyphs.items() if k in ("a", "b", "b.alt", "f_i")}
    cases.append({"glyphs": ltr_only, "cats": {"a": "base", "f_i": "ligature"}, "skip": [], "fea": "", "extra": {"b": ["b.alt"]}, "ltr": ["a", "b", "b.alt"]})
    # explicit suffixes decide the flag, whatever the script
    suff = {
        "a": {"uni": 0x61, "anchors": A(("entry.LTR", 1, 1), ("exit.RTL", 2, 2))},
        "b": {"uni": 0x62, "anchors": A(("exit.LTR", 3, 3), ("entry.RTL", 4, 4), ("entry.1", 5, 5))},
        "beh-ar": {"uni": 0x628, "anchors": A(("entry.LTR", 6, 6), ("exit.LTR", 7, 7), ("exit.1", 8, 8), ("entry", 9, 9))},
        "c": {"uni": 0x63, "anchors": A(("exit", 10, 10.5))},
    }
    cases.append({"glyphs": suff, "cats": {"a": "base"}, "skip": [], "fea": "", "ltr": ["a", "b", "c"]})
    # user GDEF definitions are left alone (skip and append mode)
    for mode in ("skip", "append"):
        cases.append({"glyphs": base_glyphs, "cats": cats, "skip": ["skipped"], "mode": mode, "extra": {"b": ["b.alt"]}, "ltr": ["a", "b", "b.alt", "a.swsh"],
                      "fea": gsub + "table GDEF {\n    GlyphClassDef [a], , [acutecomb], ;\n} GDEF;\n", "user_gcd": {"a": 1, "acutecomb": 3}})
        cases.append({"glyphs": base_glyphs, "cats": cats, "skip": ["skipped"], "mode": mode, "ltr": ["a", "b", "a.swsh"],
                      "fea": gsub + "table GDEF {\n    LigatureCaretByPos f_i 77;\n} GDEF;\n", "user_carets": True})
    # F-C18-b: a glyph-set filter moves anchors and outlines: carets and cursive anchors must move with them — also for a glyph WITHOUT contours
    # of its own (components only: `bool(glyph)` is False); F-C18-a: unnamed anchors are ignored and do not crash the cursive writer
    moved = {
        "a": {"uni": 0x61, "anchors": A(("exit", 100, 200), (None, 5, 5))},
        "b": {"uni": 0x62, "anchors": A(("entry", 0, 200), ("exit", 111.5, 200.4), ("entry", 999, 999))},
        "beh-ar": {"uni": 0x628, "nocontour": True, "components": ["a"], "anchors": A(("entry", 300, 0), ("exit", 0, 0))},
        "f_i": {"uni": None, "anchors": A(("caret_1", 250.5, 0), ("caret_1", 60, 0), ("vcaret_1", 0, 333), (None, 1, 1))},
        "l_i": {"uni": None, "nocontour": True, "components": ["a", "b"], "anchors": A(("caret_1", 40, 0))},
    }
    for off in (100, -30.5, 0):
        cases.append({"glyphs": moved, "cats": {"f_i": "ligature", "l_i": "ligature", "a": "base"}, "skip": [], "fea": "", "ltr": ["a", "b"], "offset": off})
    # invalid values only / empty map / categories naming only skipped glyphs
    cases.append({"glyphs": ltr_only, "cats": {"a": "Base", "b": ""}, "skip": [], "fea": "", "ltr": ["a", "b"]})
    cases.append({"glyphs": base_glyphs, "cats": {"skipped": "base", "a": "unassigned"}, "skip": ["skipped"], "fea": "", "ltr": ["a", "b"]})
    if tier != "quick":
        rng = random.Random(1818)
        names = list(base_glyphs)
        for _ in range(60):
            gl = {}
            for n in names:
                d = dict(base_glyphs[n])
                d["anchors"] = [[an, x + rng.choice([0, 0.5, -0.5]), y] for an, x, y in d["anchors"] if rng.random() < 0.8]
                gl[n] = d
            c = {n: rng.choice(["base", "mark", "ligature", "component", "unassigned", "x"]) for n in rng.sample(names, rng.randint(1, len(names)))}
            skip = rng.choice([[], ["skipped"], ["skipped", "orphan"]])
            extra = rng.choice([None, {"b": ["b.alt"]}])
            ltr = ["a", "b", "a.swsh"] + (["b.alt"] if extra else []) + ([] if "skipped" in skip else ["skipped"])
            cases.append({"glyphs": gl, "cats": c, "skip": skip, "fea": gsub, "extra": extra, "ltr": ltr})
    return cases


# =====================================================================================================================


def _run(tier, seed):
    rep = Report("C18")

    def run_part(name, what, bound, cases, fn, func):
        fails = []
        for c in cases:
            try:
                for cl, d in fn(c):
                    fails.append((cl, c, d))
            except Exception as e:  # noqa
                fails.append(("no-exception", c, traceback.format_exc()[-800:]))
        rep.part(name, what, bound, len(cases), fails, func)

    guarded(rep, "gdef-functions", lambda: run_part(
        "gdef-functions", "GdefFeatureWriter._sortedGlyphClass / _getLigatureCarets / _write on real UFOs: classes = category ∩ exported glyphs, sorted, arguments base/mark/ligature/component; "
        "carets = rounded increasing distinct caret_/vcaret_ coordinates; user GDEF statements kept",
        "random UFOs: 6 glyphs x up to 3 anchors x category maps with invalid values / unknown glyphs x skipExportGlyphs x user GDEF blocks x skip/append",
        gdef_function_domain(tier), check_gdef_functions, "vcheck.hooks.c18.check_gdef_functions"))
    guarded(rep, "curs-functions", lambda: run_part(
        "curs-functions", "CursFeatureWriter._getCursiveAnchorPairs / _makeCursiveStatements on real UFOs: pair iff both names occur among exported glyphs (plain and suffixed), sorted; one statement per glyph "
        "with at least one of the two anchors, otRound-ed coordinates, missing side NULL",
        "random UFOs: 5 glyphs x up to 3 anchors from 11 names (one-sided, suffixed, look-alikes) x skipExportGlyphs",
        curs_function_domain(tier), check_curs_functions, "vcheck.hooks.c18.check_curs_functions"))
    guarded(rep, "observer", lambda: run_part(
        "observer", "compiled GDEF.GlyphClassDef, GDEF.LigCaretList and GPOS CursivePos EntryExitRecords + LookupFlag read back and compared with the UFO data",
        "hand-built repertoires: LTR-only, RTL-only, mixed; alternates reachable through GSUB and through designspace-rule substitutions (extraSubstitutions) only; suffixed pairs; "
        "user GlyphClassDef / LigatureCaret statements in skip and append mode; invalid / skipped-glyph categories" + ("" if tier == "quick" else "; plus 60 random variations"),
        observer_domain(tier), check_observer, "vcheck.hooks.c18.check_observer"))
    return rep.result(
        assumptions=[
            "C18: _sortedGlyphClass, _getLigatureCarets, _makeCursiveStatements, getOrderedGlyphSet enter the proofs as opaque functions; their own clauses are checked on the real functions by bounded enumeration only",
        ]
    )


@hook("C18")
def c18_hook(tier, seed):
    return _run(tier, seed)


def replay(path):
    with open(path) as f:
        pl = json.load(f)
    fn = {"gdef-functions": check_gdef_functions, "curs-functions": check_curs_functions, "observer": check_observer}.get(pl["part"])
    if fn is None:
        print("no replay function for", pl["part"])
        return 0
    fails = fn(pl["case"])
    print(json.dumps({"case": pl["case"], "failures": fails}, indent=1, default=str)[:4000])
    return 1 if fails else 0


if __name__ == "__main__":
    sys.path.insert(0, ROOT)
    if os.environ.get("VERIF_REPO"):
        sys.path.insert(0, os.path.join(os.environ["VERIF_REPO"], "Lib"))
    if len(sys.argv) >= 3 and sys.argv[1] == "replay":
        sys.exit(replay(sys.argv[2]))
