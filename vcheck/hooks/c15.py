"""C15 — bounded observers: the independent recursive renderer (c15_render.py) applied to the glyph set before and after each
filter, on random component graphs (depth <= 4, shared bases, dyadic affine maps incl. shear / mirror / 90-degree rotation), for
both UFO libraries.  Also: bounded conformance of the TRUSTED Transform model (the formulas the lemmas are about) against the
installed fontTools.  Everything here is reported as `bounded`,
except the syntactic obligation `C15.frame.anchor-names` (no store to an attribute `.name` in propagateAnchors.py / transformations.py: the
contracts model anchor names as immutable).
"""
from __future__ import annotations

import math
import random
import traceback

from vcheck.extra import hook

from . import c15_render as R
from .c01 import write_replay


def _ufo(desc, lib, info=None):
    from contracts import rtlib

    d = {"glyphs": {n: {"width": g["width"], "height": g.get("height", 0), "contours": g["contours"], "components": g["components"], "anchors": g.get("anchors", [])} for n, g in desc.items()},
         "info": {"unitsPerEm": 1000, "ascender": 800, "descender": -200, "xHeight": 500, "capHeight": 700, **(info or {})}}
    return rtlib.build_ufo(d, lib)


def _glyphset(ufo):
    from ufo2ft.util import _GlyphSet

    return _GlyphSet.from_layer(ufo, copy=True)


def _close(a, b, tol):
    return R.same_shape(a, b, tol=tol) if tol else R.same_shape(a, b)


# ---- conformance of the trusted Transform model ---------------------------------------------------------------------------


def transform_conformance(rng, n):
    from fontTools.misc.transform import Transform

    for _ in range(n):
        m, t = R.rand_matrix(rng), R.rand_matrix(rng)
        p = (rng.randrange(-500, 500) / 2, rng.randrange(-500, 500) / 4)
        M, Tt = Transform(*m), Transform(*t)
        if tuple(M.transform(Tt)) != R.compose(tuple(m), tuple(t)):
            return f"Transform.transform: {m}.transform({t}) = {tuple(M.transform(Tt))}, model {R.compose(tuple(m), tuple(t))}"
        if M.transformPoint(p) != R.apply(tuple(m), p):
            return f"transformPoint {m} {p}"
        v = M.transformVector(p)
        if v != (m[0] * p[0] + m[2] * p[1], m[1] * p[0] + m[3] * p[1]):
            return f"transformVector {m} {p}"
        a, b = rng.randrange(-50, 50) / 2, rng.randrange(-50, 50) / 2
        if tuple(M.translate(a, b)) != R.compose(tuple(m), (1, 0, 0, 1, a, b)) or tuple(M.scale(a, b)) != R.compose(tuple(m), (a, 0, 0, b, 0, 0)):
            return f"translate/scale {m} {a} {b}"
        k = math.tan(0.25)
        if any(abs(x - y) > 1e-12 for x, y in zip(M.skew(0.25), R.compose(tuple(m), (1, 0, k, 1, 0, 0)))):
            return f"skew {m}"
        inv = M.inverse()
        q = inv.transformPoint(M.transformPoint(p))
        if abs(q[0] - p[0]) > 1e-7 or abs(q[1] - p[1]) > 1e-7:
            return f"inverse {m}"
        det = R.det(m)
        exp = (m[3] / det, -m[1] / det, -m[2] / det, m[0] / det)
        if any(abs(x - y) > 1e-12 for x, y in zip(inv[:4], exp)):
            return f"inverse terms {m}"
    return None


# ---- filter observers -----------------------------------------------------------------------------------------------------


def observe_decompose(case):
    from ufo2ft.filters.decomposeComponents import DecomposeComponentsFilter

    desc = case["glyphs"]
    ufo = _ufo(desc, case["lib"])
    gs = _glyphset(ufo)
    DecomposeComponentsFilter()(ufo, gs)
    after = R.glyphset_to_desc(gs)
    bad = []
    for n in desc:
        if after[n]["components"]:
            bad.append({"glyph": n, "what": "DecomposeComponentsFilter left components"})
        elif not R.same_shape(R.resolve(n, desc), R.resolve(n, after)):
            bad.append({"glyph": n, "what": "DecomposeComponentsFilter: contours != resolved source (order, direction of mirrored components, transforms)",
                        "expected": R.resolve(n, desc), "got": R.resolve(n, after)})
    return bad


def observe_decompose_transformed(case):
    from ufo2ft.filters.decomposeTransformedComponents import DecomposeTransformedComponentsFilter

    desc = case["glyphs"]
    ufo = _ufo(desc, case["lib"])
    gs = _glyphset(ufo)
    DecomposeTransformedComponentsFilter()(ufo, gs)
    after = R.glyphset_to_desc(gs)
    bad = []
    for n, g in desc.items():
        transformed = any(tuple(tr[:4]) != (1, 0, 0, 1) for _, tr in g["components"])
        if transformed and after[n]["components"]:
            bad.append({"glyph": n, "what": "glyph with a transformed component was not decomposed"})
        if not transformed and [c[0] for c in after[n]["components"]] != [c[0] for c in g["components"]]:
            bad.append({"glyph": n, "what": "glyph without transformed components was changed"})
        if not R.same_shape(R.resolve(n, desc), R.resolve(n, after)):
            bad.append({"glyph": n, "what": "DecomposeTransformedComponentsFilter changed the rendering", "expected": R.resolve(n, desc), "got": R.resolve(n, after)})
    return bad


def observe_flatten(case):
    from ufo2ft.filters.flattenComponents import FlattenComponentsFilter

    desc = case["glyphs"]
    ufo = _ufo(desc, case["lib"])
    gs = _glyphset(ufo)
    FlattenComponentsFilter()(ufo, gs)
    after = R.glyphset_to_desc(gs)
    bad = []
    for n, g in desc.items():
        if not R.same_shape(R.resolve(n, desc), R.resolve(n, after)):
            bad.append({"glyph": n, "what": "FlattenComponentsFilter changed the rendering", "expected": R.resolve(n, desc), "got": R.resolve(n, after)})
        if not after[n]["contours"]:
            for b, _ in after[n]["components"]:
                if after[b]["components"] and not after[b]["contours"]:
                    bad.append({"glyph": n, "what": f"still nested after flattening: {n} -> {b} -> ..."})
    return bad


def observe_skip_export(case):
    from ufo2ft.filters.skipExportGlyphs import SkipExportGlyphsFilter

    desc = case["glyphs"]
    skip = case["skip"]
    ufo = _ufo(desc, case["lib"])
    gs = _glyphset(ufo)
    SkipExportGlyphsFilter(skip)(ufo, gs)
    after = R.glyphset_to_desc(gs)
    bad = []
    for n in desc:
        if n in skip:
            if n in after:
                bad.append({"glyph": n, "what": "non-export glyph still in the glyph set"})
            continue
        for b, _ in after[n]["components"]:
            if b in skip:
                bad.append({"glyph": n, "what": f"reference to non-export glyph {b} left"})
        # same contours (the ORDER may differ: finding F-C01-1, see notes/C01.md)
        key = R.canon
        if sorted(map(key, R.resolve(n, desc))) != sorted(map(key, R.resolve(n, after, missing="error"))):
            bad.append({"glyph": n, "what": "SkipExportGlyphsFilter changed the rendering (set of resolved contours, direction included)",
                        "expected": R.resolve(n, desc), "got": R.resolve(n, after)})
    return bad


def _filter_matrix(opts, origin_height):
    """the requested matrix, from the DOCUMENTED meaning of the options (independent of fontTools' Transform)"""
    sx, sy = opts.get("ScaleX", 100) / 100, opts.get("ScaleY", 100) / 100
    k = math.tan(math.radians(opts["Slant"])) if opts.get("Slant", 0) else 0
    h = origin_height if (sx != 1 or sy != 1 or k) else 0
    dx, dy = opts.get("OffsetX", 0), opts.get("OffsetY", 0)
    # (x, y) -> (sx * (x + k * (y - h)) + dx, sy * (y - h) + h + dy)
    return (sx, 0, sx * k, sy, dx - sx * k * h, dy + h - sy * h)


def observe_transformations(case):
    from ufo2ft.filters.transformations import TransformationsFilter

    desc = case["glyphs"]
    opts = case["opts"]
    ufo = _ufo(desc, case["lib"], info={"capHeight": 701, "xHeight": 499})
    gs = _glyphset(ufo)
    kw = dict(opts)
    if case.get("include"):
        kw["include"] = list(case["include"])
    TransformationsFilter(**kw)(ufo, gs)
    after = R.glyphset_to_desc(gs)
    origin = {0: 701, 1: R.ot_round(701 / 2), 2: 499, 3: R.ot_round(499 / 2), 4: 0}[opts.get("Origin", 4)]
    M = _filter_matrix(opts, origin)
    included = set(case["include"]) if case.get("include") else set(desc)
    tol = 1e-6 * (1 + max(abs(v) for v in M))
    bad = []
    def reach(x, seen=None):
        seen = set() if seen is None else seen
        for b, _ in desc[x]["components"]:
            if b in desc and b not in seen:
                seen.add(b)
                reach(b, seen)
        return seen

    for n in sorted(included):
        g = desc[n]
        if not (g["contours"] or g["components"] or g["anchors"]):
            continue
        # FINDING F-C15-1 (notes/C15.md): an included composite that reaches an included glyph THROUGH a non-included composite gets that
        # branch transformed twice (the non-included composite is not compensated).  Such glyphs are skipped until the lead decides.
        if any(x not in included and (reach(x) & included) for x in reach(n)):
            continue
        # included bases are transformed first, so what an included composite renders is M(what it rendered before) provided every base it reaches
        # is included as well, or — for references to NON-included bases — M∘t applied to the untouched base; both are M(resolve_before)
        exp = [[(*R.apply(M, (x, y)), on) for x, y, on in c] for c in R.resolve(n, desc)]
        got = R.resolve(n, after)
        if R.det(M) < 0:
            got = [list(reversed(c)) for c in got]  # a mirroring REQUEST does not reverse the contours it maps; composed maps of components then count as mirrored
        if not R.same_shape(exp, got, tol=tol * 1000):
            bad.append({"glyph": n, "what": "TransformationsFilter: resolved outline != M(resolved outline before)", "matrix": M, "expected": exp, "got": got})
        ea = [[a[0], *R.apply(M, (a[1], a[2]))] for a in g["anchors"]]
        ga = after[n]["anchors"]
        if [a[0] for a in ea] != [a[0] for a in ga] or any(abs(a[1] - b[1]) > tol * 1000 or abs(a[2] - b[2]) > tol * 1000 for a, b in zip(ea, ga)):
            bad.append({"glyph": n, "what": "TransformationsFilter: anchors != M(anchor) (transformPoint)", "expected": ea, "got": ga})
        ew = (M[0] * g["width"] + M[2] * g["height"], M[1] * g["width"] + M[3] * g["height"])
        if abs(after[n]["width"] - ew[0]) > tol * 1000 or abs(after[n]["height"] - ew[1]) > tol * 1000:
            bad.append({"glyph": n, "what": "TransformationsFilter: (width, height) != linear part of M applied to it (transformVector)", "expected": ew, "got": (after[n]["width"], after[n]["height"])})
    for n in set(desc) - included:
        if [[(float(x), float(y), t) for x, y, t in c] for c in after[n]["contours"]] != [[(float(x), float(y), t) for x, y, t in c] for c in desc[n]["contours"]]:
            bad.append({"glyph": n, "what": "TransformationsFilter touched the contours of a glyph that is not included"})
    return bad


def observe_propagate(case):
    from ufo2ft.filters.propagateAnchors import PropagateAnchorsFilter

    desc = case["glyphs"]
    ufo = _ufo(desc, case["lib"])
    gs = _glyphset(ufo)
    PropagateAnchorsFilter()(ufo, gs)
    after = R.glyphset_to_desc(gs)
    bad = []
    for n, g in desc.items():
        old, new = g["anchors"], after[n]["anchors"]
        # 1. an anchor the glyph already has is never overridden, moved or dropped
        if [list(a) for a in new[: len(old)]] != [list(a) for a in old]:
            bad.append({"glyph": n, "what": "existing anchors changed by propagation", "expected": old, "got": new})
            continue
        added = new[len(old):]
        if added and not g["components"]:
            bad.append({"glyph": n, "what": "anchors added to a glyph without components", "got": added})
        # 2. every added anchor lies where SOME component carries an anchor of its (propagated) base, under the component's FULL affine map
        for an, x, y in added:
            ok = False
            for b, tr in g["components"]:
                if b not in after:
                    continue
                for bn, bx, by in after[b]["anchors"]:
                    if (an == bn or (an.startswith(bn + "_") and an[len(bn) + 1:].isdigit())):
                        px, py = R.apply(tuple(tr), (bx, by))
                        if abs(px - x) < 1e-9 and abs(py - y) < 1e-9:
                            ok = True
            if not ok:
                bad.append({"glyph": n, "what": f"added anchor {an} at ({x}, {y}) is not the image of a base anchor under its component's transform", "components": g["components"]})
            if any(a[0] == an or an.startswith(a[0]) and False for a in old):
                bad.append({"glyph": n, "what": f"anchor {an} added although the glyph already had it"})
            if any(an.split("_")[0] and a[0].startswith(an.split("_")[0]) and an.split("_")[0] == an for a in old):
                bad.append({"glyph": n, "what": f"anchor {an} added although the glyph already has an anchor starting with that name"})
        # 3. completeness in the unambiguous case: exactly one component, base without mark anchors, composite without anchors
        if len(g["components"]) == 1 and not old and g["components"][0][0] in after:
            b, tr = g["components"][0]
            banch = after[b]["anchors"]
            if banch and not any(a[0].startswith("_") for a in banch):
                want = {}
                for bn, bx, by in banch:
                    want.setdefault(bn, R.apply(tuple(tr), (bx, by)))
                got = {a[0]: (a[1], a[2]) for a in added}
                if set(want) != set(got) or any(abs(want[k][0] - got[k][0]) > 1e-9 or abs(want[k][1] - got[k][1]) > 1e-9 for k in want):
                    bad.append({"glyph": n, "what": "single-component composite: propagated anchors != base anchors under the component's transform", "expected": want, "got": got})
    # 4. idempotence: a second application (fresh filter object) adds nothing
    mod2 = PropagateAnchorsFilter()(ufo, gs)
    again = R.glyphset_to_desc(gs)
    for n in desc:
        if again[n]["anchors"] != after[n]["anchors"]:
            bad.append({"glyph": n, "what": "second application of PropagateAnchorsFilter changed the anchors", "expected": after[n]["anchors"], "got": again[n]["anchors"]})
    if mod2:
        bad.append({"glyph": sorted(mod2)[0], "what": f"second application reports modified glyphs {sorted(mod2)}"})
    return bad


OBSERVERS = {"decompose": observe_decompose, "decomposeTransformed": observe_decompose_transformed, "flatten": observe_flatten,
             "skipExport": observe_skip_export, "transformations": observe_transformations, "propagateAnchors": observe_propagate}


def gen_case(rng, k):
    which = list(OBSERVERS)[k % len(OBSERVERS)]
    lib = ["ufoLib2", "defcon"][(k // len(OBSERVERS)) % 2]
    desc = R.rand_graph(rng, n_base=rng.randint(1, 3), n_comp=rng.randint(1, 5), depth=4, curves=rng.choice([None, "cubic"]), mixed=True, anchors=which in ("propagateAnchors", "transformations"))
    case = {"which": which, "lib": lib, "glyphs": desc}
    if which == "decomposeTransformed":
        for g in desc.values():
            for c in g["components"]:
                if rng.random() < 0.5:
                    c[1][:4] = [1, 0, 0, 1]
    if which == "skipExport":
        case["skip"] = rng.sample(sorted(desc), rng.randint(1, 2))
    if which == "transformations":
        o = {}
        r = rng.random()
        if r < 0.6:
            o["OffsetX"], o["OffsetY"] = rng.choice([0, 10, -30.5]), rng.choice([20, 7.25, 0])
        if rng.random() < 0.6:
            o["ScaleX"], o["ScaleY"] = rng.choice([100, 50, 200, 25]), rng.choice([100, 50, 125])
        if rng.random() < 0.4:
            o["Slant"] = rng.choice([10, -12, 20])
        if not o:
            o["OffsetX"] = 12
        o["Origin"] = rng.randrange(5)
        case["opts"] = o
        if rng.random() < 0.5:
            case["include"] = rng.sample(sorted(desc), rng.randint(1, len(desc)))
    if which == "propagateAnchors":
        # plain names only (no ligature/mark glyph-name conventions): b*, c*
        pass
    return case


def scan_anchor_names():
    """C15.frame.anchor-names (syntactic): contracts/c15.py models an anchor's NAME as immutable (a function of the anchor object).  That is
    what the code under contract does: neither filters/propagateAnchors.py nor filters/transformations.py stores to an attribute `.name`
    (nor calls setattr / __setattr__).  Two obligations, one per file."""
    import ast
    import os

    from .c01 import REPO

    fails = []
    files = ("propagateAnchors.py", "transformations.py")
    for fn in files:
        path = os.path.join(REPO, "Lib", "ufo2ft", "filters", fn)
        tree = ast.parse(open(path, encoding="utf-8").read())
        for n in ast.walk(tree):
            if isinstance(n, ast.Attribute) and isinstance(n.ctx, (ast.Store, ast.Del)) and n.attr == "name":
                fails.append((f"Lib/ufo2ft/filters/{fn}:{n.lineno}", f"stores to {ast.unparse(n)} (anchor names are modelled as immutable)"))
            if isinstance(n, ast.Call) and ((isinstance(n.func, ast.Name) and n.func.id in ("setattr", "delattr")) or (isinstance(n.func, ast.Attribute) and n.func.attr in ("__setattr__", "__delattr__"))):
                fails.append((f"Lib/ufo2ft/filters/{fn}:{n.lineno}", f"{ast.unparse(n.func)}(...) (anchor names are modelled as immutable)"))
    return len(files), fails


@hook("C15")
def c15_bounded(tier, seed):
    res = {"obligations": 0, "discharged": 0, "violations": [], "checker_errors": [], "evaluations": 0, "distinct": 0, "bounded": [], "trusted": []}
    rng = random.Random(seed * 15485863 + 3)
    try:
        obs, fails = scan_anchor_names()
        res["obligations"] += obs
        res["discharged"] += obs - min(obs, len(fails))
        for label, detail in fails:
            p = write_replay("C15", f"frame.anchor-names.{label}", {"property": "C15", "obligation": "C15.frame.anchor-names", "kind": "syntactic", "detail": detail, "case": None})
            res["violations"].append(f"VIOLATION property=C15 replay={p} obligation=C15.frame.anchor-names ({detail})")
    except Exception:
        res["checker_errors"].append("C15 syntactic scan anchor-names crashed: " + traceback.format_exc()[-600:])
    try:
        why = transform_conformance(rng, 200 if tier == "quick" else 20000)
        res["evaluations"] += 200 if tier == "quick" else 20000
        if why:
            res["checker_errors"].append("trusted Transform model does not conform to the installed fontTools: " + why)
    except Exception:
        res["checker_errors"].append("C15 Transform conformance crashed: " + traceback.format_exc()[-600:])
    n = 96 if tier == "quick" else 12000
    for k in range(n):
        case = gen_case(rng, k)
        try:
            bad = OBSERVERS[case["which"]](case)
        except Exception:
            res["checker_errors"].append(f"C15 observer {case['which']} crashed on a generated case: " + traceback.format_exc()[-800:])
            break
        res["evaluations"] += len(case["glyphs"])
        res["distinct"] += 1
        if bad:
            p = write_replay("C15", f"observer.{case['which']}.{k}", {"property": "C15", "obligation": f"C15.observer.{case['which']}", "hook": "c15", "case": case, "observed": bad[:3]})
            res["violations"].append(f"VIOLATION property=C15 replay={p} obligation=C15.observer.{case['which']} ({bad[0]['what']}, glyph {bad[0]['glyph']})")
            break
    res["bounded"].append({
        "what": "independent recursive renderer before/after DecomposeComponentsFilter, DecomposeTransformedComponentsFilter, FlattenComponentsFilter, SkipExportGlyphsFilter, "
                "TransformationsFilter (outline, anchors, advance; include subsets; all five origins) and PropagateAnchorsFilter (never overrides, image under the full affine map, idempotent)",
        "bound": f"{n} random glyph sets (<= 8 glyphs, component depth <= 4, shared bases, dyadic affine maps incl. shear / mirror / rotation by 90 degrees, mixed glyphs) x {{ufoLib2, defcon}}",
        "stands_in_for": "_propagate_glyph_anchors (out of the engine's reach), BaseFilter.__call__ ordering, the TRUSTED pens; exact composition is proved in the contracts",
    })
    res["bounded"].append({"what": "conformance of the trusted Transform model (transform / translate / scale / skew / inverse / transformPoint / transformVector) with the installed fontTools",
                           "bound": "200 (quick) / 20000 (thorough) random matrices"})
    res["trusted"] += ["fontTools.misc.transform.Transform (bounded conformance: C15 hook)", "fontTools.pens.transformPen.TransformPointPen (bounded: C15 observer)",
                       "fontTools.pens.recordingPen.RecordingPointPen (bounded: C15 observer)"]
    return res


def replay(path):
    """`.venv/bin/python -m vcheck.hooks.c15 <replay.json>` — re-run one observer case"""
    import json

    with open(path) as f:
        pl = json.load(f)
    case = pl.get("case")
    print(json.dumps({k: v for k, v in pl.items() if k != "case"}, indent=1, default=str)[:2000])
    if case is None:
        return 0
    bad = OBSERVERS[case["which"]](case)
    print("replay result:", bad[:2] if bad else "agrees with the reference semantics")
    return 1 if bad else 0


if __name__ == "__main__":
    import sys

    sys.exit(replay(sys.argv[1]))
