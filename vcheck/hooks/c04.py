"""C04 — parts that are not function contracts.

(1) toInt (nested in OutlineOTFCompiler.makeGlyphsBoundingBoxes) has proved contracts (contracts/c04.py, variants #floor / #ceil) but,
    being a nested function, no run-time harness.  Here: (a) SYNTACTIC obligations on its three call-site facts (minima are pushed down
    with math.floor, maxima up with math.ceil, `tolerance` is self.roundTolerance) and (b) a BOUNDED conformance run of the real nested
    function (compiled from the current source) against the three clauses of the contract on a grid of values x tolerances.
(2) BOUNDED end-to-end observer for the first sentence of the property (fontTools' side, trusted in the contracts): a compiled font
    saves, reloads and re-saves to identical bytes, and the reloaded tables decode to the values the contracts speak about
    (hmtx/vmtx advances and bearings, hhea/vhea extrema and long-metric count, head box, maxp.numGlyphs, post names, OS/2 indices).
"""
from __future__ import annotations

import ast
import io
import json
import math
import os
import random
import traceback

from vcheck.extra import hook

ROOT = os.path.dirname(os.path.dirname(os.path.dirname(os.path.abspath(__file__))))
OUT = os.environ.get("VERIF_OUT", os.path.join(ROOT, "out"))
PID = "C04"


def _replay(name, payload):
    d = os.path.join(OUT, PID, "replay")
    os.makedirs(d, exist_ok=True)
    p = os.path.join(d, "".join(ch if ch.isalnum() or ch in "._-@#" else "_" for ch in name) + ".json")
    with open(p, "w") as f:
        json.dump(payload, f, indent=1, default=str)
    return p


# ---- (1) toInt -----------------------------------------------------------------------------------------------------------
def _mgbb_def():
    from pyvc.extract import load_function

    return load_function("ufo2ft.outlineCompiler:OutlineOTFCompiler.makeGlyphsBoundingBoxes")


def _toint_syntactic(res):
    """three facts about how makeGlyphsBoundingBoxes uses toInt, read off the AST of the current source"""
    src = _mgbb_def()
    fdef = src.fdef
    facts = {"tolerance-is-roundTolerance": False, "minima-floor": False, "maxima-ceil": False, "no-other-toInt-call": True}
    calls = []
    for n in ast.walk(fdef):
        if isinstance(n, ast.Assign) and len(n.targets) == 1 and isinstance(n.targets[0], ast.Name) and n.targets[0].id == "tolerance":
            facts["tolerance-is-roundTolerance"] = ast.unparse(n.value) == "self.roundTolerance"
        if isinstance(n, ast.For) and isinstance(n.target, ast.Name) and n.target.id == "value":
            body = [ast.unparse(s) for s in n.body]
            it = ast.unparse(n.iter)
            if it == "bounds[:2]":
                facts["minima-floor"] = body == ["rounded.append(toInt(value, math.floor))"]
            elif it == "bounds[2:]":
                facts["maxima-ceil"] = body == ["rounded.append(toInt(value, math.ceil))"]
        if isinstance(n, ast.Call) and isinstance(n.func, ast.Name) and n.func.id == "toInt":
            calls.append(ast.unparse(n))
    facts["no-other-toInt-call"] = sorted(calls) == ["toInt(value, math.ceil)", "toInt(value, math.floor)"]
    # `tolerance` is assigned exactly once (the nested function reads the enclosing local)
    n_assign = sum(1 for n in ast.walk(fdef) if isinstance(n, ast.Name) and n.id == "tolerance" and isinstance(n.ctx, ast.Store))
    facts["tolerance-assigned-once"] = n_assign == 1
    for k, ok in facts.items():
        res["obligations"] += 1
        if ok:
            res["discharged"] += 1
        else:
            p = _replay(f"C04.toInt.callsite.{k}", {"property": PID, "obligation": f"C04.toInt.callsite.{k}", "case": None, "clause": k,
                                                    "solver_output": f"syntactic fact does not hold in {src.file}:{src.lines}"})
            res["violations"].append(f"VIOLATION property={PID} replay={p} obligation=C04.toInt.callsite.{k} no-failing-input-found")


def _real_toint(tolerance):
    """the real nested function, compiled from the current source with `tolerance` bound"""
    from fontTools.misc.roundTools import otRound

    src = _mgbb_def()
    nested = [n for n in ast.walk(src.fdef) if isinstance(n, ast.FunctionDef) and n.name == "toInt"]
    mod = ast.Module(body=[nested[0]], type_ignores=[])
    ast.fix_missing_locations(mod)
    ns = {"otRound": otRound, "tolerance": tolerance, "math": math}
    exec(compile(mod, src.file, "exec"), ns)
    return ns["toInt"]


def _toint_conformance(res, tier, seed):
    from fontTools.misc.roundTools import otRound

    rng = random.Random(seed)
    tols = [0, 0.1, 0.25, 0.49, 0.5, 0.75, 1.0]
    vals = [k + f for k in (-3, -1, 0, 1, 7) for f in (0, 0.1, 0.25, 0.49, 0.5, 0.51, 0.75, 0.9)]
    vals += [rng.uniform(-2000, 2000) for _ in range(50 if tier == "quick" else 2000)]
    n = 0
    for tol in tols:
        fn = _real_toint(tol)
        for v in vals:
            for nm, cb in (("floor", math.floor), ("ceil", math.ceil)):
                n += 1
                r = fn(v, cb)
                close = tol >= 0.5 or abs(otRound(v) - v) <= tol
                ok = isinstance(r, int)
                ok = ok and (r == otRound(v) if close else ((r <= v < r + 1) if nm == "floor" else (r >= v > r - 1)))
                if 0 <= tol < 0.5:
                    ok = ok and ((r <= v + tol) if nm == "floor" else (r >= v - tol))
                if not ok:
                    p = _replay(f"C04.toInt.conformance.{nm}", {"property": PID, "obligation": f"C04.toInt.conformance.{nm}", "hook": "c04", "case": {"value": v, "tolerance": tol, "callback": nm}, "observed": r})
                    res["violations"].append(f"VIOLATION property={PID} replay={p} obligation=C04.toInt.conformance.{nm} (value={v}, tolerance={tol} -> {r})")
                    return n
    res["bounded"].append({"what": "real nested toInt vs the clauses of its contracts (rounded-when-close / outward-otherwise / never-inside-by-more-than-tolerance)",
                           "bound": f"{len(vals)} values x {len(tols)} tolerances x floor/ceil"})
    return n


# ---- (2) save / reload / re-save and decoded derived fields ---------------------------------------------------------------------
def _font_cases(rng, n):
    from contracts import rtlib

    out = []
    for k in range(n):
        vertical = k % 3 == 0
        g = rtlib.rand_glyphs(rng, n=rng.randint(0, 5), vertical=vertical)
        pool = [0x20, 0x41, 0x42, 0x1F600, 0x9089]
        rng.shuffle(pool)
        for v in g.values():
            if pool and rng.random() < 0.6:
                v["unicodes"] = [pool.pop()]
        if k % 5 == 0:
            for v in g.values():
                v["width"] = 500  # all advances equal
        d = {"glyphs": g, "flavor": "ttf" if k % 2 else "otf", "post": [2.0, 3.0][(k // 2) % 2]}
        if vertical:
            d["info"] = {"openTypeVheaVertTypoAscender": 500, "openTypeVheaVertTypoDescender": -500, "openTypeVheaVertTypoLineGap": 0}
        out.append(d)
    return out


def _compile(d):
    from contracts import rtlib

    from ufo2ft import compileOTF, compileTTF

    ufo = rtlib.build_ufo(d)
    if d["flavor"] == "ttf":
        return compileTTF(ufo), ufo
    return compileOTF(ufo, optimizeCFF=0), ufo


def _observe(d):
    """-> None or a description of the first disagreement"""
    from fontTools.misc.roundTools import otRound
    from fontTools.ttLib import TTFont
    from fontTools.ttLib.standardGlyphOrder import standardGlyphOrder

    font, ufo = _compile(d)
    # head.modified is "now" at every save unless told otherwise: two saves that straddle a second boundary would differ for a
    # reason that has nothing to do with the property
    font.recalcTimestamp = False
    b1 = io.BytesIO()
    font.save(b1)
    f2 = TTFont(io.BytesIO(b1.getvalue()), recalcTimestamp=False)
    b2 = io.BytesIO()
    f2.save(b2)
    if b1.getvalue() != b2.getvalue():
        return "save -> reload -> save gives different bytes"
    f3 = TTFont(io.BytesIO(b2.getvalue()))
    order = f3.getGlyphOrder()
    if f3["maxp"].numGlyphs != len(order):
        return "maxp.numGlyphs != number of glyphs"
    hm = f3["hmtx"].metrics
    advs = [hm[g][0] for g in order]
    for g in order:
        src = ufo[g] if g in ufo else None
        if src is not None and hm[g][0] != otRound(src.width):
            return f"hmtx advance of {g}: {hm[g][0]} != otRound({src.width})"
    hh = f3["hhea"]
    if hh.advanceWidthMax != (max(advs) if advs else 0):
        return "hhea.advanceWidthMax"
    k = hh.numberOfHMetrics
    if advs and not (1 <= k <= len(advs) and all(a == advs[-1] for a in advs[k - 1:]) and (k == 1 or advs[k - 2] != advs[-1])):
        return f"hhea.numberOfHMetrics {k} is not the smallest count for {advs}"
    # glyph boxes as stored (glyf) / recomputed from the charstrings (CFF)
    boxes = {}
    if "glyf" in f3:
        for g in order:
            gl = f3["glyf"][g]
            boxes[g] = None if gl.numberOfContours == 0 else (gl.xMin, gl.yMin, gl.xMax, gl.yMax)
    else:
        cs = f3["CFF "].cff.topDictIndex[0].CharStrings
        for g in order:
            b = cs[g].calcBounds(cs)
            boxes[g] = None if b is None else tuple(otRound(x) for x in b)
    for g in order:
        want = boxes[g][0] if boxes[g] else 0
        if hm[g][1] != want:
            return f"hmtx lsb of {g}: {hm[g][1]} != xMin {want}"
    have = [b for b in boxes.values() if b]
    head = f3["head"]
    want = (min(b[0] for b in have), min(b[1] for b in have), max(b[2] for b in have), max(b[3] for b in have)) if have else (0, 0, 0, 0)
    if (head.xMin, head.yMin, head.xMax, head.yMax) != want:
        return f"head box {(head.xMin, head.yMin, head.xMax, head.yMax)} != union of glyph boxes {want}"
    boxed = [g for g in order if boxes[g]]
    if hh.minLeftSideBearing != (min(hm[g][1] for g in boxed) if boxed else 0):
        return "hhea.minLeftSideBearing"
    if hh.xMaxExtent != (max(hm[g][1] + boxes[g][2] - boxes[g][0] for g in boxed) if boxed else 0):
        return "hhea.xMaxExtent"
    if hh.minRightSideBearing != (min(hm[g][0] - hm[g][1] - (boxes[g][2] - boxes[g][0]) for g in boxed) if boxed else 0):
        return "hhea.minRightSideBearing"
    cps = sorted(f3.getBestCmap() or {})
    os2 = f3["OS/2"]
    if cps and (os2.usFirstCharIndex != min(min(cps), 0xFFFF) or os2.usLastCharIndex != min(max(cps), 0xFFFF)):
        return f"OS/2 first/last char index {os2.usFirstCharIndex}/{os2.usLastCharIndex} for code points {cps}"
    post = f3["post"]
    if post.formatType == 2.0 and [g for g in order if g not in standardGlyphOrder] != list(post.extraNames):
        return "post.extraNames != non-standard names of the glyph order, in order"
    if "vmtx" in f3:
        vm = f3["vmtx"].metrics
        vh = f3["vhea"]
        vadv = [vm[g][0] for g in order]
        if vh.advanceHeightMax != (max(vadv) if vadv else 0):
            return "vhea.advanceHeightMax"
        kv = vh.numberOfVMetrics
        if vadv and not (1 <= kv <= len(vadv) and all(a == vadv[-1] for a in vadv[kv - 1:]) and (kv == 1 or vadv[kv - 2] != vadv[-1])):
            return f"vhea.numberOfVMetrics {kv} is not the smallest count for {vadv}"
    return None


@hook(PID)
def c04_hook(tier, seed):
    res = {"obligations": 0, "discharged": 0, "bounded": [], "violations": [], "checker_errors": [], "evaluations": 0, "distinct": 0,
           "trusted": ["fontTools sfnt writer/reader (save, reload): bounded observer only (vcheck/hooks/c04.py)"]}
    try:
        _toint_syntactic(res)
        res["evaluations"] += _toint_conformance(res, tier, seed)
    except Exception:  # noqa: BLE001
        res["checker_errors"].append("C04 toInt hook crashed: " + traceback.format_exc()[-600:])
    try:
        rng = random.Random(seed)
        n = 12 if tier == "quick" else 150
        seen = set()
        for d in _font_cases(rng, n):
            res["evaluations"] += 1
            seen.add(json.dumps(d, sort_keys=True))
            why = _observe(d)
            if why:
                p = _replay("C04.observer.roundtrip", {"property": PID, "obligation": "C04.observer.roundtrip", "hook": "c04", "case": d, "observed": why})
                res["violations"].append(f"VIOLATION property={PID} replay={p} obligation=C04.observer.roundtrip ({why})")
                break
        res["distinct"] += len(seen)
        res["bounded"].append({"what": "compiled font: save -> reload -> save byte-identical; decoded hmtx/vmtx/hhea/vhea/head/maxp/post/OS2 agree with the glyph data and the cmap",
                               "bound": f"{n} random small UFOs (0-5 glyphs, TTF/OTF, vertical metrics on/off, equal advances, non-BMP code points)"})
    except Exception:  # noqa: BLE001
        res["checker_errors"].append("C04 round-trip observer crashed: " + traceback.format_exc()[-800:])
    return res
