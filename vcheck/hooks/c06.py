"""C06 — bounded parts of the check (everything here is reported as *bounded*, never as proved):

* parseAnchorName (regex / str.rstrip code, outside the SMT subset): exhaustive enumeration of every name over a small
  alphabet through the REAL function against the contract summary used by NamedAnchor.__init__ (contracts/c06.py);
* colorGraph (defaultdict / sorted(dict)): exhaustive enumeration of all small graphs: proper colouring, partition;
* _groupAttachments (closures, sorted(items)): every attachment in exactly one lookup, on generated fonts;
* the end-to-end observer: small UFOs -> real MarkFeatureWriter -> feaLib -> GPOS, evaluated by an independent
  interpreter of MarkBasePos / MarkLigPos / MarkMarkPos against "quantised base anchor minus quantised mark anchor".
"""
from __future__ import annotations

import json
import os
import random
import traceback

from vcheck.extra import hook

ROOT = os.path.dirname(os.path.dirname(os.path.dirname(os.path.abspath(__file__))))
OUT = os.environ.get("VERIF_OUT", os.path.join(ROOT, "out"))


def _replay(name, payload):
    d = os.path.join(OUT, "C06", "replay")
    os.makedirs(d, exist_ok=True)
    p = os.path.join(d, name + ".json")
    with open(p, "w") as f:
        json.dump(payload, f, indent=1, default=str)
    return p


@hook("C06")
def c06_bounded(tier, seed):
    from contracts import c06rt as R

    thorough = tier != "quick"
    res = {"obligations": 0, "discharged": 0, "bounded": [], "violations": [], "checker_errors": [], "evaluations": 0, "distinct": 0,
           "trusted": [], "assumptions": []}

    def part(name, bound, run):
        """one bounded stand-in = one obligation; `run` -> (evaluations, list of failing cases as (replay payload, text))"""
        res["obligations"] += 1
        try:
            n, fails = run()
        except Exception:
            res["checker_errors"].append(f"C06 hook part {name} crashed: {traceback.format_exc()[-700:]}")
            return
        res["evaluations"] += n
        res["distinct"] += n
        res["bounded"].append({"obligation": "C06." + name, "stands_in_for": bound["for"], "bound": bound["bound"], "evaluations": n, "failures": len(fails)})
        if not fails:
            res["discharged"] += 1
            return
        payload = fails[0]
        p = _replay(name, {"property": "C06", "obligation": "C06." + name, **payload})
        res["violations"].append(f"VIOLATION property=C06 replay={p} obligation=C06.{name}")

    # ---- 1. anchor-name grammar -------------------------------------------------------------------------
    maxlen = 7 if thorough else 5
    extra = ["top_12", "_top_12", "top_012", "Ünder_3", "*top.x_1", "*_top", "top__1", "_12", "*", "*.x", "top_1_2", "_top.alt", "1", "_"]

    def grammar():
        n, fails = R.parse_enumeration(maxlen, extra)
        return n, [{"contract": None, "case": None, "clause": f["clause"], "input": f["name"], "observed": f} for f in fails]

    part("parseAnchorName.summary", {"for": "contract summary of parseAnchorName (isMark/key/number/isContextual/isIgnorable, ValueError) and class invariant 'a mark anchor has a key and no number'",
                                     "bound": f"all {sum(len(R.ALPHABET) ** k for k in range(1, maxlen + 1))} non-empty names over the alphabet {R.ALPHABET!r} up to length {maxlen}, plus {len(extra)} listed names"}, grammar)

    def clauses():
        n, fails = R.grammar_clauses(R.GRAMMAR_KEYS, [1, 2, 3, 9, 10, 12, 100])
        return n, [{"contract": None, "case": None, "clause": f["clause"], "input": f["name"], "observed": f} for f in fails]

    part("parseAnchorName.property-sentences", {"for": "x_N is key x on component N; _x is the mark anchor of x; _x_N is rejected; bare _N is a NULL component",
                                                "bound": f"{len(R.GRAMMAR_KEYS)} keys x 7 component numbers"}, clauses)

    # ---- 1b. the library facts that contracts/c06parse.py ASSUMES about re / str (the deductive contracts of parseAnchorName rest on them) ----
    def library_facts():
        import itertools
        import re

        from ufo2ft.featureWriters.markFeatureWriter import LIGA_NUM_RE

        alpha = ["_", "a", "1", "2", "٣", ".", "*", "Z"]
        n, fails = 0, []
        for k in range(0, (6 if thorough else 5) + 1):
            for tup in itertools.product(alpha, repeat=k):
                s = "".join(tup)
                n += 1
                m = LIGA_NUM_RE.match(s)
                ends = len(s) > 0 and s[-1].isdecimal()
                bad = None
                if (m is not None) != ends:
                    bad = "LIGA_NUM_RE.match(s) is None iff s is empty or its last character is no decimal digit"
                elif m is not None:
                    g = m.group(1)
                    if not (len(g) >= 1 and s.endswith(g) and "_" not in g and g.isdecimal() and (len(s) == len(g) or not s[len(s) - len(g) - 1].isdecimal())):
                        bad = "group(1) is the maximal non-empty decimal suffix (and holds no '_')"
                    elif s.rstrip(g) != s[: len(s) - len(g)]:
                        bad = "s.rstrip(group(1)) removes exactly group(1)"
                    elif int(g) < 0:
                        bad = "int(group(1)) >= 0"
                if bad is None and "." not in s and re.sub(r"\..*", "", s) != s:
                    bad = "re.sub(r'\\..*', '', s) == s when s has no '.'"
                if bad:
                    fails.append({"contract": None, "case": None, "clause": bad, "input": s, "observed": {"match": m.group(0) if m else None}})
        return n, fails

    part("parseAnchorName.library-model-facts", {"for": "the facts about LIGA_NUM_RE.match / group(1) / str.rstrip / re.sub that contracts/c06parse.py assumes (trusted library models)",
                                                 "bound": f"all strings over an 8-letter alphabet (with a non-ASCII decimal digit) up to length {6 if thorough else 5}"}, library_facts)

    # ---- 2. graph colouring ---------------------------------------------------------------------------------
    nmax = 6 if thorough else 5

    def colouring():
        n, fails = R.color_graph_enumeration(nmax)
        return n, [{"contract": None, "case": None, "clause": "proper colouring and partition", "observed": f} for f in fails]

    part("colorGraph.proper-colouring", {"for": "colorGraph: groups partition the vertices, adjacent mark classes never share a group", "bound": f"all undirected graphs on 0..{nmax} vertices"}, colouring)

    def defining():
        n, fails = R.define_mark_class_enumeration()
        return n, [{"contract": None, "case": None, "clause": f["clause"], "observed": f} for f in fails]

    part("_defineMarkClass.never-overwrites", {"for": "run-time cross-check of the (deductively proved) _defineMarkClass contract on real feaLib objects: None iff same anchor already defined, fresh class on conflict, nothing replaced",
                                               "bound": "all registries over 2 classes x 2 glyphs x 2 anchors, every call (glyph, anchor)"}, defining)

    # ---- 3. lookup grouping, 4. end-to-end observer -----------------------------------------------------------
    ncases = 1500 if thorough else 150
    cases = R.observer_cases(random.Random(seed), ncases)

    def grouping():
        fails = []
        for d in cases:
            r = R.group_attachments_check(d)
            if r:
                fails.append({"contract": "contracts.c06rt:group_attachments_check", "case": d, "clause": "every attachment in exactly one lookup", "observed": r[:5]})
                break
        return len(cases), fails

    part("_groupAttachments.exactly-one-lookup", {"for": "_groupAttachments/_groupMarkClasses: every (glyph, component, anchor) in exactly one lookup, no two classes sharing a mark glyph in one lookup, component counts kept",
                                                  "bound": f"{len(cases)} generated fonts (groupMarkClasses on and off)"}, grouping)

    def observer():
        fails = []
        for d in cases:
            r = R.observe_case(d)
            if r:
                fails.append({"contract": "contracts.c06rt:observe_case", "case": d, "clause": "GPOS offsets == quantised base anchor - quantised mark anchor; x_N on component N; nothing for unmatched names", "observed": r[:6]})
                break
        return len(cases), fails

    part("observer.gpos-offsets", {"for": "the property end to end: compiled MarkBasePos/MarkLigPos/MarkMarkPos offsets of every (anchor x, mark anchor _x) pair",
                                   "bound": f"{len(cases)} generated UFOs: <=3 marks, <=2 bases, <=2 ligatures (<=4 components, gaps, bare _N), fractional coordinates, quantisation in {{1,2,5,10,20}}, GDEF categories on/off, Indic code points"}, observer)

    res["trusted"] += ["fontTools.feaLib: mark/base/ligature statements -> GPOS subtables (the observer reads the compiled tables back)",
                       "OpenType GPOS semantics of lookup types 4/5/6 as implemented by the observer's interpreter (contracts/c06rt.py)"]
    return res
