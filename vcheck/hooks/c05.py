"""C05 — bounded parts: an end-to-end observer of generated kerning, and exhaustive finite-domain conformance.

(1) e2e observer.  Small UFOs are generated (glyph and group keys, exceptions at every precedence level, zero /
    fractional / negative values, references to missing glyphs, repertoires mixing Latin, Greek, Cyrillic, Armenian,
    Hebrew, Arabic, Devanagari, kana, digits, punctuation, marks and unencoded GSUB alternates, languagesystem
    statements, quantisation steps).  GPOS is compiled with the REAL feature writers through the real
    FeatureCompiler / feaLib, saved and re-loaded, and then evaluated by the independent PairPos interpreter below
    (ScriptList -> LangSys -> kern/dist features -> lookups in LookupList order -> first matching subtable, lookup
    flags IgnoreMarks / UseMarkFilteringSet honoured).  For every script the font supports, every language system
    registered for it and every ordered pair of glyphs that can be adjacent in a run of that script, the total
    x-advance adjustment must equal quantize(fontTools.ufoLib.kerning.lookupKerningValue(pair)) and at most one
    lookup may contribute a non-zero amount.  The reference classification of glyphs (script extensions, bidi
    class, GSUB reachability) is computed here from fontTools.unicodedata, not taken from ufo2ft.
(2) KerningPair.__lt__ against the ordering key of the property, exhaustively over a finite domain of pairs.
(3) mergeScripts against its specification (connected components of the bucket-intersection graph), exhaustively
    over all families of script sets over a small universe.

Everything in this file is BOUNDED evidence (reported under `bounded`, never as discharged obligations).
"""
from __future__ import annotations

import io
import itertools
import json
import math
import os
import random
import traceback

from vcheck.extra import hook

ROOT = os.path.dirname(os.path.dirname(os.path.dirname(os.path.abspath(__file__))))
E2E_CONTRACT = "ufo2ft.featureWriters.kernFeatureWriter:KernFeatureWriter._write#e2e-observer"


def out_dir(pid):
    return os.path.join(os.environ.get("VERIF_OUT", os.path.join(ROOT, "out")), pid, "replay")


def write_replay(pid, name, payload):
    d = out_dir(pid)
    os.makedirs(d, exist_ok=True)
    fn = "".join(ch if ch.isalnum() or ch in "._-@#" else "_" for ch in name) + ".json"
    p = os.path.join(d, fn)
    with open(p, "w") as f:
        json.dump(payload, f, indent=1, default=str)
    return p


# =====================================================================================================
# reference data (independent of ufo2ft): glyph pool, Unicode classification

# name -> (code point or None, substitution source or None, is GDEF mark)
POOL = {
    "A": (0x41, None, False), "V": (0x56, None, False), "o": (0x6F, None, False), "h": (0x68, None, False),
    "alpha": (0x3B1, None, False), "Tau": (0x3A4, None, False), "eta": (0x3B7, None, False),
    "a-cy": (0x430, None, False), "Ve-cy": (0x412, None, False),
    "ayb-arm": (0x531, None, False), "ben-arm": (0x532, None, False),
    "alef-hb": (0x5D0, None, False), "bet-hb": (0x5D1, None, False),
    "alef-ar": (0x627, None, False), "beh-ar": (0x628, None, False), "reh-ar": (0x631, None, False),
    "comma-ar": (0x60C, None, False),  # script extensions Arab Nkoo Rohg Syrc Thaa Yezi
    "one-ar": (0x661, None, False),  # bidi AN
    "ka-deva": (0x915, None, False), "ga-deva": (0x917, None, False),
    "udatta-deva": (0x951, None, True),  # many script extensions, a mark
    "a-hira": (0x3042, None, False), "a-kata": (0x30A2, None, False),
    "one": (0x31, None, False), "two": (0x32, None, False),
    "period": (0x2E, None, False), "hyphen": (0x2D, None, False), "parenleft": (0x28, None, False),
    "acutecomb": (0x301, None, True), "gravecomb": (0x300, None, True),
    "shadda-ar": (0x651, None, True),
    # unencoded glyphs reached through GSUB
    "A.alt": (None, "A", False), "o.alt": (None, "o", False), "period.alt": (None, "period", False),
    "one.alt": (None, "one", False), "alef-ar.fina": (None, "alef-ar", False), "beh-ar.init": (None, "beh-ar", False),
    "a-cy.alt": (None, "a-cy", False), "alpha.alt": (None, "alpha", False), "bet-hb.alt": (None, "bet-hb", False),
    "acutecomb.case": (None, "acutecomb", True),
    "h.sc": (None, "h", False),  # additionally reachable from eta (two scripts) when both are present
    # unencoded and unreachable
    "orphan": (None, None, False),
}
FAMILIES = {
    "Latn": ["A", "V", "o", "h"],
    "Grek": ["alpha", "Tau", "eta"],
    "Cyrl": ["a-cy", "Ve-cy"],
    "Armn": ["ayb-arm", "ben-arm"],
    "Hebr": ["alef-hb", "bet-hb"],
    "Arab": ["alef-ar", "beh-ar", "reh-ar", "comma-ar", "one-ar", "shadda-ar"],
    "Deva": ["ka-deva", "ga-deva", "udatta-deva"],
    "Hrkt": ["a-hira", "a-kata"],
}
NEUTRALS = ["one", "two", "period", "hyphen", "parenleft"]
MARKS = ["acutecomb", "gravecomb"]
NEUTRAL_SCRIPTS = {"Zyyy", "Zinh"}
VALUES = [-80, -50, -25.5, -7, -0.4, 0, 0, 3.4, 12, 12.5, 40, 7.5, -12.5]


def script_ext(cp):
    from fontTools import unicodedata as ud

    alias = {"Hira": "Hrkt", "Kana": "Hrkt"}
    return {alias.get(s, s) for s in ud.script_extension(chr(cp))}


def bidi_of(cp):
    from fontTools import unicodedata as ud

    b = ud.bidirectional(chr(cp))
    if b in ("R", "AL"):
        return "R"
    if b in ("L", "AN", "EN"):
        return "L"
    return None


def ot_round(x):
    return int(math.floor(x + 0.5))


def quantize(v, q):
    return q * ot_round(v / q)


class Ref:
    """What the property's reference says about a generated font (no ufo2ft code involved)."""

    def __init__(self, case):
        self.case = case
        glyphs = case["glyphs"]
        subs = case.get("subs", {})  # target -> [sources]
        self.cps = {}
        for g in glyphs:
            own = [POOL[g][0]] if POOL[g][0] is not None else []
            self.cps[g] = set(own)
        # closure over single substitutions (source glyph -> target glyph)
        changed = True
        while changed:
            changed = False
            for tgt, srcs in subs.items():
                for s in srcs:
                    if s in self.cps and tgt in self.cps and not self.cps[s] <= self.cps[tgt]:
                        self.cps[tgt] |= self.cps[s]
                        changed = True
        self.scx = {g: set().union(*[script_ext(c) for c in cs]) if cs else set() for g, cs in self.cps.items()}
        self.bidi = {g: {bidi_of(c) for c in cs} - {None} for g, cs in self.cps.items()}
        # scripts the font supports: single-script code points of encoded glyphs + languagesystem statements
        sup = set()
        for g in glyphs:
            cp = POOL[g][0]
            if cp is not None:
                e = script_ext(cp)
                if len(e) == 1:
                    sup |= e
        from fontTools import unicodedata as ud

        for tag, _lang in case.get("langsys", []):
            if tag != "DFLT":
                sc = ud.ot_tag_to_script(tag)
                if sc:
                    sup.add({"Hira": "Hrkt", "Kana": "Hrkt"}.get(sc, sc))
        self.supported = sup - NEUTRAL_SCRIPTS
        self.marks = {g for g in glyphs if POOL[g][2]}

    def neutral(self, g):
        # unencoded + unreachable glyphs and Common / Inherited code points
        return not self.cps[g] or bool(self.scx[g] & NEUTRAL_SCRIPTS)

    def belongs(self, g, s):
        return s in self.scx[g]

    def in_run(self, g, s):
        if s == "DFLT":
            return self.neutral(g)
        return self.belongs(g, s) or self.neutral(g)

    def opposite(self, g1, g2):
        b = self.bidi[g1] | self.bidi[g2]
        return {"R", "L"} <= b

    def ufo_value(self, g1, g2):
        from fontTools.ufoLib.kerning import lookupKerningValue

        kerning = {tuple(k.split("|")): v for k, v in self.case["kerning"].items()}
        groups = {k: list(v) for k, v in self.case["groups"].items()}
        return lookupKerningValue((g1, g2), kerning, groups)

    def covering_entries(self, g1, g2):
        """kerning keys (any precedence level) that cover the glyph pair"""
        out = []
        for k in self.case["kerning"]:
            a, b = k.split("|")
            m1 = [a] if a in self.cps else [g for g in self.case["groups"].get(a, []) if g in self.cps] if a.startswith("public.kern1.") else []
            m2 = [b] if b in self.cps else [g for g in self.case["groups"].get(b, []) if g in self.cps] if b.startswith("public.kern2.") else []
            if g1 in m1 and g2 in m2:
                out.append((k, m1, m2))
        return out

    def bidi_mixed_entry(self, g1, g2):
        """FINDING C05-F1 carve-out: some kerning entry covering the pair names classes that contain BOTH a strong
        right-to-left glyph and a left-to-right one (e.g. a digit next to letters/punctuation).  Both writers treat
        such an entry as a whole (drop it, or emit it without RTL placement), so innocent glyph pairs under it lose
        their value.  Those pairs are only checked for 'applied at most once' until the finding is decided."""
        for _k, m1, m2 in self.covering_entries(g1, g2):
            b = set()
            for g in m1 + m2:
                b |= self.bidi[g]
            if {"R", "L"} <= b:
                return True
        return False

    def expected(self, g1, g2):
        return quantize(self.ufo_value(g1, g2), self.case.get("quantization", 1))


# =====================================================================================================
# case generation


def gen_case(rng, k=0):
    fams = list(FAMILIES)
    nf = rng.choice([1, 1, 2, 2, 2, 3])
    chosen = rng.sample(fams, nf)
    if k % 7 == 3:
        chosen = ["Latn", "Grek", "Cyrl"]
    if k % 7 == 6:
        # four or five left-to-right scripts chained by cross-script kerning (bucket merging must be transitive)
        chosen = rng.sample(["Latn", "Grek", "Cyrl", "Armn", "Hrkt"], rng.choice([4, 5]))
    if k % 7 == 5:
        chosen = rng.sample(["Hebr", "Arab"], rng.choice([1, 2])) + rng.sample(["Latn", "Armn"], rng.choice([0, 1]))
    glyphs = []
    for f in chosen:
        pool = FAMILIES[f]
        glyphs += rng.sample(pool, min(len(pool), rng.choice([2, 2, 3]) if len(chosen) < 4 else 2))
    glyphs += rng.sample(NEUTRALS, rng.choice([1, 2, 3]))
    if rng.random() < 0.35:
        glyphs += rng.sample(MARKS, rng.choice([1, 2]))
    if rng.random() < 0.3:
        glyphs.append("orphan")
    subs = {}
    for alt, (cp, src, _m) in POOL.items():
        if src is not None and src in glyphs and rng.random() < 0.55:
            glyphs.append(alt)
            subs.setdefault(alt, []).append(src)
    if "h.sc" in glyphs and "eta" in glyphs and rng.random() < 0.7:
        subs["h.sc"].append("eta")
    glyphs = list(dict.fromkeys(glyphs))
    widths = {}
    for g in glyphs:
        if POOL[g][2]:
            widths[g] = rng.choice([0, 0, 0, 120])  # a spacing mark now and then
        else:
            widths[g] = rng.choice([300, 500, 600])

    def partition(prefix):
        members = [g for g in glyphs if rng.random() < 0.7]
        rng.shuffle(members)
        groups = {}
        names = ["A", "B", "C", "D"]
        mode = rng.random()
        for g in members:
            if mode < 0.6:
                # mostly same-script groups: key the group on the glyph's first script extension
                cp = POOL[g][0] if POOL[g][0] is not None else (POOL[POOL[g][1]][0] if POOL[g][1] else None)
                fam = sorted(script_ext(cp))[0] if cp is not None else "Zyyy"
                nm = fam if rng.random() < 0.85 else rng.choice(names)
            else:
                nm = rng.choice(names)
            groups.setdefault(prefix + nm, []).append(g)
        for nm in list(groups):
            if rng.random() < 0.15:
                groups[nm].append("ghost")  # a member that is not in the font
        if rng.random() < 0.1:
            groups[prefix + "empty"] = ["ghost"]
        return groups

    def chain(prefix):
        # look-alike classes joining consecutive scripts pairwise: {s0,s1}, {s2}, {s2,s3}, {s3,s0}, ...
        per = [[g for g in glyphs if POOL[g][0] is not None and f in script_ext(POOL[g][0])] for f in chosen]
        per = [p for p in per if p]
        order = list(range(len(per)))
        rng.shuffle(order)
        groups = {}
        used = set()
        for n, (a, b) in enumerate(zip(order, order[1:] + order[:1])):
            ms = [g for g in (rng.choice(per[a]), rng.choice(per[b])) if g not in used]
            if rng.random() < 0.3:
                ms = ms[:1]
            if ms:
                used |= set(ms)
                groups[prefix + "X%d" % n] = ms
        return groups

    if len(chosen) >= 4:
        g1, g2 = chain("public.kern1."), chain("public.kern2.")
    else:
        g1 = partition("public.kern1.")
        g2 = partition("public.kern2.")
    groups = {**g1, **g2}
    if rng.random() < 0.2:
        groups["other.group"] = glyphs[:2]
    side1 = glyphs + list(g1) + ["ghost"]
    side2 = glyphs + list(g2) + ["ghost"]
    kerning = {}
    for _ in range(rng.choice([2, 4, 6, 9]) if len(chosen) < 4 else 10):
        a = rng.choice(side1 if rng.random() < 0.5 else (list(g1) or side1))
        b = rng.choice(side2 if rng.random() < 0.5 else (list(g2) or side2))
        kerning[f"{a}|{b}"] = rng.choice(VALUES)
    # exceptions at every precedence level for a few glyph pairs
    first_of = {g: n for n, ms in g1.items() for g in ms}
    second_of = {g: n for n, ms in g2.items() for g in ms}
    for _ in range(rng.choice([1, 2, 3])):
        a, b = rng.choice(glyphs), rng.choice(glyphs)
        if rng.random() < 0.6:
            # prefer glyphs that can meet in one run
            same = [g for g in glyphs if POOL[g][0] is not None and script_ext(POOL[g][0]) & (script_ext(POOL[a][0]) if POOL[a][0] else set())]
            if same:
                b = rng.choice(same)
        levels = [(first_of.get(a), second_of.get(b)), (a, second_of.get(b)), (first_of.get(a), b), (a, b)]
        for x, y in levels:
            if x is not None and y is not None and rng.random() < 0.75:
                kerning[f"{x}|{y}"] = rng.choice(VALUES)
    langsys = []
    if rng.random() < 0.4:
        from fontTools import unicodedata as ud

        langsys.append(("DFLT", "dflt"))
        for f in chosen:
            sc = {"Hrkt": "Kana"}.get(f, f)
            tag = ud.ot_tags_from_script(sc)[0]
            langsys.append((tag, "dflt"))
            if rng.random() < 0.5:
                langsys.append((tag, rng.choice(["TRK ", "SRB ", "URD ", "ROM "])))
        if rng.random() < 0.2:
            langsys.append(("thai", "dflt"))  # a declared script without glyphs
    return {
        "glyphs": glyphs,
        "widths": widths,
        "subs": subs,
        "groups": groups,
        "kerning": kerning,
        "langsys": langsys,
        "quantization": rng.choice([1, 1, 1, 1, 5, 10, 2]),
        "ignoreMarks": rng.random() < 0.8,
        "writer": "kernFeatureWriter" if k % 3 else "kernFeatureWriter2",
    }


def gen_cases(rng, n):
    return [gen_case(rng, k) for k in range(n)]


def features_text(case):
    lines = [f"languagesystem {t} {l.strip()};" for t, l in case.get("langsys", [])]
    subs = case.get("subs", {})
    if subs:
        # one alternate per feature block (a glyph may be the target of two sources)
        rules = []
        for tgt, srcs in subs.items():
            for s in srcs:
                rules.append(f"    sub {s} by {tgt};")
        lines.append("feature ss01 {")
        lines += rules
        lines.append("} ss01;")
    return "\n".join(lines) + "\n"


def build_ufo(case):
    import ufoLib2

    f = ufoLib2.Font()
    f.info.unitsPerEm = 1000
    f.newGlyph(".notdef").width = 500
    cats = {}
    for g in case["glyphs"]:
        gl = f.newGlyph(g)
        gl.width = case["widths"].get(g, 500)
        cp = POOL[g][0]
        if cp is not None:
            gl.unicodes = [cp]
        if POOL[g][2]:
            cats[g] = "mark"
        else:
            cats[g] = "base"
    if any(v == "mark" for v in cats.values()):
        f.lib["public.openTypeCategories"] = cats
    for k, v in case["groups"].items():
        f.groups[k] = list(v)
    for k, v in case["kerning"].items():
        a, b = k.split("|")
        f.kerning[(a, b)] = v
    f.features.text = features_text(case)
    return f


def compile_gpos(case, ufo=None):
    """Real writers, real feaLib; the font is saved and re-loaded so that the interpreter sees what is serialised."""
    import importlib

    from fontTools.ttLib import TTFont

    from ufo2ft.featureCompiler import FeatureCompiler
    from ufo2ft.featureWriters import GdefFeatureWriter

    mod = importlib.import_module("ufo2ft.featureWriters." + case["writer"])
    ufo = ufo if ufo is not None else build_ufo(case)
    w = mod.KernFeatureWriter(quantization=case.get("quantization", 1), ignoreMarks=case.get("ignoreMarks", True))
    comp = FeatureCompiler(ufo, featureWriters=[w, GdefFeatureWriter()])
    tt = comp.compile()
    buf = io.BytesIO()
    tt.save(buf)
    buf.seek(0)
    tt2 = TTFont(buf)
    tt2.setGlyphOrder(tt.getGlyphOrder())  # the scratch font has no post/maxp table to recover the names from
    return tt2, comp.features


# =====================================================================================================
# independent GPOS PairPos interpreter


class Gpos:
    def __init__(self, tt):
        self.tt = tt
        self.table = tt["GPOS"].table if "GPOS" in tt else None
        self.gdef = {}
        self.mark_sets = []
        if "GDEF" in tt:
            gd = tt["GDEF"].table
            if gd.GlyphClassDef is not None:
                self.gdef = dict(gd.GlyphClassDef.classDefs)
            msd = getattr(gd, "MarkGlyphSetsDef", None)
            if msd is not None:
                self.mark_sets = [set(c.glyphs) if c is not None else set() for c in msd.Coverage]
            self.mark_attach = dict(gd.MarkAttachClassDef.classDefs) if getattr(gd, "MarkAttachClassDef", None) else {}
        else:
            self.mark_attach = {}

    def script_tags(self):
        if self.table is None or self.table.ScriptList is None:
            return []
        return [r.ScriptTag for r in self.table.ScriptList.ScriptRecord]

    def langsys(self, script_tag, lang_tag):
        """LangSys a shaper selects: script (fallback DFLT), then language (fallback default)."""
        if self.table is None or self.table.ScriptList is None:
            return None
        recs = {r.ScriptTag: r.Script for r in self.table.ScriptList.ScriptRecord}
        sc = recs.get(script_tag) or recs.get("DFLT")
        if sc is None:
            return None
        for lr in sc.LangSysRecord:
            if lr.LangSysTag.strip() == lang_tag.strip():
                return lr.LangSys
        return sc.DefaultLangSys

    def languages(self, script_tag):
        if self.table is None or self.table.ScriptList is None:
            return []
        for r in self.table.ScriptList.ScriptRecord:
            if r.ScriptTag == script_tag:
                return [lr.LangSysTag for lr in r.Script.LangSysRecord]
        return []

    def lookups_for(self, ls, feature_tags=("kern", "dist")):
        if ls is None:
            return []
        idx = list(ls.FeatureIndex)
        if ls.ReqFeatureIndex != 0xFFFF:
            idx.append(ls.ReqFeatureIndex)
        out = set()
        for i in idx:
            fr = self.table.FeatureList.FeatureRecord[i]
            if fr.FeatureTag in feature_tags:
                out |= set(fr.Feature.LookupListIndex)
        return sorted(out)

    def skipped(self, lookup, g):
        """Is glyph g invisible to this lookup (lookup flags)?"""
        flag = lookup.LookupFlag
        cls = self.gdef.get(g, 0)
        if flag & 0x2 and cls == 1:
            return True
        if flag & 0x4 and cls == 2:
            return True
        if cls == 3:
            if flag & 0x8:
                return True
            if flag & 0x10:
                ms = self.mark_sets[lookup.MarkFilteringSet] if lookup.MarkFilteringSet is not None and lookup.MarkFilteringSet < len(self.mark_sets) else set()
                if g not in ms:
                    return True
            if flag & 0xFF00 and self.mark_attach.get(g, 0) != (flag >> 8):
                return True
        return False

    @staticmethod
    def _val(vr, attr):
        return getattr(vr, attr, 0) or 0 if vr is not None else 0

    def apply_lookup(self, li, g1, g2):
        """(applied?, xAdvance1, xPlacement1, other) of lookup li on the adjacent pair g1 g2."""
        lk = self.table.LookupList.Lookup[li]
        if self.skipped(lk, g1) or self.skipped(lk, g2):
            return (False, 0, 0, 0)
        for st in lk.SubTable:
            typ = lk.LookupType
            if typ == 9:
                typ = st.ExtensionLookupType
                st = st.ExtSubTable
            if typ != 2:
                continue
            cov = st.Coverage.glyphs
            if g1 not in cov:
                continue
            v1 = v2 = None
            if st.Format == 1:
                ps = st.PairSet[cov.index(g1)]
                hit = [r for r in ps.PairValueRecord if r.SecondGlyph == g2]
                if not hit:
                    continue
                v1, v2 = hit[0].Value1, hit[0].Value2
            elif st.Format == 2:
                c1 = st.ClassDef1.classDefs.get(g1, 0)
                c2 = st.ClassDef2.classDefs.get(g2, 0)
                rec = st.Class1Record[c1].Class2Record[c2]
                v1, v2 = rec.Value1, rec.Value2
            other = 0
            for a in ("YPlacement", "YAdvance"):
                other += abs(self._val(v1, a))
            for a in ("XPlacement", "YPlacement", "XAdvance", "YAdvance"):
                other += abs(self._val(v2, a))
            return (True, self._val(v1, "XAdvance"), self._val(v1, "XPlacement"), other)
        return (False, 0, 0, 0)

    def pair(self, script_tag, lang_tag, g1, g2):
        ls = self.langsys(script_tag, lang_tag)
        adv = plc = other = nonzero = 0
        for li in self.lookups_for(ls):
            ok, a, p, o = self.apply_lookup(li, g1, g2)
            if ok:
                adv += a
                plc += p
                other += o
                if a != 0 or p != 0:
                    nonzero += 1
        return adv, plc, other, nonzero


# =====================================================================================================
# the observer


STATS = {"carved": 0, "nonzero_ok": 0}


def observe(case, limit=5):
    """-> list of violation dicts (empty when the property holds on this case)."""
    from fontTools import unicodedata as ud

    ref = Ref(case)
    try:
        tt, fea = compile_gpos(case)
    except Exception as e:  # noqa  -- the real writers / feaLib reject a valid UFO: the font cannot be built at all
        return [{"clause": "compiles", "error": "".join(traceback.format_exception_only(type(e), e)).strip()[:400], "where": traceback.format_exc()[-500:]}], 1
    gp = Gpos(tt)
    glyphs = list(case["glyphs"])
    out = []
    n_eval = 0
    n_carved = 0
    scripts = sorted(ref.supported) + ["DFLT"]
    single_direction = len({ud.script_horizontal_direction({"Hrkt": "Kana"}.get(s, s), "LTR") for s in ref.supported}) <= 1
    strict_writer = case["writer"] == "kernFeatureWriter" or single_direction
    declared = {}
    for t, l in case.get("langsys", []):
        declared.setdefault(t, set()).add(l)
    for s in scripts:
        if s == "DFLT":
            tags = ["DFLT"]
            rtl = False
        else:
            sc = {"Hrkt": "Kana"}.get(s, s)
            tags = list(ud.ot_tags_from_script(sc))
            rtl = ud.script_horizontal_direction(sc, "LTR") == "RTL"
        run = [g for g in glyphs if ref.in_run(g, s)]
        for tag in tags:
            langs = {"dflt"} | set(gp.languages(tag)) | declared.get(tag, set())
            for lang in sorted(langs):
                for g1 in run:
                    for g2 in run:
                        adv, plc, other, nonzero = gp.pair(tag, lang, g1, g2)
                        exp = ref.expected(g1, g2)
                        n_eval += 1
                        where = {"script": s, "tag": tag, "language": lang, "pair": [g1, g2], "expected": exp, "ufo_value": ref.ufo_value(g1, g2),
                                 "xAdvance": adv, "xPlacement": plc, "lookups_contributing": nonzero}
                        bad = None
                        if other:
                            bad = "only-x-advance-of-first-glyph"
                        elif nonzero > 1:
                            bad = "applied-once"
                        elif ref.bidi_mixed_entry(g1, g2):
                            n_carved += 1  # FINDING C05-F1 (see notes/C05.md): value / placement clauses suspended for these pairs
                        elif ref.opposite(g1, g2) or not strict_writer:
                            if adv not in (0, exp):
                                bad = "dropped-pair-zero-or-value"
                        elif adv != exp:
                            bad = "value"
                        elif rtl and (ref.bidi[g1] | ref.bidi[g2]) == {"R"} and plc != adv:
                            # a strong right-to-left glyph and no left-to-right one (digits are shaped LTR): placement too
                            bad = "rtl-placement"
                        elif plc not in (0, adv) or (not rtl and plc != 0):
                            # pairs of neutral glyphs only: both writers keep them in the direction-less lookup
                            bad = "placement-zero-or-advance"
                        if bad:
                            out.append({"clause": bad, **where})
                            if len(out) >= limit:
                                STATS["carved"] += n_carved
                                return out, n_eval
                        elif exp != 0:
                            STATS["nonzero_ok"] += 1
    STATS["carved"] += n_carved
    return out, n_eval


def observe_case(case):
    """Replay entry point (also used by the props=[] contract in contracts/c05.py)."""
    v, _ = observe(case)
    return v


# =====================================================================================================
# (2) KerningPair.__lt__ vs. the ordering key of the property


def lt_spec(a1, a2, b1, b2):
    """glyph-glyph < glyph-class < class-glyph < class-class, then by the sides."""
    ka = (isinstance(a1, tuple), isinstance(a2, tuple))
    kb = (isinstance(b1, tuple), isinstance(b2, tuple))
    if ka != kb:
        return ka < kb
    return (a1, a2) < (b1, b2)


def check_lt():
    from ufo2ft.featureWriters.kernFeatureWriter import KerningPair

    sides = ["a", "b", ("a",), ("a", "b"), ("b",)]
    pairs = [KerningPair(s1, s2, v) for s1 in sides for s2 in sides for v in (0, -5)]
    bad = []
    n = 0
    for p in pairs:
        for q in pairs:
            n += 1
            try:
                got = p < q
            except Exception as e:  # noqa
                got = repr(e)
            want = lt_spec(p.side1, p.side2, q.side1, q.side2)
            if got != want:
                bad.append({"clause": "lt-order", "p": repr(p), "q": repr(q), "got": got, "want": want})
    # sorting realises the precedence order
    try:
        srt = sorted(pairs)
        kinds = [(p.firstIsClass, p.secondIsClass) for p in srt]
        if kinds != sorted(kinds):
            bad.append({"clause": "sorted-by-kind", "kinds": kinds})
    except Exception as e:  # noqa
        bad.append({"clause": "sorted-by-kind", "error": repr(e)})
    return bad, n


# =====================================================================================================
# (3) mergeScripts vs. connected components


def merge_spec(keys):
    comps = []
    for k in keys:
        if not k:
            continue
        s = set(k)
        hit = [c for c in comps if c & s]
        for c in hit:
            comps.remove(c)
            s |= c
        comps.append(s)
    return comps


def check_merge(universe, max_keys, rng=None, sample=None):
    from ufo2ft.featureWriters.kernFeatureWriter import mergeScripts

    subsets = [tuple(sorted(c)) for r in range(1, len(universe) + 1) for c in itertools.combinations(universe, r)]
    fams = []
    for r in range(0, max_keys + 1):
        # the order of the buckets matters to the algorithm: ordered families
        if len(subsets) ** r <= 300000:
            fams += list(itertools.permutations(subsets, r))
        else:
            fams += [tuple(rng.sample(subsets, r)) for _ in range(sample or 10000)]
    if sample is not None and len(fams) > sample:
        fams = rng.sample(fams, sample)
    bad = []
    for fam in fams:
        inp = {k: [(k, i)] for i, k in enumerate(fam)}  # the bucket's "pairs": tagged tokens
        try:
            res = mergeScripts({k: list(v) for k, v in inp.items()})
        except Exception as e:  # noqa
            bad.append({"clause": "merge-raises", "family": fam, "error": repr(e)})
            continue
        keys = list(res)
        want = merge_spec(fam)
        ok = True
        # result buckets pairwise disjoint, sorted tuples, exactly the connected components
        if sorted(keys) != sorted(tuple(sorted(c)) for c in want):
            ok = False
        for a, b in itertools.combinations(keys, 2):
            if set(a) & set(b):
                ok = False
        # nothing lost, nothing duplicated, every input bucket lands in the bucket that contains its scripts
        flat = [t for v in res.values() for t in v]
        if sorted(flat) != sorted(t for v in inp.values() for t in v):
            ok = False
        for k2, toks in res.items():
            for (k, _i) in toks:
                if not set(k) <= set(k2):
                    ok = False
        if not ok:
            bad.append({"clause": "merge-components", "family": fam, "result": {str(k): v for k, v in res.items()}})
            if len(bad) > 3:
                break
    return bad, len(fams)


# =====================================================================================================
# (4) getKerningGroups on real writers (the function is outside the engine's subset: set.intersection(dict.keys()))


def groups_case(rng, k):
    c = gen_case(rng, k)
    if k % 3 == 0 and c["glyphs"]:
        c["skip"] = [rng.choice(c["glyphs"])]
    if k % 2 == 0:
        # invalid-but-possible UFO data: a later group overlapping an earlier one of the same side
        for prefix in ("public.kern1.", "public.kern2."):
            names = [n for n in c["groups"] if n.startswith(prefix) and c["groups"][n]]
            if names:
                g = rng.choice(c["groups"][rng.choice(names)])
                c["groups"][prefix + "zz_overlap"] = [g, rng.choice(c["glyphs"])]
    return c


def check_groups(case):
    from contracts.c05 import _writer_for

    w = _writer_for(case)
    gs = set(w.context.glyphSet.keys())
    s1, s2 = w.getKerningGroups()
    bad = []
    ufo_groups = list(w.context.font.groups.items())
    for side, res, prefix, memb in ((1, s1, "public.kern1.", w.context.side1Membership), (2, s2, "public.kern2.", w.context.side2Membership)):
        kept_so_far = set()
        expect = {}
        for name, members in ufo_groups:
            pruned = set(members) & gs
            if not name.startswith(prefix) or not pruned:
                continue
            if pruned & kept_so_far:
                continue  # overlap with an earlier kept group: the whole definition is skipped
            expect[name] = tuple(sorted(pruned))
            kept_so_far |= pruned
        if dict(res) != expect:
            bad.append({"clause": "groups-kept", "side": side, "got": {k: list(v) for k, v in res.items()}, "want": {k: list(v) for k, v in expect.items()}})
        for a, b in itertools.combinations(res.values(), 2):
            if set(a) & set(b):
                bad.append({"clause": "groups-disjoint", "side": side, "groups": [list(a), list(b)]})
        inv = {g: n[len(prefix):] for n, ms in res.items() for g in ms}
        if dict(memb) != inv:
            bad.append({"clause": "membership-inverse", "side": side, "got": dict(memb), "want": inv})
        for n, ms in res.items():
            if not ms or list(ms) != sorted(ms) or not set(ms) <= gs or not isinstance(ms, tuple):
                bad.append({"clause": "group-shape", "side": side, "name": n, "members": list(ms)})
    return bad


# =====================================================================================================


class quiet:
    """the writers log every dropped pair / regrouped glyph; keep the check's output to its verdict lines"""

    def __enter__(self):
        import logging

        self.prev = logging.root.manager.disable
        logging.disable(logging.CRITICAL)

    def __exit__(self, *a):
        import logging

        logging.disable(self.prev)


@hook("C05")
def c05_hook(tier, seed):
    with quiet():
        return _c05_hook(tier, seed)


def _c05_hook(tier, seed):
    res = {"bounded": [], "violations": [], "checker_errors": [], "evaluations": 0, "distinct": 0, "trusted": [], "assumptions": []}
    # (2)
    try:
        bad, n = check_lt()
        res["evaluations"] += n
        res["bounded"].append({"what": "KerningPair.__lt__ == ordering key (kind, sides); sorted() groups by kind", "bound": f"all {n} ordered pairs over 5 sides x 5 sides x 2 values", "failures": len(bad)})
        for b in bad[:1]:
            p = write_replay("C05", "lt." + b["clause"], {"property": "C05", "contract": None, "case": None, "obligation": "C05.KerningPair.__lt__." + b["clause"], "observed": b})
            res["violations"].append(f"VIOLATION property=C05 replay={p} obligation=C05.KerningPair.__lt__.{b['clause']}")
    except Exception:
        res["checker_errors"].append("C05 hook (__lt__): " + traceback.format_exc()[-600:])
    # (3)
    try:
        rng = random.Random(seed)
        if tier == "quick":
            bad, n = check_merge(["A", "B", "C", "D"], 3, rng, sample=4000)
            bound = f"{n} ordered families of <=3 non-empty script sets over 4 scripts"
        else:
            bad, n = check_merge(["A", "B", "C", "D"], 4, rng, sample=60000)
            bad2, n2 = check_merge(["A", "B", "C", "D", "E", "F"], 4, rng, sample=40000)
            bad += bad2
            n += n2
            bound = f"{n} ordered families of <=4 script sets over 4 and 6 scripts (sampled where the enumeration exceeds the budget)"
        res["evaluations"] += n
        res["bounded"].append({"what": "mergeScripts == connected components of the bucket-intersection graph; buckets pairwise disjoint; nothing lost or duplicated", "bound": bound, "failures": len(bad)})
        for b in bad[:1]:
            p = write_replay("C05", "mergeScripts." + b["clause"], {"property": "C05", "contract": None, "case": None, "obligation": "C05.mergeScripts." + b["clause"], "observed": b})
            res["violations"].append(f"VIOLATION property=C05 replay={p} obligation=C05.mergeScripts.{b['clause']}")
    except Exception:
        res["checker_errors"].append("C05 hook (mergeScripts): " + traceback.format_exc()[-600:])
    # (4)
    try:
        rng = random.Random(seed + 9)
        n_g = 60 if tier == "quick" else 3000
        nbad = 0
        for k in range(n_g):
            case = groups_case(rng, k)
            bad = check_groups(case)
            if bad and not nbad:
                b = bad[0]
                p = write_replay("C05", "getKerningGroups." + b["clause"], {"property": "C05", "contract": None, "case": None, "input": case, "obligation": "C05.getKerningGroups." + b["clause"], "observed": b})
                res["violations"].append(f"VIOLATION property=C05 replay={p} obligation=C05.getKerningGroups.{b['clause']}")
            nbad += len(bad)
        res["evaluations"] += n_g
        res["bounded"].append({"what": "getKerningGroups on real writers: kept groups == pruned, sorted, non-empty, prefixed groups not overlapping an earlier kept one; pairwise disjoint per side; membership map is the inverse",
                               "bound": f"{n_g} generated UFOs (missing / skipped glyphs, empty groups, foreign prefixes, overlapping definitions)", "failures": nbad})
    except Exception:
        res["checker_errors"].append("C05 hook (getKerningGroups): " + traceback.format_exc()[-600:])
    # (1)
    try:
        rng = random.Random(seed + 5)
        n_cases = 160 if tier == "quick" else 8000
        cases = gen_cases(rng, n_cases)
        seen = set()
        n_eval = 0
        reported = set()
        for case in cases:
            seen.add(json.dumps(case, sort_keys=True))
            try:
                bad, n = observe(case)
            except Exception:
                res["checker_errors"].append("C05 e2e observer crashed on a generated case: " + traceback.format_exc()[-700:] + " case=" + json.dumps(case)[:600])
                break
            n_eval += n
            for b in bad:
                key = (b["clause"], case["writer"])
                if key in reported:
                    continue
                reported.add(key)
                name = f"e2e.{case['writer']}.{b['clause']}"
                p = write_replay("C05", name, {"property": "C05", "contract": E2E_CONTRACT, "obligation": "C05." + name, "clause": b["clause"], "case": case, "observed": b})
                res["violations"].append(f"VIOLATION property=C05 replay={p} obligation=C05.{name}")
            if len(reported) >= 3:
                break
        res["evaluations"] += n_eval
        res["distinct"] += len(seen)
        res["bounded"].append({
            "what": "end-to-end: compiled GPOS (both kern writers) evaluated per script/language system by an independent PairPos interpreter == quantize(lookupKerningValue), applied at most once, RTL placement",
            "bound": f"{len(seen)} generated UFOs (<= ~16 glyphs, 1-5 scripts of Latn/Grek/Cyrl/Armn/Hebr/Arab/Deva/Hrkt + digits/punctuation/marks/GSUB alternates), {n_eval} (script, language, glyph pair) evaluations",
            "failures": len(reported),
        })
    except Exception:
        res["checker_errors"].append("C05 hook (e2e): " + traceback.format_exc()[-600:])
    res["trusted"] += [
        "feaLib builder / fontTools GPOS compilation and binary round trip (the observer reads the re-loaded tables)",
        "fontTools.ufoLib.kerning.lookupKerningValue as the UFO reference semantics",
        "fontTools.unicodedata script extensions / bidi classes (reference classification of glyphs)",
        "OpenType PairPos semantics as implemented by the interpreter in vcheck/hooks/c05.py (first matching subtable per lookup, lookups in LookupList order, DFLT script fallback, default LangSys fallback)",
    ]
    return res
