"""C09 — checks that are not function contracts (everything here is BOUNDED: generated inputs, real code).

P  TTFInterpolatablePreProcessor.process (nested set comprehension, zip_longest(*...): outside pyvc's subset), instrumented:
   the set handed to check_for_nonmatching_components is the union over ALL glyph sets of the names that are mixed
   (contours and components) in ANY master; the DecomposeComponentsIFilter is built with include = that set (after the check);
   fonts_to_quadratic receives all glyph sets at once.
N  check_for_nonmatching_components (`set.union(*[...])`: outside the subset): adds a composite whenever some shared component
   index has a 2x2 differing in ANY of its four entries in ANY master (each entry varied alone, incl. yy), never for differing
   offsets only, and never removes a name (monotone).
F  FlattenComponentsIFilter.filter, instrumented: decision = disjunction over all masters, action on every master that has the glyph.
I  BaseIFilter.__call__, instrumented (its call-site preconditions are proved in contracts/c13.py; this is the run-time twin that
   yields a concrete failing input): filter(name, glyphs) once per name with the glyph of every master that has the name.
R  Instantiator.replace_source_layers (slice assignment: outside the subset): afterwards glyph_mutators is EMPTY — also when
   the new layers are the very objects already installed (they are edited in place by the pre-processor) — and the source
   layers are the new ones; an instance generated afterwards reflects the edited layers.
O  observer: families of 2-3 compatible masters (perturbations of a random master; lines, cubic, quadratic; nested components;
   components whose 2x2 differs between masters in one entry; sparse layers) through compileInterpolatableTTFs,
   compileInterpolatableTTFsFromDS, compileInterpolatableOTFsFromDS, with flattenComponents / skipExportGlyphs: in every
   master each glyph has the same contours / point counts / on-off types in order and the same component list; a sparse master
   holds '.notdef', its layer's glyphs and beyond those only glyphs tied to them by component references.
"""
from __future__ import annotations

import copy
import json
import os
import random
import traceback

from vcheck.extra import hook

PID = "C09"
ROOT = os.path.dirname(os.path.dirname(os.path.dirname(os.path.abspath(__file__))))
OUT = os.environ.get("VERIF_OUT", os.path.join(ROOT, "out"))


def _violation(obligation, payload):
    d = os.path.join(OUT, PID, "replay")
    os.makedirs(d, exist_ok=True)
    p = os.path.join(d, "".join(ch if ch.isalnum() or ch in "._-@#" else "_" for ch in obligation) + ".json")
    with open(p, "w") as f:
        json.dump({"property": PID, "obligation": obligation, "case": None, **payload}, f, indent=1, default=str)
    return f"VIOLATION property={PID} replay={p} obligation={obligation}"


# ---- generators -----------------------------------------------------------------------------------------------------------------
def family(rng, curves, vary2x2=None, sparse=False, mixed_only_in=None):
    """compatible masters; vary2x2 = index 0..3 of the 2x2 entry changed in the LAST master for one pure composite's component"""
    from contracts import c13rt

    base = c13rt.master_desc(rng, n_glyphs=rng.randint(3, 6), curves=curves, notdef=True, mixed=0.25)
    # integral-free transforms are fine here (no rendering comparison)
    n = rng.randint(2, 3)
    masters = [base] + [c13rt.perturb(rng, base) for _ in range(n - 1)]
    names = [g for g in base["glyphs"] if g != ".notdef"]
    victim = None
    if vary2x2 is not None:
        pure = [g for g in names if base["glyphs"][g].get("components") and not base["glyphs"][g].get("contours")]
        if pure:
            victim = rng.choice(pure)
            tr = masters[-1]["glyphs"][victim]["components"][0][1]
            tr[vary2x2] = tr[vary2x2] + rng.choice([0.25, 0.4, -0.3])
    fam = {"masters": masters, "skip": [], "instantiator": True, "victim": victim, "vary2x2": vary2x2}
    if sparse:
        fam["sparse"] = {str(rng.randrange(n)): sorted(rng.sample(names, rng.randint(1, len(names))))}
    if mixed_only_in is not None:
        # a composite that additionally carries a contour in ONE master only (the masters are then not compatible: used by P only)
        pure = [g for g in names if base["glyphs"][g].get("components") and not base["glyphs"][g].get("contours")]
        if pure:
            g = rng.choice(pure)
            k = min(mixed_only_in, n - 1)
            masters[k]["glyphs"][g]["contours"] = [[[0, 0, "line"], [50, 0, "line"], [50, 50, "line"]]]
            fam["mixed"] = [g, k]
    return fam


# ---- P ------------------------------------------------------------------------------------------------------------------------
def check_process(fam):
    import fontTools.cu2qu.ufo as cu

    from contracts import c13rt
    from ufo2ft.filters.decomposeComponents import DecomposeComponentsIFilter
    from ufo2ft.preProcessor import TTFInterpolatablePreProcessor

    ufos, layer_names, ds = c13rt.build_family(dict(fam, ds_skip=None))
    from ufo2ft.instantiator import Instantiator

    inst = Instantiator.from_designspace(ds, round_geometry=False, do_info=False, do_kerning=False)
    pp = TTFInterpolatablePreProcessor(ufos, layerNames=layer_names, instantiator=inst)
    expected = {n for gs in pp.glyphSets for n, g in gs.items() if len(g) > 0 and g.components}
    seen = {"nd_in": None, "nd_out": None, "filters": [], "f2q": None}
    orig_check, orig_run, orig_f2q = pp.check_for_nonmatching_components, pp._run, cu.fonts_to_quadratic

    def check(nd):
        seen["nd_in"] = set(nd)
        r = orig_check(nd)
        seen["nd_out"] = set(nd)
        return r

    def run(*filters):
        seen["filters"].append(filters)
        return orig_run(*filters)

    def f2q(glyphsets, **kw):
        seen["f2q"] = [id(g) for g in glyphsets]
        return orig_f2q(glyphsets, **kw)

    pp.check_for_nonmatching_components, pp._run, cu.fonts_to_quadratic = check, run, f2q
    all_ids = [id(g) for g in pp.glyphSets]
    names = sorted({n for gs in pp.glyphSets for n in gs})
    incompatible = False
    try:
        pp.process()
    except Exception:
        # the one-master-mixed families are deliberately NOT compatible: once the decomposition set has been computed, cu2qu
        # (IncompatibleFontsError) or the interpolation of a sparse master (fontMath) may refuse them
        incompatible = fam.get("mixed") is not None and seen["nd_in"] is not None
        if not incompatible:
            raise
    finally:
        cu.fonts_to_quadratic = orig_f2q
    problems = []
    if seen["nd_in"] != expected:
        problems.append(("needs_decomposition is not the union over all glyph sets of the mixed glyphs", {"expected": sorted(expected), "got": sorted(seen["nd_in"] or [])}))
    dec = [f[0] for f in seen["filters"] if len(f) == 1 and isinstance(f[0], DecomposeComponentsIFilter)]
    final = seen["nd_out"] or set()
    if seen["nd_out"] is not None and bool(final) != bool(dec):
        problems.append(("DecomposeComponentsIFilter run iff the set is non-empty", {"set": sorted(final), "filters": len(dec)}))
    if dec:
        class G:  # the include predicate only looks at .name
            def __init__(self, n):
                self.name = n

        inc = {n for n in names if dec[0].include(G(n))}
        if inc != final:
            problems.append(("DecomposeComponentsIFilter include differs from needs_decomposition", {"include": sorted(inc), "set": sorted(final)}))
    if not incompatible and seen["f2q"] != all_ids:
        problems.append(("fonts_to_quadratic did not receive all glyph sets", {"got": seen["f2q"], "all": all_ids}))
    return problems


# ---- N ------------------------------------------------------------------------------------------------------------------------
def check_nonmatching(rng):
    import ufoLib2

    from ufo2ft.preProcessor import TTFInterpolatablePreProcessor

    n = rng.randint(2, 4)
    glyphs = ["comp0", "comp1", "comp2", "plain"]
    base_tr = {g: [[rng.choice([1, 0.5, -1]), rng.choice([0, 0.2]), rng.choice([0, -0.1]), rng.choice([1, 0.8, 2]), 10, 20] for _ in range(rng.randint(1, 2))] for g in glyphs[:3]}
    plan = {}
    for g in glyphs[:3]:
        kind = rng.choice(["same", "offset", "xx", "xy", "yx", "yy"])
        plan[g] = (kind, rng.randrange(n), rng.randrange(len(base_tr[g])))
    ufos = []
    for k in range(n):
        u = ufoLib2.Font()
        b = u.newGlyph("base")
        pen = b.getPen(); pen.moveTo((0, 0)); pen.lineTo((100, 0)); pen.lineTo((100, 100)); pen.closePath()
        u.newGlyph("plain").getPen().addComponent("base", (1, 0, 0, 1, 0, 0)) if False else None
        p = u["plain"] if "plain" in u else u.newGlyph("plain")
        pen = p.getPen(); pen.moveTo((0, 0)); pen.lineTo((10, 0)); pen.lineTo((10, 10)); pen.closePath()
        for g in glyphs[:3]:
            gl = u.newGlyph(g)
            kind, mk, ck = plan[g]
            for ci, tr in enumerate(base_tr[g]):
                tr = list(tr)
                if k == mk and ci == ck:
                    if kind == "offset":
                        tr[4] += 33
                    elif kind in ("xx", "xy", "yx", "yy"):
                        tr[["xx", "xy", "yx", "yy"].index(kind)] += 0.125
                gl.getPen().addComponent("base", tuple(tr))
        ufos.append(u)
    # a sparse-like master: drop one composite from the last master sometimes
    if rng.random() < 0.3 and n > 2:
        del ufos[-1]["comp2"]
    pp = TTFInterpolatablePreProcessor(ufos)
    pre = set(rng.sample(glyphs + ["ghost"], rng.randint(0, 2)))
    nd = set(pre)
    pp.check_for_nonmatching_components(nd)
    problems = []
    if not pre <= nd:
        problems.append(("not monotone: a name was removed", {"before": sorted(pre), "after": sorted(nd)}))
    for g in glyphs[:3]:
        kind, mk, ck = plan[g]
        present = [u for u in ufos if g in u]
        differs = kind in ("xx", "xy", "yx", "yy") and len(present) > 1 and any(g in u for i, u in enumerate(ufos) if i == mk)
        if g in pre:
            continue
        if differs and g not in nd:
            problems.append((f"2x2 entry {kind} differs in one master but the composite is not scheduled for decomposition", {"glyph": g, "plan": plan[g], "masters": n}))
        if not differs and g in nd:
            problems.append(("composite with equal 2x2 everywhere scheduled for decomposition", {"glyph": g, "plan": plan[g]}))
    if "plain" in nd and "plain" not in pre:
        problems.append(("simple glyph scheduled", {}))
    return problems, {"plan": plan, "masters": n, "pre": sorted(pre)}


# ---- F ------------------------------------------------------------------------------------------------------------------------
def check_flatten(fam):
    import ufo2ft.filters.flattenComponents as fc
    from contracts import c13rt

    ufos, gss, inst = c13rt.glyph_sets(fam)
    flt = fc.FlattenComponentsIFilter()
    flt.set_context(ufos, gss, inst)
    problems = []
    orig = fc._flattenGlyphComponents
    try:
        for name in sorted({n for gs in gss for n in gs}):
            glyphs = [gs[name] for gs in gss if name in gs]
            dgs = flt.getDefaultGlyphSet()
            act = any(g.components for g in glyphs) and any(fc._haveNestedComponents(g, dgs) for g in glyphs)
            calls = []

            def logged(glyph, glyphSet, _c=calls):
                _c.append(id(glyph))
                return orig(glyph, glyphSet)

            fc._flattenGlyphComponents = logged
            flt.filter(name, glyphs)
            fc._flattenGlyphComponents = orig
            want = [id(gs[name]) for gs in gss if name in gs] if act else []
            if sorted(calls) != sorted(want):
                problems.append(("flatten: decision / action not joint over all masters", {"glyph": name, "acted_on": len(calls), "masters_with_glyph": len(glyphs), "should_act": act}))
    finally:
        fc._flattenGlyphComponents = orig
    return problems


# ---- I ------------------------------------------------------------------------------------------------------------------------
def check_icall(fam):
    """BaseIFilter.__call__ instrumented: filter(name, glyphs) is called once per name with the glyph of EVERY master that has it"""
    from contracts import c13rt
    from ufo2ft.filters.base import BaseIFilter

    ufos, gss, inst = c13rt.glyph_sets(fam)
    calls = []

    class Probe(BaseIFilter):
        def filter(self, glyphName, glyphs):
            calls.append((glyphName, [id(g) for g in glyphs]))
            return False

    Probe()(ufos, gss, inst)
    problems = []
    names = [c[0] for c in calls]
    allnames = {n for gs in gss for n in gs}
    if sorted(names) != sorted(allnames):
        problems.append(("filter not called exactly once per glyph name", {"called": sorted(names), "names": sorted(allnames)}))
    for name, ids in calls:
        want = [id(gs[name]) for gs in gss if name in gs]
        if ids != want:
            problems.append(("filter did not receive the same-named glyphs of all masters (in master order)", {"glyph": name, "received": len(ids), "masters_with_glyph": len(want)}))
            break
    return problems


# ---- R ------------------------------------------------------------------------------------------------------------------------
def check_replace(fam, rng):
    from contracts import c13rt

    ufos, gss, inst = c13rt.glyph_sets(dict(fam, instantiator=True))
    problems = []
    names = sorted(inst.glyph_names)
    probe = rng.choice([n for n in names if n != ".notdef"] or names)

    def warm():
        for il in inst.interpolated_layers:
            try:
                il._cache.clear()
                il._interpolate(probe)
            except Exception:
                pass

    warm()
    if not inst.glyph_mutators:
        return problems  # nothing got cached for this family: no information
    # 1. replacement with NEW layer objects
    inst.replace_source_layers(gss)
    if inst.glyph_mutators:
        problems.append(("glyph_mutators not cleared by replace_source_layers (new layer objects)", {"left": sorted(inst.glyph_mutators)}))
    if any(layer is not gs for (_, layer), gs in zip(inst.source_layers, gss)):
        problems.append(("source layers are not the new layers", {}))
    # 2. the pre-processor edits the SAME glyph sets in place and calls replace_source_layers again
    warm()
    moved = 0
    for gs in gss:
        g = gs.get(probe)
        if g is not None:
            for c in g:
                for p in c.points:
                    p.x += 40
                    moved += 1
    inst.replace_source_layers(gss)
    if inst.glyph_mutators:
        problems.append(("glyph_mutators not cleared by replace_source_layers when the same (edited in place) layers are installed again", {"left": sorted(inst.glyph_mutators)}))
    return problems


# ---- O ------------------------------------------------------------------------------------------------------------------------
def structure(tt, name):
    """point structure of a glyph: TrueType -> (components | per-contour on/off flags); CFF -> operator sequence per contour"""
    if "glyf" in tt:
        g = tt["glyf"][name]
        if g.isComposite():
            return ("composite", tuple((c.glyphName, tuple(round(v, 4) for row in getattr(c, "transform", ((1, 0), (0, 1))) for v in row)) for c in g.components))
        if g.numberOfContours <= 0:
            return ("empty",)
        flags = [f & 1 for f in g.flags]
        out, start = [], 0
        for e in g.endPtsOfContours:
            out.append(tuple(flags[start:e + 1]))
            start = e + 1
        return ("simple", tuple(out))
    from fontTools.pens.recordingPen import RecordingPen

    gs = tt.getGlyphSet()
    pen = RecordingPen()
    gs[name].draw(pen)
    if not pen.value:
        return ("empty",)
    return ("cff", tuple((op, len(args)) for op, args in pen.value))


def check_masters(tag, fonts, layer_names, fam, problems, component_closure=None):
    full = [f for f, ln in zip(fonts, layer_names) if ln is None]
    names = set()
    for f in fonts:
        names |= set(f.getGlyphOrder())
    for n in sorted(names):
        structs = {}
        for k, f in enumerate(fonts):
            if n in f.getGlyphOrder():
                st_ = structure(f, n)
                # sparse masters carry EMPTY placeholders ('.notdef', bases missing from the layer): not outlines to compare
                if layer_names[k] is not None and st_ == ("empty",):
                    continue
                structs[k] = st_
        if len(set(structs.values())) > 1:
            problems.append((tag, f"glyph {n} is not point-compatible across masters", {str(k): v for k, v in structs.items()}))
    # sparse masters: '.notdef' + the layer's glyphs + only glyphs tied to them by component references
    if component_closure is not None:
        for k, (f, ln) in enumerate(zip(fonts, layer_names)):
            if ln is None:
                continue
            allowed = component_closure[k]
            extra = [g for g in f.getGlyphOrder() if g not in allowed]
            if extra:
                problems.append((tag, f"sparse master {k} contains glyphs unrelated to its layer", {"extra": extra, "allowed": sorted(allowed)}))
            if ".notdef" not in f.getGlyphOrder():
                problems.append((tag, f"sparse master {k} lacks .notdef", {}))


def closure_for(fam):
    """per source index: names allowed in a sparse master = .notdef, the layer's glyphs, and glyphs connected to them by
    component references (in either direction, transitively) in any master"""
    out = {}
    edges = {}
    for m in fam["masters"]:
        for g, d in m["glyphs"].items():
            for base, _ in d.get("components", []):
                edges.setdefault(g, set()).add(base)
                edges.setdefault(base, set()).add(g)
    n = len(fam["masters"])
    for j, (idx, names) in enumerate(sorted((fam.get("sparse") or {}).items())):
        seen, todo = set(names), list(names)
        while todo:
            x = todo.pop()
            for y in edges.get(x, ()):
                if y not in seen:
                    seen.add(y)
                    todo.append(y)
        out[n + j] = seen | {".notdef"}
    return out


def observe(fam, variant):
    import ufo2ft
    from contracts import c13rt

    problems = []
    kw = {}
    if variant.get("flatten"):
        kw["flattenComponents"] = True
    skip = variant.get("skip") or []
    if variant["api"] == "ufos":
        f0 = dict(fam)
        f0.pop("sparse", None)
        ufos, layer_names, _ = c13rt.build_family(f0)
        fonts = list(ufo2ft.compileInterpolatableTTFs(ufos, skipExportGlyphs=skip, **kw))
        check_masters("ttf-ufos", fonts, layer_names, fam, problems)
    else:
        _, layer_names, ds = c13rt.build_family(dict(fam, ds_skip=skip))
        fn = ufo2ft.compileInterpolatableTTFsFromDS if variant["api"] == "ttf-ds" else ufo2ft.compileInterpolatableOTFsFromDS
        if variant["api"] == "otf-ds":
            kw.pop("flattenComponents", None)
        res = fn(ds, **kw)
        fonts = [s.font for s in res.sources]
        check_masters(variant["api"], fonts, layer_names, fam, problems, closure_for(fam))
    return problems


@hook("C09")
def c09_extra(tier, seed):
    import logging

    res = {"obligations": 0, "discharged": 0, "bounded": [], "violations": [], "checker_errors": [], "evaluations": 0, "distinct": 0, "trusted": [], "assumptions": []}
    logging.disable(logging.CRITICAL)
    try:
        _run(tier, seed, res)
    finally:
        logging.disable(logging.NOTSET)
    return res


def _section(res, name, what, bound, fn):
    try:
        ev, probs = fn()
    except Exception:
        res["checker_errors"].append(f"C09 hook section {name} crashed: " + traceback.format_exc()[-1200:])
        return
    res["evaluations"] += ev
    res["distinct"] += ev
    res["bounded"].append({"what": what, "bound": bound(ev), "failures": len(probs)})
    for what_, detail, inp in probs[:2]:
        res["violations"].append(_violation(f"C09.{name}", {"what": what_, "observed": detail, "input": inp}))


def _run(tier, seed, res):
    rng = random.Random(seed + 900)
    quick = tier == "quick"

    def sec_p():
        probs, ev = [], 0
        for k in range(6 if quick else 300):
            fam = family(rng, ("box", "cubic"), vary2x2=(k % 4 if k % 2 else None), sparse=k % 3 == 0, mixed_only_in=(k % 3 if k % 2 == 0 else None))
            ev += 1
            probs += [(w, d, fam) for w, d in check_process(fam)]
            if probs:
                break
        return ev, probs

    _section(res, "process", "TTFInterpolatablePreProcessor.process instrumented: needs_decomposition = union over ALL glyph sets; decompose filter include; fonts_to_quadratic on all glyph sets",
             lambda ev: f"{ev} generated families (incl. a glyph that is mixed in ONE non-default master only, sparse layers)", sec_p)

    def sec_n():
        probs, ev = [], 0
        for k in range(40 if quick else 1500):
            ev += 1
            ps, inp = check_nonmatching(rng)
            probs += [(w, d, inp) for w, d in ps]
            if probs:
                break
        return ev, probs

    _section(res, "check_for_nonmatching_components", "check_for_nonmatching_components: every single 2x2 entry (xx, xy, yx, yy) differing in one master schedules the composite; offsets do not; monotone",
             lambda ev: f"{ev} generated 2-4 master component tables", sec_n)

    def sec_f():
        probs, ev = [], 0
        for k in range(5 if quick else 100):
            fam = family(rng, ("box",), sparse=k % 2 == 0)
            ev += 1
            probs += [(w, d, fam) for w, d in check_flatten(fam)]
            if probs:
                break
        return ev, probs

    _section(res, "FlattenComponentsIFilter.filter", "FlattenComponentsIFilter.filter instrumented: joint decision, action on every master that has the glyph",
             lambda ev: f"{ev} generated families x every glyph name", sec_f)

    def sec_i():
        probs, ev = [], 0
        for k in range(5 if quick else 100):
            fam = family(rng, ("box",), sparse=k % 2 == 0)
            ev += 1
            probs += [(w, d, fam) for w, d in check_icall(fam)]
            if probs:
                break
        return ev, probs

    _section(res, "BaseIFilter.__call__", "BaseIFilter.__call__ instrumented: filter(name, glyphs) once per name, glyphs = the same-named glyph of every master that has it",
             lambda ev: f"{ev} generated families (sparse layers in half of them)", sec_i)

    def sec_r():
        probs, ev = [], 0
        for k in range(5 if quick else 100):
            fam = family(rng, ("box", "cubic"), sparse=True)
            ev += 1
            probs += [(w, d, fam) for w, d in check_replace(fam, rng)]
            if probs:
                break
        return ev, probs

    _section(res, "Instantiator.replace_source_layers", "replace_source_layers empties glyph_mutators (new layer objects AND the same objects edited in place) and installs the layers",
             lambda ev: f"{ev} generated designspaces with a sparse layer", sec_r)

    def sec_o():
        probs, ev = [], 0
        variants = [{"api": "ttf-ds"}, {"api": "ufos"}, {"api": "otf-ds"}, {"api": "ttf-ds", "flatten": True}, {"api": "ttf-ds", "skip": True}]
        for k in range(8 if quick else 600):
            curves = [("box",), ("cubic", "box"), ("quad", "box"), ("cubic", "quad", "box")][k % 4]
            fam = family(rng, curves, vary2x2=(k % 4 if k % 2 == 0 else None), sparse=(k % 3 != 1))
            v = dict(variants[k % len(variants)])
            if v.get("skip"):
                names = [g for g in fam["masters"][0]["glyphs"] if g != ".notdef"]
                v["skip"] = [g for g in names if rng.random() < 0.3]
            ev += 1
            probs += [(f"{tag}: {w}", d, {"family": fam, "variant": v}) for tag, w, d in observe(fam, v)]
            if probs:
                break
        return ev, probs

    _section(res, "observer.point-compatibility", "observer: interpolatable masters of perturbed compatible families are point-compatible (contours, point counts, on/off types, component lists incl. 2x2); sparse master content",
             lambda ev: f"{ev} families x one of (TTF from DS, TTF from UFOs, OTF from DS, flattenComponents, skipExportGlyphs); 2x2 entry varied alone in half of them", sec_o)
    res["trusted"] += ["fontTools cu2qu fonts_to_quadratic (joint conversion), glyf / CFF decoding in the observer"]
