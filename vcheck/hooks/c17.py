"""C17 — bounded parts: conformance of the assumed summaries, exhaustive finite-domain check of `_insert`, end-to-end observer.

Everything here runs the REAL code of the tree under check (VERIF_REPO) natively; nothing in this file is counted as proved.
`python -m vcheck.hooks.c17 replay <file>` re-runs one recorded case.
"""
from __future__ import annotations

import itertools
import json
import os
import random
import sys
import time
import traceback

from vcheck.extra import hook

ROOT = os.path.dirname(os.path.dirname(os.path.dirname(os.path.abspath(__file__))))
OUT = os.environ.get("VERIF_OUT", os.path.join(ROOT, "out"))
MARKER = r"\s*# Automatic Code.*"


class Report:
    """collects bounded-check results in the shape vcheck.extra expects"""

    def __init__(self, pid):
        self.pid = pid
        self.bounded = []
        self.violations = []
        self.errors = []
        self.evaluations = 0
        self.distinct = 0
        self._seen = set()

    def part(self, name, what, bound, cases, failures, func=None):
        self.evaluations += cases
        self.distinct += cases
        self.bounded.append({"name": name, "what": what, "bound": bound, "cases": cases, "failures": len(failures)})
        for clause, case, detail in failures[:2]:
            key = (name, clause)
            if key in self._seen:
                continue
            self._seen.add(key)
            d = os.path.join(OUT, self.pid, "replay")
            os.makedirs(d, exist_ok=True)
            fn = "".join(ch if ch.isalnum() or ch in "._-" else "_" for ch in f"hook.{name}.{clause}") + ".json"
            p = os.path.join(d, fn)
            with open(p, "w") as f:
                json.dump({"property": self.pid, "part": name, "clause": clause, "case": case, "observed": detail, "function": func,
                           "rerun": f".venv/bin/python -m vcheck.hooks.{self.pid.lower()} replay {p}"}, f, indent=1, default=str)
            self.violations.append(f"VIOLATION property={self.pid} replay={p} obligation={self.pid}.bounded.{name}.{clause}")

    def error(self, msg):
        self.errors.append(msg)

    def result(self, **extra):
        r = {"bounded": self.bounded, "violations": self.violations, "checker_errors": self.errors, "evaluations": self.evaluations, "distinct": self.distinct}
        r.update(extra)
        return r


def guarded(rep, name, f):
    import logging

    logging.disable(logging.CRITICAL)
    try:
        f()
    except Exception:
        rep.error(f"{rep.pid} hook part {name} crashed: {traceback.format_exc()[-1200:]}")
    finally:
        logging.disable(logging.NOTSET)


# =====================================================================================================================
# 1. conformance of the assumed summaries used by contracts/c17.py


def _conformance_cases(tier):
    from contracts import c17

    rng = random.Random(17)
    cases = c17._fea_cases(rng, 120 if tier == "quick" else 1500)
    extra = [
        "feature kern {\n    lookup a {\n        # Automatic Code\n    } a;\n    # Automatic Code\n} kern;\n",
        "table GDEF {\n    # Automatic Code\n} GDEF;\nfeature kern {\n    # c\n    # Automatic Code x\n} kern;\n",
        "",
    ]
    for e in extra:
        cases.append({"fea": e, "features": ["kern"], "mode": "skip", "marker": MARKER})
    return cases


def check_summary(case):
    """-> list of (clause, detail) failures for one feature file"""
    from contracts import c17
    from contracts import c17_model as M
    from ufo2ft.featureWriters import ast

    fails = []
    fea = c17.parse_fea(case["fea"])
    # findFeatureTags == featureTags view, and a NEW set each time
    a, b = ast.findFeatureTags(fea), ast.findFeatureTags(fea)
    if a != M.feature_tags(fea) or a is b or not isinstance(a, set):
        fails.append(("findFeatureTags", f"{a!r} vs {M.feature_tags(fea)!r}"))
    pat = case["marker"] or MARKER
    got = [list(m) for m in ast.findCommentPattern(fea, pat)]
    want = [[M.raw(x) for x in m] for m in c17.comment_matches(fea, pat)]
    if len(got) != len(want) or any(len(g) != len(w) or any(x is not y for x, y in zip(g, w)) for g, w in zip(got, want)):
        fails.append(("findCommentPattern", f"{[[type(x).__name__ for x in m] for m in got]} vs {[[type(x).__name__ for x in m] for m in want]}"))
    from pyvc import rt

    env = {"MM": [[M.P(x) for x in m] for m in got], "feaFile": M.P(fea)}
    try:
        ok = eval(compile(rt.parse_clause(c17.MATCH_SHAPE), "<shape>", "eval"), env)
    except Exception as e:  # noqa
        ok = False
        fails.append(("findCommentPattern.shape", repr(e)))
    if not ok:
        fails.append(("findCommentPattern.shape", "match-shape facts assumed by the contracts do not hold"))
    return fails


def ctor_conformance():
    """the constructor model of contracts/c17_model.py: argument p is stored as attribute p; blocks start empty"""
    from fontTools.feaLib import ast as fa

    fails = []
    probes = [
        (fa.ScriptStatement, ("latn",), {}, {"script": "latn"}),
        (fa.LanguageStatement, ("TRK ",), {"include_default": False}, {"language": "TRK ", "include_default": False, "required": False}),
        (fa.LanguageStatement, ("dflt",), {}, {"language": "dflt", "include_default": True}),
        (fa.Comment, ("# x",), {}, {"text": "# x"}),
        (fa.FeatureBlock, ("kern",), {}, {"name": "kern", "statements": []}),
        (fa.LookupBlock, (), {"name": "l"}, {"name": "l", "statements": []}),
        (fa.TableBlock, ("GDEF",), {}, {"name": "GDEF", "statements": []}),
        (fa.LookupFlagStatement, (9,), {}, {"value": 9, "markAttachment": None, "markFilteringSet": None}),
        (fa.GlyphClassDefStatement, (1, 2, 3, 4), {}, {"baseGlyphs": 1, "markGlyphs": 2, "ligatureGlyphs": 3, "componentGlyphs": 4}),
        (fa.LigatureCaretByPosStatement, ("g", [1]), {}, {"glyphs": "g", "carets": [1]}),
        (fa.CursivePosStatement, ("g", 1, 2), {}, {"glyphclass": "g", "entryAnchor": 1, "exitAnchor": 2}),
        (fa.Anchor, (), {"x": 1, "y": 2}, {"x": 1, "y": 2}),
        (fa.GlyphName, ("a",), {}, {"glyph": "a"}),
    ]
    lk = fa.LookupBlock("l")
    probes.append((fa.LookupReferenceStatement, (lk,), {}, {"lookup": lk}))
    for k, a, kw, want in probes:
        o = k(*a, **kw)
        for attr, v in want.items():
            if getattr(o, attr, "<missing>") != v:
                fails.append(("feaLib-constructor", f"{k.__name__}.{attr} = {getattr(o, attr, '<missing>')!r}, model says {v!r}"))
    return len(probes), fails


# =====================================================================================================================
# 2. `_insert`: exhaustive over a finite domain of user files

ITEMS = "CRM"  # comment, rule, marker


def _mk_block(fa, tag, items, counter):
    b = fa.FeatureBlock(tag)
    for it in items:
        counter[0] += 1
        if it == "C":
            b.statements.append(fa.Comment(f"# user comment {counter[0]}"))
        elif it == "M":
            b.statements.append(fa.Comment("# Automatic Code"))
        else:
            b.statements.append(fa.SinglePosStatement([(fa.GlyphName("a"), fa.ValueRecord(xAdvance=counter[0]))], [], [], False))
    return b


def build_insert_case(case):
    """case = {top: [["S"] | [tag, items]...], features: [tags], lookups: n, classdefs: n} -> (writer, feaFile, generated dict)"""
    from fontTools.feaLib import ast as fa

    from ufo2ft.featureWriters.baseFeatureWriter import BaseFeatureWriter

    class _W(BaseFeatureWriter):
        tableTag = "GPOS"
        features = frozenset(["kern", "dist", "mark", "mkmk"])

    counter = [0]
    fea = fa.FeatureFile()
    for el in case["top"]:
        if el[0] == "S":
            counter[0] += 1
            fea.statements.append(fa.LanguageSystemStatement("DFLT", "dflt") if counter[0] == 1 else fa.LookupBlock(f"user{counter[0]}"))
        else:
            fea.statements.append(_mk_block(fa, el[0], el[1], counter))
    w = _W(features=case["features"])
    gen = {
        "features": [fa.FeatureBlock(t) for t in case["features"]],
        "lookups": [fa.LookupBlock(f"gen{i}") for i in range(case.get("lookups", 0))],
        "classDefs": [fa.GlyphClassDefinition(f"genclass{i}", fa.GlyphClass([fa.GlyphName("a")])) for i in range(case.get("classdefs", 0))],
    }
    for f in gen["features"]:
        f.statements.append(fa.Comment("# generated"))
    return w, fea, gen


def _atoms(fea, generated_ids):
    """flattened user content: (context tag or None, node) in document order, generated nodes skipped"""
    from fontTools.feaLib import ast as fa

    out = []
    for pos, s in enumerate(fea.statements):
        if id(s) in generated_ids:
            continue
        if isinstance(s, fa.FeatureBlock):
            for x in s.statements:
                out.append((s.name, x, pos))
        else:
            out.append((None, s, pos))
    return out


def check_insert(case):
    """run the real setContext + _insert on the case and evaluate the C17 clauses; -> list of (clause, detail)"""
    import re

    from fontTools.feaLib import ast as fa

    w, fea, gen = build_insert_case(case)
    before = _atoms(fea, set())
    before_top = list(fea.statements)
    original_ids = {id(s) for s in fea.statements} | {id(x) for _, x, _ in before}
    ctx = w.setContext(None, fea)
    todo = [f for f in gen["features"] if f.name in ctx.todo]
    fails = []
    if not todo:
        return fails
    # the marker consumed for each generated feature that has one (first marker, direct child of a top-level block of that tag)
    consumed = {}
    for f in todo:
        for s in before_top:
            if isinstance(s, fa.FeatureBlock) and s.name == f.name and f.name not in consumed:
                for x in s.statements:
                    if isinstance(x, fa.Comment) and re.match(MARKER, str(x)):
                        consumed[f.name] = (s, x, list(s.statements))
                        break
    w._insert(feaFile=fea, classDefs=gen["classDefs"] or None, lookups=gen["lookups"] or None, features=todo)
    gen_ids = {id(x) for k in gen for x in gen[k]}
    top = fea.statements
    # (P7) every generated node exactly once at top level
    for f in todo + gen["lookups"] + gen["classDefs"]:
        if sum(1 for s in top if s is f) != 1:
            fails.append(("generated-once", f"{type(f).__name__} {getattr(f, 'name', '')} occurs {sum(1 for s in top if s is f)} times"))
    fresh = [s for s in top if id(s) not in original_ids and id(s) not in gen_ids]
    after = _atoms(fea, gen_ids | {id(s) for s in fresh if not isinstance(s, fa.FeatureBlock)})
    # (P1) every user statement that is not a comment survives, in order, under the same feature tag
    rules_before = [(t, x) for t, x, _ in before if not isinstance(x, fa.Comment)]
    rules_after = [(t, x) for t, x, _ in after if not isinstance(x, fa.Comment)]
    if [(t, id(x)) for t, x in rules_before] != [(t, id(x)) for t, x in rules_after]:
        fails.append(("user-statements-preserved-in-order", f"{len(rules_before)} user statements before, {len(rules_after)} after (or order/tag changed)"))
    # (P2) comments: only the consumed marker disappears — or all comments of a block that held nothing but comments and the marker
    gone = [x for t, x, _ in before if isinstance(x, fa.Comment) and not any(y is x for _, y, _ in after)]
    for x in gone:
        ok = any(x is c for _, c, _ in consumed.values()) or any(
            any(x is y for y in stmts) and all(isinstance(y, fa.Comment) for y in stmts) for _, _, stmts in consumed.values()
        )
        if not ok:
            fails.append(("only-marker-removed", f"comment {str(x)!r} disappeared"))
    for tag, (blk, c, stmts) in consumed.items():
        if any(y is c for _, y, _ in after):
            fails.append(("marker-removed", f"marker of {tag} still present"))
    # fresh feature blocks must be split halves: same tag as the split block, no fresh statements inside
    for s in fresh:
        if isinstance(s, fa.FeatureBlock):
            if s.name not in consumed or any(id(x) not in original_ids for x in s.statements):
                fails.append(("fresh-nodes-only-generated", f"unexpected new feature block {s.name}"))
        elif not (isinstance(s, fa.Comment) and s.text == ""):
            fails.append(("fresh-nodes-only-generated", f"unexpected new top-level {type(s).__name__}"))
    # (P3) position of a generated feature relative to the hand-written rules around its marker
    pos_of = {id(x): p for _, x, p in after}
    for f in todo:
        if f.name not in consumed:
            continue
        blk, c, stmts = consumed[f.name]
        m = next(i for i, y in enumerate(stmts) if y is c)
        fpos = next(i for i, s in enumerate(top) if s is f)
        for y in stmts[:m]:
            if not isinstance(y, fa.Comment) and not (id(y) in pos_of and pos_of[id(y)] < fpos):
                fails.append(("generated-after-rules-before-marker", f"{f.name}: generated block at {fpos}, earlier rule at {pos_of.get(id(y))}"))
        for y in stmts[m + 1:]:
            if not isinstance(y, fa.Comment) and not (id(y) in pos_of and pos_of[id(y)] > fpos):
                fails.append(("generated-before-rules-after-marker", f"{f.name}: generated block at {fpos}, later rule at {pos_of.get(id(y))}"))
    # (P4) an unmarked generated feature keeps its place before the next generated feature; trailing ones go to the end, in order
    idx = {f.name: next((i for i, s in enumerate(top) if s is f), -1) for f in todo}
    for a, b in zip(todo, todo[1:]):
        if a.name not in consumed and not idx[a.name] < idx[b.name]:
            fails.append(("dependent-features-in-order", f"{a.name}@{idx[a.name]} !< {b.name}@{idx[b.name]}"))
    last_user = max([p for _, _, p in after] or [-1])
    trailing = []
    for f in reversed(todo):
        if f.name in consumed:
            break
        trailing.append(f)
    for f in trailing:
        if not idx[f.name] > last_user:
            fails.append(("unmarked-features-appended-at-end", f"{f.name}@{idx[f.name]} not after the last user statement @{last_user}"))
    # (P5) lookups: contiguous, in order, immediately before the first generated feature
    if gen["lookups"]:
        first = min(idx.values())
        want = list(range(first - len(gen["lookups"]), first))
        got = [next((i for i, s in enumerate(top) if s is l), -1) for l in gen["lookups"]]
        if got != want:
            fails.append(("lookups-before-first-generated-feature", f"lookups at {got}, first generated feature at {first}"))
    # (P6) class definitions at the very top, in order
    if gen["classDefs"]:
        if [id(s) for s in top[: len(gen["classDefs"])]] != [id(c) for c in gen["classDefs"]]:
            fails.append(("classdefs-at-top", "generated class definitions are not the first statements"))
    return fails


def insert_domain(tier):
    maxlen = 3 if tier == "quick" else 5
    seqs = [list(p) for n in range(1, maxlen + 1) for p in itertools.product(ITEMS, repeat=n)]
    dist_blocks = [None, ["R"], ["M", "R"], ["R", "M"], ["M"], ["R", "M", "R"]]
    for ks in seqs:
        for db in dist_blocks:
            for pre in (False, True):
                for post in (False, True):
                    top = ([["S"]] if pre else []) + [["kern", ks]] + ([["dist", db]] if db else []) + ([["S"]] if post else [])
                    for feats in (["kern"], ["kern", "dist"], ["dist"]):
                        yield {"top": top, "features": feats, "lookups": 2 if pre else 0, "classdefs": 1 if post else 0}
    # two blocks of the same tag, marker in the second / in both; dist before kern; mark/mkmk dependents
    two = [["R"], ["M", "R"], ["R", "M"], ["R", "M", "R"], ["M"], ["C", "M"]]
    for a in two:
        for b in two:
            yield {"top": [["S"], ["kern", a], ["S"], ["kern", b]], "features": ["kern", "dist"], "lookups": 1, "classdefs": 0}
            yield {"top": [["dist", a], ["kern", b]], "features": ["kern", "dist"], "lookups": 1, "classdefs": 1}
            yield {"top": [["mkmk", a], ["S"], ["mark", b]], "features": ["mark", "mkmk"], "lookups": 2, "classdefs": 0}
            yield {"top": [["mkmk", a]], "features": ["mark", "mkmk"], "lookups": 2, "classdefs": 0}


# =====================================================================================================================
# 3. end-to-end observer: user statements survive in order, GSUB bytes identical, no duplicated user feature

GSUB_BLOCKS = [
    "feature liga {\n    sub f i by f_i;\n} liga;\n",
    "feature ccmp {\n    lookup ccmp1 {\n        sub a by a.alt;\n    } ccmp1;\n} ccmp;\n",
    "lookup standalone {\n    sub a.alt by a;\n} standalone;\n",
]
KERN_VARIANTS = {
    "none": "",
    "plain": "feature kern {\n    pos a b -11;\n} kern;\n",
    "top": "feature kern {\n    # Automatic Code\n    pos a b -11;\n} kern;\n",
    "bottom": "feature kern {\n    pos a b -11;\n    # Automatic Code\n} kern;\n",
    "middle": "feature kern {\n    pos a b -11;\n    # Automatic Code\n    pos b a -12;\n} kern;\n",
    "alone": "feature kern {\n    # Automatic Code\n} kern;\n",
    "miscased": "feature kern {\n    # automatic code\n    pos a b -11;\n} kern;\n",
    "padded": "feature kern {\n    # Automatic Code\n    #\n    pos a b -11;\n    pos b a -12;\n} kern;\n",
}
MARK_VARIANTS = {
    "none": "",
    "plain": "markClass acutecomb <anchor 0 500> @MC_user;\nfeature mark {\n    pos base a <anchor 100 400> mark @MC_user;\n} mark;\n",
    "top": "markClass acutecomb <anchor 0 500> @MC_user;\nfeature mark {\n    # Automatic Code\n    pos base a <anchor 100 400> mark @MC_user;\n} mark;\n",
    "bottom": "markClass acutecomb <anchor 0 500> @MC_user;\nfeature mark {\n    pos base a <anchor 100 400> mark @MC_user;\n    # Automatic Code\n} mark;\n",
}
MKMK_VARIANTS = {
    "none": "",
    "plain": "markClass tildecomb <anchor 0 500> @MC_user2;\nfeature mkmk {\n    pos mark acutecomb <anchor 0 700> mark @MC_user2;\n} mkmk;\n",
    "miscased": "markClass tildecomb <anchor 0 500> @MC_user2;\nfeature mkmk {\n    # AUTOMATIC CODE\n    pos mark acutecomb <anchor 0 700> mark @MC_user2;\n} mkmk;\n",
}
GDEF_VARIANTS = {"none": "", "user": "table GDEF {\n    GlyphClassDef [a b], [f_i], [acutecomb tildecomb], ;\n} GDEF;\n"}


def observer_ufo(case):
    import ufoLib2

    ufo = ufoLib2.Font()
    ufo.info.unitsPerEm = 1000
    ufo.info.ascender = 800
    ufo.info.descender = -200
    for name, uni, anchors in [
        (".notdef", None, []), ("a", 0x61, [("top", 100, 400)]), ("b", 0x62, [("top", 110, 410)]), ("f", 0x66, []), ("i", 0x69, []),
        ("f_i", None, [("top_1", 50, 400), ("top_2", 150, 400)]), ("a.alt", None, [("top", 90, 400)]),
        ("acutecomb", 0x301, [("_top", 0, 500), ("top", 0, 700)]), ("tildecomb", 0x303, [("_top", 0, 500), ("top", 0, 700)]),
    ]:
        g = ufo.newGlyph(name)
        g.width = 0 if "comb" in name else 500
        if uni is not None:
            g.unicodes = [uni]
        for an, x, y in anchors:
            g.appendAnchor({"name": an, "x": x, "y": y})
        pen = g.getPen()
        pen.moveTo((0, 0)); pen.lineTo((10, 0)); pen.lineTo((10, 10)); pen.closePath()
    ufo.kerning[("a", "b")] = -30
    ufo.kerning[("b", "a")] = -20
    ufo.lib["public.openTypeCategories"] = {"a": "base", "b": "base", "f_i": "ligature", "acutecomb": "mark", "tildecomb": "mark"}
    ufo.features.text = case["fea"]
    if case.get("lib_writers"):
        ufo.lib["com.github.googlei18n.ufo2ft.featureWriters"] = case["lib_writers"]
    return ufo


def assemble(case):
    parts = ["languagesystem DFLT dflt;\nlanguagesystem latn dflt;\n"]
    order = case.get("order", ["gsub0", "kern", "gsub1", "mark", "mkmk", "gsub2", "gdef"])
    for o in order:
        if o.startswith("gsub"):
            k = int(o[4:])
            if k < case.get("gsub", 3):
                parts.append(GSUB_BLOCKS[k])
        elif o == "kern":
            parts.append(KERN_VARIANTS[case["kern"]])
        elif o == "mark":
            parts.append(MARK_VARIANTS[case["mark"]])
        elif o == "mkmk":
            parts.append(MKMK_VARIANTS[case["mkmk"]])
        elif o == "gdef":
            parts.append(GDEF_VARIANTS[case["gdef"]])
    return "".join(parts)


def _flat(text, glyphs):
    """(context tag, statement text) for every non-comment statement: inner statements of top-level feature blocks, whole other statements"""
    from io import StringIO

    from fontTools.feaLib import ast as fa
    from fontTools.feaLib.parser import Parser

    doc = Parser(StringIO(text), glyphNames=glyphs, followIncludes=False).parse()
    out = []
    for s in doc.statements:
        if isinstance(s, fa.Comment):
            continue
        if isinstance(s, fa.FeatureBlock):
            for x in s.statements:
                if not isinstance(x, fa.Comment):
                    out.append((s.name, " ".join(x.asFea().split())))
        else:
            out.append((None, " ".join(s.asFea().split())))
    return out, doc


def _writers_arg(case):
    import ufo2ft.featureWriters as FW

    how = case.get("writers", "default")
    if how == "default":
        return None
    if how == "explicit-ellipsis":
        return [..., FW.KernFeatureWriter(features=["dist"])]
    if how == "explicit":
        return [FW.MarkFeatureWriter, FW.KernFeatureWriter, FW.GdefFeatureWriter, FW.CursFeatureWriter]
    if how == "append":
        return [FW.KernFeatureWriter(mode="append"), FW.MarkFeatureWriter(mode="append"), FW.GdefFeatureWriter]
    raise ValueError(how)


def _compile(ufo, writers):
    from fontTools.ttLib import TTFont

    from ufo2ft.featureCompiler import FeatureCompiler
    from ufo2ft.outlineCompiler import OutlineTTFCompiler

    tt = OutlineTTFCompiler(ufo).compile()
    fc = FeatureCompiler(ufo, tt, featureWriters=writers)
    fc.compile()
    return tt, fc.features


def check_observer(case):
    case = dict(case)
    case["fea"] = assemble(case)
    fails = []
    ufo = observer_ufo(case)
    glyphs = set(ufo.keys())
    tt0, _ = _compile(observer_ufo(case), [])
    tt1, src = _compile(ufo, _writers_arg(case))
    user, udoc = _flat(case["fea"], glyphs)
    outp, odoc = _flat(src, glyphs)
    # (O1) every user statement survives unchanged, in the same order, under the same feature tag
    it = iter(outp)
    missing = [u for u in user if not any(u == o for o in it)]
    if missing:
        fails.append(("user-statements-survive-in-order", f"not found in order in the compiled feature source: {missing[:3]}"))
    # (O2) GSUB bytes identical with and without the automatic writers
    g0 = tt0["GSUB"].compile(tt0) if "GSUB" in tt0 else None
    g1 = tt1["GSUB"].compile(tt1) if "GSUB" in tt1 else None
    if g0 != g1:
        fails.append(("gsub-bytes-identical", f"GSUB differs: {None if g0 is None else len(g0)} vs {None if g1 is None else len(g1)} bytes"))
    # (O3) a feature the user wrote without the (correctly cased) marker is not duplicated / extended in skip mode
    from fontTools.feaLib import ast as fa

    if case.get("writers", "default") != "append":
        for tag, variant in (("kern", case["kern"]), ("mark", case["mark"]), ("mkmk", case["mkmk"])):
            n_user = sum(1 for s in udoc.statements if isinstance(s, fa.FeatureBlock) and s.name == tag)
            n_out = sum(1 for s in odoc.statements if isinstance(s, fa.FeatureBlock) and s.name == tag)
            if variant in ("plain", "miscased") and n_out != n_user:
                fails.append(("unmarked-user-feature-not-duplicated", f"{tag}: {n_user} user block(s), {n_out} in the compiled source"))
            if variant == "none" and n_out != 1:
                fails.append(("missing-feature-generated", f"{tag}: expected one generated block, found {n_out}"))
            if variant in ("top", "bottom", "middle", "alone", "padded") and n_out < 1 + (0 if variant == "alone" else 1):
                fails.append(("marked-feature-generated", f"{tag}: {n_out} blocks in the compiled source"))
    # (O4) generated kern lookups sit at the marker's position relative to the hand-written rules
    if case["kern"] in ("top", "bottom", "middle", "padded") and case.get("writers", "default") != "append":
        seq = [o for o in outp if o[0] == "kern"]
        texts = [t for _, t in seq]
        gen = [i for i, t in enumerate(texts) if t.startswith("lookup kern_") or t.startswith("script ") or t.startswith("language ")]
        r1 = [i for i, t in enumerate(texts) if t == "pos a b -11;"]
        r2 = [i for i, t in enumerate(texts) if t == "pos b a -12;"]
        if not gen or not r1:
            fails.append(("marker-position", f"kern statements in the compiled source: {texts}"))
        else:
            if case["kern"] in ("top", "padded") and not max(gen) < r1[0]:
                fails.append(("marker-position", f"top marker: generated {gen} not before the rule {r1}"))
            if case["kern"] == "bottom" and not min(gen) > r1[0]:
                fails.append(("marker-position", f"bottom marker: generated {gen} not after the rule {r1}"))
            if case["kern"] == "middle" and not (r2 and r1[0] < min(gen) and max(gen) < r2[0]):
                fails.append(("marker-position", f"middle marker: rule {r1} generated {gen} rule {r2}"))
    return fails


def observer_domain(tier):
    cases = []
    for kern in KERN_VARIANTS:
        for mark, mkmk in (("none", "none"), ("plain", "none"), ("top", "plain"), ("bottom", "miscased"), ("none", "plain")):
            cases.append({"kern": kern, "mark": mark, "mkmk": mkmk, "gdef": "none", "gsub": 3, "writers": "default"})
    for kern in ("top", "middle", "plain"):
        for writers in ("explicit", "explicit-ellipsis", "append"):
            cases.append({"kern": kern, "mark": "top", "mkmk": "plain", "gdef": "user", "gsub": 2, "writers": writers})
    cases.append({"kern": "middle", "mark": "bottom", "mkmk": "none", "gdef": "user", "gsub": 3, "writers": "default",
                  "lib_writers": [{"class": "KernFeatureWriter"}, {"class": "MarkFeatureWriter"}]})
    if tier != "quick":
        orders = [["kern", "gsub0", "mark", "gsub1", "mkmk", "gsub2", "gdef"], ["gsub0", "gsub1", "gsub2", "mkmk", "mark", "kern", "gdef"], ["gdef", "mark", "kern", "gsub0", "mkmk"]]
        for order in orders:
            for kern in KERN_VARIANTS:
                for mark in MARK_VARIANTS:
                    for mkmk in MKMK_VARIANTS:
                        cases.append({"kern": kern, "mark": mark, "mkmk": mkmk, "gdef": "none", "gsub": 3, "writers": "default", "order": order})
    return cases


# =====================================================================================================================


def _run(tier, seed):
    rep = Report("C17")
    t0 = time.time()

    def part1():
        fails = []
        cases = _conformance_cases(tier)
        for c in cases:
            for cl, d in check_summary(c):
                fails.append((cl, c, d))
        rep.part("summary-conformance", "call-site summary of the recursive generator ast.findCommentPattern (assumed by the collectInsertMarkers proof) agrees with the real helper; "
                 "ast.findFeatureTags returns a NEW set equal to the reference definition of featureTags (the helper itself is under contract, this is the native view's conformance)",
                 f"{len(cases)} generated feature files (blocks x markers at top/middle/bottom/alone/mis-cased/nested/root)", len(cases), fails, "contracts.c17.check via vcheck.hooks.c17.check_summary")
        n, f2 = ctor_conformance()
        rep.part("fealib-constructor-model", "feaLib constructors store each argument under the attribute of the same name (model used by the contracts)", f"{n} constructor probes", n, [(c, {}, d) for c, d in f2])

    def part2():
        fails = []
        n = 0
        maxlen = 3 if tier == "quick" else 5
        for c in insert_domain(tier):
            n += 1
            try:
                for cl, d in check_insert(c):
                    fails.append((cl, c, d))
            except Exception as e:  # noqa
                fails.append(("no-exception", c, "".join(traceback.format_exception_only(type(e), e)).strip()))
        rep.part("insert", "BaseFeatureWriter._insert on real feaLib objects: user statements kept in order under their tag, only the marker comment removed, split keeps both halves, "
                 "generated block at the marker's position, dependents in order, lookups before the first generated feature, class definitions on top",
                 f"exhaustive: kern block = every sequence over {{comment, rule, marker}} up to length {maxlen} x 6 dist blocks x prefix/suffix statements x 3 feature lists, plus two-block and dependent-feature shapes",
                 n, fails, "vcheck.hooks.c17.check_insert")

    def part3():
        fails = []
        cases = observer_domain(tier)
        for c in cases:
            try:
                for cl, d in check_observer(c):
                    fails.append((cl, c, d))
            except Exception as e:  # noqa
                fails.append(("compiles", c, traceback.format_exc()[-800:]))
        rep.part("observer", "compiled feature source parsed back: every user statement survives in order; GSUB bytes identical with featureWriters=[] and with writers; unmarked user features not duplicated; generated kern at the marker",
                 f"{len(cases)} UFOs (kern marker variants x mark/mkmk variants x writer lists: default, lib, explicit, ellipsis, append); user lookups with UseMarkFilteringSet are NOT generated (known finding F8, see notes/C17.md)",
                 len(cases), fails, "vcheck.hooks.c17.check_observer")

    guarded(rep, "summary-conformance", part1)
    guarded(rep, "insert", part2)
    guarded(rep, "observer", part3)
    return rep.result(
        assumptions=[
            "C17: the recursive generator ast.findCommentPattern enters the collectInsertMarkers proof as a call-site summary (`yield (statement, *res)` is outside the pyvc subset); validated by bounded conformance only",
            "C17: BaseFeatureWriter._insert is under deductive contract for calls with ONE generated feature (contracts/c17_insert.py); calls with two or more generated features "
            "(dependent features, interplay of two markers) are checked by exhaustive enumeration of a finite domain of block shapes (bounded) only",
        ],
        explanation="",
    )


@hook("C17")
def c17_hook(tier, seed):
    return _run(tier, seed)


def f8_probe():
    """the recorded finding F8 on the tree under check: a marker placed BEFORE a user GSUB lookup that uses a mark filtering set; the generated
    kern lookup for a spacing mark allocates filtering set 0, the user's lookup moves to set 1 (same semantics, different GSUB bytes)"""
    import logging

    logging.disable(logging.CRITICAL)
    fea = ("languagesystem DFLT dflt;\n@MFS_user = [tildecomb];\nfeature kern {\n    # Automatic Code\n} kern;\n"
           "feature ccmp {\n    lookup u1 {\n        lookupflag UseMarkFilteringSet @MFS_user;\n        sub a by a.alt;\n    } u1;\n} ccmp;\n")
    out = {}
    for writers in ([], None):
        ufo = observer_ufo({"fea": fea})
        ufo["acutecomb"].width = 100  # a spacing mark: the kern writer builds a lookup with UseMarkFilteringSet
        ufo.kerning[("a", "acutecomb")] = -15
        tt, src = _compile(ufo, writers)
        lk = tt["GSUB"].table.LookupList.Lookup[0]
        out["without writers" if writers == [] else "with writers"] = (lk.LookupFlag, getattr(lk, "MarkFilteringSet", None), len(tt["GSUB"].compile(tt)))
    for k, v in out.items():
        print(k, "-> user GSUB lookup flag, MarkFilteringSet, GSUB length:", v)
    return out


def f9_probe():
    """finding F-C17-2 (latent: no built-in writer calls `_insert` this way): three generated features, the first and the third with an insert
    marker, the second without.  The walk-back that inserts the dependent second feature shifts ALL recorded indices (also those before the
    insertion point), so min(indices) is one too large and the lookups land AFTER the first generated feature that may reference them."""
    from fontTools.feaLib import ast as fa

    case = {"top": [["abvm", ["M"]], ["S"], ["mkmk", ["M"]]], "features": ["abvm", "mark", "mkmk"], "lookups": 2, "classdefs": 0}
    from ufo2ft.featureWriters.baseFeatureWriter import BaseFeatureWriter

    class _W(BaseFeatureWriter):
        tableTag = "GPOS"
        features = frozenset(["abvm", "mark", "mkmk"])

    counter = [0]
    fea = fa.FeatureFile()
    for el in case["top"]:
        fea.statements.append(fa.LookupBlock("user") if el[0] == "S" else _mk_block(fa, el[0], el[1], counter))
    w = _W()
    w.setContext(None, fea)
    lookups = [fa.LookupBlock("gen0"), fa.LookupBlock("gen1")]
    feats = [fa.FeatureBlock(t) for t in case["features"]]
    for f in feats:
        f.statements.append(fa.LookupReferenceStatement(lookups[0]))
    w._insert(feaFile=fea, lookups=lookups, features=feats)
    order = [(type(s).__name__, getattr(s, "name", "")) for s in fea.statements if not isinstance(s, fa.Comment)]
    print("top-level order after _insert:", order)
    first_feature = min(i for i, s in enumerate(fea.statements) if any(s is f for f in feats))
    first_lookup = min(i for i, s in enumerate(fea.statements) if any(s is l for l in lookups))
    print("first generated feature at", first_feature, "- first generated lookup at", first_lookup, "->", "lookups AFTER the feature that references them" if first_lookup > first_feature else "ok")
    return first_lookup > first_feature


def replay(path):
    with open(path) as f:
        pl = json.load(f)
    part, case = pl["part"], pl["case"]
    fn = {"insert": check_insert, "observer": check_observer, "summary-conformance": check_summary}.get(part)
    if fn is None:
        print("no replay function for", part)
        return 0
    fails = fn(case)
    print(json.dumps({"case": case, "failures": fails}, indent=1, default=str)[:4000])
    return 1 if fails else 0


if __name__ == "__main__":
    sys.path.insert(0, ROOT)
    if os.environ.get("VERIF_REPO"):
        sys.path.insert(0, os.path.join(os.environ["VERIF_REPO"], "Lib"))
    if len(sys.argv) >= 3 and sys.argv[1] == "replay":
        sys.exit(replay(sys.argv[2]))
    if len(sys.argv) >= 2 and sys.argv[1] == "f8":
        f8_probe()
    if len(sys.argv) >= 2 and sys.argv[1] == "f9":
        f9_probe()
