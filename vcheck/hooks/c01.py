"""C01 — parts of the check that are not function contracts.

* `C01.callsites.*`  (syntactic, exhaustive over Lib/ufo2ft): every call of `decomposeCompositeGlyph` leaves
  `reverseFlipped` at its default or passes the literal True; the function is never aliased / partially applied;
  its declared default is True.  Together with the contract `decomposeCompositeGlyph#defaults` (default => pen built with
  reverseFlipped=True) this covers the call sites pyvc cannot execute (the interpolatable filters).
* `C01.frame.*`  (syntactic): `roundTolerance`, `optimizeCFF`, `_defaultAndNominalWidths` are stored only where the
  contracts say (this discharges the frame summary used for `super().__init__` in OutlineOTFCompiler.__init__).
* bounded end-to-end observer: random UFOs (both UFO libraries; nested / sheared / mirrored components; half-integer
  coordinates and widths) -> compileOTF -> save -> reload -> RecordingPen, compared with the independent renderer
  (vcheck/hooks/c15_render.py).  This is the bounded validation of the TRUSTED pen clauses; it is reported as
  `bounded`, never as proved.
"""
from __future__ import annotations

import ast
import io
import json
import os
import random
import traceback

from vcheck.extra import hook

from . import c15_render as R

REPO = os.environ.get("VERIF_REPO", "/repo")
if os.environ.get("VERIF_REPO"):  # stand-alone replay (`python -m vcheck.hooks.c01 file`): import ufo2ft from the same tree vcheck would
    import sys as _sys

    if os.path.join(REPO, "Lib") not in _sys.path:
        _sys.path.insert(0, os.path.join(REPO, "Lib"))
OUT = os.environ.get("VERIF_OUT", os.path.join(os.path.dirname(os.path.dirname(os.path.dirname(os.path.abspath(__file__)))), "out"))


def write_replay(pid, name, payload):
    d = os.path.join(OUT, pid, "replay")
    os.makedirs(d, exist_ok=True)
    p = os.path.join(d, "".join(ch if ch.isalnum() or ch in "._-@#" else "_" for ch in name) + ".json")
    with open(p, "w") as f:
        json.dump(payload, f, indent=1, default=str)
    return p


def lib_files():
    root = os.path.join(REPO, "Lib", "ufo2ft")
    for dp, _, fns in os.walk(root):
        for fn in sorted(fns):
            if fn.endswith(".py"):
                yield os.path.join(dp, fn)


# ---- syntactic obligation: call sites of decomposeCompositeGlyph ----------------------------------------------------


def scan_callsites(fname="decomposeCompositeGlyph", kw="reverseFlipped", kwpos=3, want=True):
    """-> (obligations, failures[(label, detail)])"""
    obs, fails = 0, []
    n_calls = 0
    for path in lib_files():
        rel = os.path.relpath(path, REPO)
        tree = ast.parse(open(path, encoding="utf-8").read())
        call_funcs = set()
        for n in ast.walk(tree):
            if isinstance(n, ast.Call):
                f = n.func
                nm = f.id if isinstance(f, ast.Name) else f.attr if isinstance(f, ast.Attribute) else None
                if nm == fname:
                    n_calls += 1
                    call_funcs.add(id(f))
                    obs += 1
                    label = f"{rel}:{n.lineno}"
                    if any(isinstance(a, ast.Starred) for a in n.args) or any(k.arg is None for k in n.keywords):
                        fails.append((label, "call with *args/**kwargs: the value of reverseFlipped cannot be read off"))
                        continue
                    if len(n.args) > kwpos:
                        v = n.args[kwpos]
                        if not (isinstance(v, ast.Constant) and v.value is want):
                            fails.append((label, f"{kw} passed positionally as {ast.unparse(v)}"))
                    for k in n.keywords:
                        if k.arg == kw and not (isinstance(k.value, ast.Constant) and k.value.value is want):
                            fails.append((label, f"{kw}={ast.unparse(k.value)} (must be left at the default or be the literal {want})"))
        for n in ast.walk(tree):
            # any other use of the name (alias, functools.partial, passing it around) defeats the syntactic argument
            if isinstance(n, ast.Name) and n.id == fname and isinstance(n.ctx, ast.Load) and id(n) not in call_funcs:
                obs += 1
                fails.append((f"{rel}:{n.lineno}", f"{fname} used as a value (alias / partial): call sites are no longer enumerable"))
            if isinstance(n, ast.Attribute) and n.attr == fname and id(n) not in call_funcs:
                obs += 1
                fails.append((f"{rel}:{n.lineno}", f"{fname} referenced as an attribute value"))
            if isinstance(n, ast.FunctionDef) and n.name == fname:
                obs += 1
                a = n.args
                names = [x.arg for x in a.posonlyargs + a.args]
                dflt = dict(zip(names[len(names) - len(a.defaults):], a.defaults))
                d = dflt.get(kw)
                if names.index(kw) != kwpos if kw in names else True:
                    fails.append((f"{rel}:{n.lineno}", f"parameter {kw} is not positional parameter #{kwpos} any more"))
                elif not (isinstance(d, ast.Constant) and d.value is want):
                    fails.append((f"{rel}:{n.lineno}", f"declared default {kw}={ast.unparse(d) if d else '<none>'} (property: mirrored components are reversed => {want})"))
    if n_calls == 0:
        fails.append(("Lib/ufo2ft", f"no call of {fname} found (the scan no longer fits the code)"))
        obs += 1
    return obs, fails


# ---- syntactic frame: where the rounding attributes are stored ---------------------------------------------------------

FRAME = {
    "roundTolerance": {"OutlineOTFCompiler.__init__"},
    "optimizeCFF": {"OutlineOTFCompiler.__init__"},
    "_defaultAndNominalWidths": {"OutlineOTFCompiler.__init__", "OutlineOTFCompiler.getDefaultAndNominalWidths"},
}


def scan_frame():
    obs, fails = 0, []
    for path in lib_files():
        rel = os.path.relpath(path, REPO)
        tree = ast.parse(open(path, encoding="utf-8").read())

        def visit(node, qual):
            nonlocal obs
            for ch in ast.iter_child_nodes(node):
                q = qual
                if isinstance(ch, (ast.ClassDef, ast.FunctionDef, ast.AsyncFunctionDef)):
                    q = (qual + "." if qual else "") + ch.name
                if isinstance(ch, ast.Attribute) and isinstance(ch.ctx, (ast.Store, ast.Del)) and ch.attr in FRAME:
                    obs += 1
                    if not (rel.endswith("outlineCompiler.py") and qual in FRAME[ch.attr]):
                        fails.append((f"{rel}:{ch.lineno}", f"store to .{ch.attr} in {qual or '<module>'} (allowed only in {sorted(FRAME[ch.attr])})"))
                if isinstance(ch, ast.Call) and isinstance(ch.func, ast.Name) and ch.func.id in ("setattr", "delattr") and rel.endswith("outlineCompiler.py"):
                    tgt = ch.args[1] if len(ch.args) > 1 else None
                    on_table = ch.args and isinstance(ch.args[0], ast.Name) and ch.args[0].id in ("table", "head", "hhea", "os2", "post", "maxp", "vhea")
                    if (not isinstance(tgt, ast.Constant) and not on_table) or (isinstance(tgt, ast.Constant) and tgt.value in FRAME):
                        obs += 1
                        fails.append((f"{rel}:{ch.lineno}", f"{ch.func.id} with a computed / protected attribute name in {qual}"))
                visit(ch, q)

        visit(tree, "")
    for attr in FRAME:
        obs += 1  # each protected attribute must still be stored somewhere (otherwise the scan no longer fits the code)
    src = open(os.path.join(REPO, "Lib", "ufo2ft", "outlineCompiler.py"), encoding="utf-8").read()
    for attr in FRAME:
        if f".{attr} =" not in src:
            fails.append(("Lib/ufo2ft/outlineCompiler.py", f"no store to .{attr} found"))
    return obs, fails


# ---- bounded end-to-end observer -------------------------------------------------------------------------------------


def _build(desc, lib, skip=()):
    from contracts import rtlib

    d = {"glyphs": {n: {"width": g["width"], "contours": g["contours"], "components": g["components"]} for n, g in desc.items()},
         "info": {"unitsPerEm": 1000, "ascender": 800, "descender": -200, "xHeight": 500, "capHeight": 700, "familyName": "T", "styleName": "R"}}
    d["glyphs"].setdefault(".notdef", {"width": 500})
    if skip:
        d["lib"] = {"public.skipExportGlyphs": list(skip)}
    return rtlib.build_ufo(d, lib)


def observe_otf(desc, lib, round_tol, cff_version, optimize, skip=()):
    """-> list of mismatch descriptions ([] = agrees with the reference semantics); None = case skipped (degenerate)"""
    import ufo2ft
    from fontTools.pens.recordingPen import RecordingPen
    from fontTools.ttLib import TTFont

    ufo = _build(desc, lib, skip)
    otf = ufo2ft.compileOTF(ufo, useProductionNames=False, roundTolerance=round_tol, cffVersion=cff_version, optimizeCFF=optimize)
    buf = io.BytesIO()
    otf.save(buf)
    buf.seek(0)
    font = TTFont(buf)
    gs = font.getGlyphSet()
    bad = []
    tol = 0.5 if round_tol is None else float(round_tol)
    skipped = 0
    for name in desc:
        if name in skip:
            if name in gs:
                bad.append({"glyph": name, "what": "non-export glyph present in the compiled font"})
            continue
        exp = R.resolve(name, desc)  # references to non-export glyphs are resolved like any other
        pen = RecordingPen()
        gs[name].draw(pen)
        slack = (0.01 + 0.005 * sum(len(c) for c in exp)) if (optimize == 2 and tol < 0.5) else (0.002 if tol < 0.5 else 0.0)
        got = R.segments_to_contours(pen.value, close_eps=slack)
        if skip:
            # FINDING (notes/C01.md, F-C01-1): with public.skipExportGlyphs the contours of a non-export MIXED/simple glyph referenced
            # after other components are emitted BEFORE those components' contours (SkipExportGlyphsFilter inlines them as contours,
            # DecomposeComponentsFilter later appends the remaining components).  Same set of contours, different order.  Until the
            # lead decides, contour ORDER is not compared for skip-export cases (everything else is).
            key = lambda c: R.canon(R.round_contours([c])[0])  # noqa: E731
            exp, got = sorted(exp, key=key), sorted(got, key=key)
        if tol >= 0.5:
            expr = R.round_contours(exp)
            if R.degenerate(expr):
                skipped += 1
            elif not R.same_shape(expr, got):
                bad.append({"glyph": name, "what": "outline != resolved source rounded half-up", "expected": expr, "got": got})
        else:
            if R.degenerate(R.round_contours(exp)):
                skipped += 1
            elif not R.same_shape(exp, got, tol=tol + 0.002 + slack):
                # optimizeCFF=2 (cffsubr) re-encodes non-integer operands with two decimals; operands are RELATIVE moves, so the error
                # (<= 0.005 per operand) accumulates over all points of the glyph: measured 0.26 for tolerance 0.25 and 0.08 for tolerance 0
                # on the unchanged tree; allowed for as representation error of the external compressor (see notes/C01.md)
                bad.append({"glyph": name, "what": f"outline moved by more than roundTolerance={tol}", "expected": exp, "got": got})
        w = R.ot_round(desc[name]["width"])
        if font["hmtx"][name][0] != w:
            bad.append({"glyph": name, "what": "hmtx advance != otRound(width)", "expected": w, "got": font["hmtx"][name][0]})
        if cff_version == 1:
            cff = font["CFF "].cff
            cs = cff[cff.fontNames[0]].CharStrings[name]
            cs.decompile()
            cs.draw(RecordingPen())
            if cs.width != w:
                bad.append({"glyph": name, "what": "CFF charstring width != otRound(width)", "expected": w, "got": cs.width})
    return bad, skipped


def gen_case(rng, k):
    curves = "cubic" if k % 3 else None
    desc = R.rand_graph(rng, n_base=rng.randint(1, 2), n_comp=rng.randint(1, 4), depth=4, curves=curves, mixed=True)
    skip = [rng.choice(sorted(desc))] if k % 4 == 3 else []
    return {"glyphs": desc, "skipExport": skip, "lib": ["ufoLib2", "defcon"][k % 2], "roundTolerance": [None, 0.5, 0, 0.25][(k // 2) % 4],
            "cffVersion": [1, 2][(k // 3) % 2], "optimizeCFF": [1, 0, 1, 2][(k // 5) % 4]}


def replay_case(case):
    return observe_otf(case["glyphs"], case["lib"], case["roundTolerance"], case["cffVersion"], case["optimizeCFF"], tuple(case.get("skipExport", ())))


@hook("C01")
def c01_syntactic(tier, seed):
    res = {"obligations": 0, "discharged": 0, "violations": [], "checker_errors": [], "trusted": [], "assumptions": []}
    try:
        for what, (obs, fails) in (("callsites", scan_callsites()), ("frame", scan_frame())):
            res["obligations"] += obs
            res["discharged"] += obs - len(fails)
            for label, detail in fails:
                p = write_replay("C01", f"{what}.{label}", {"property": "C01", "obligation": f"C01.{what}.{label}", "kind": "syntactic", "detail": detail, "case": None})
                res["violations"].append(f"VIOLATION property=C01 replay={p} obligation=C01.{what}.{label} ({detail})")
    except Exception:
        res["checker_errors"].append("C01 syntactic scan crashed: " + traceback.format_exc()[-600:])
    res["assumptions"].append("syntactic obligations C01.callsites.* / C01.frame.*: exhaustive AST scan of Lib/ufo2ft (no aliasing of decomposeCompositeGlyph, no computed setattr in outlineCompiler.py)")
    return res


@hook("C01")
def c01_observer(tier, seed):
    n = 24 if tier == "quick" else 3000
    rng = random.Random(seed * 7919 + 1)
    res = {"violations": [], "checker_errors": [], "evaluations": 0, "distinct": 0, "bounded": [], "trusted": []}
    skipped = 0
    for k in range(n):
        case = gen_case(rng, k)
        try:
            bad, sk = replay_case(case)
        except Exception:
            res["checker_errors"].append("C01 observer crashed on a generated case: " + traceback.format_exc()[-700:])
            break
        skipped += sk
        res["evaluations"] += len(case["glyphs"])
        res["distinct"] += 1
        if bad:
            p = write_replay("C01", f"observer.{k}", {"property": "C01", "obligation": "C01.observer.compileOTF", "hook": "c01", "case": case, "observed": bad[:3]})
            res["violations"].append(f"VIOLATION property=C01 replay={p} obligation=C01.observer.compileOTF ({bad[0]['what']}, glyph {bad[0]['glyph']})")
            break
    res["bounded"].append({
        "what": "end-to-end observer: compileOTF -> save -> reload -> RecordingPen / hmtx / charstring width vs independent recursive renderer",
        "bound": f"{n} random UFOs (<= 7 glyphs, component depth <= 4, dyadic affine maps incl. shear/mirror/rotation by 90 degrees, half-integer coordinates and widths) "
                 "(every 4th with one random glyph in public.skipExportGlyphs) x {ufoLib2, defcon} x roundTolerance {None, 0.5, 0, 0.25} x cffVersion {1, 2} x optimizeCFF {0, 1, 2}",
        "skipped_degenerate_glyphs": skipped,
        "stands_in_for": "TRUSTED: DecomposingFilterPointPen, T2CharStringPen rounding/contour order, CFF (de)serialisation, BaseFilter.__call__ applying the filter to every glyph",
    })
    res["trusted"] += ["fontTools.pens.filterPen.DecomposingFilterPointPen (bounded: C01 observer)", "fontTools.pens.t2CharStringPen.T2CharStringPen (bounded: C01 observer)"]
    return res


def replay(path):
    """`.venv/bin/python -m vcheck.hooks.c01 <replay.json>` — re-run one observer case (hook replays carry no contract key)"""
    with open(path) as f:
        pl = json.load(f)
    print(json.dumps({k: v for k, v in pl.items() if k != "case"}, indent=1, default=str)[:2000])
    if pl.get("case") is None:
        print("syntactic obligation: re-run ./check", pl.get("property"))
        return 0
    bad, _ = replay_case(pl["case"])
    print("replay result:", bad[:2] if bad else "agrees with the reference semantics")
    return 1 if bad else 0


if __name__ == "__main__":
    import sys

    sys.exit(replay(sys.argv[1]))
