"""C14 — filters touch only what they are asked to, report what they changed, leave the source font alone when
given a separate glyph set, and carry no state between invocations.

Deductive part: frame obligations per shipped filter class, root `Filter.__call__(font=SRC, glyphSet=GS)`
(pyvc.frames): no mutation site may reach the source font.  The include/exclude and reporting clauses are
pyvc contracts in contracts/c14.py.  Bounded part: a run-time observer over every shipped filter x option
variants x fixtures (reuse across fonts == fresh filter; changed glyphs ⊆ reported set; excluded and
unreferenced glyphs untouched; source font untouched)."""
from __future__ import annotations

import copy
import json
import os

from vcheck import framecheck as fc
from vcheck.extra import hook

ROOT = os.path.dirname(os.path.dirname(os.path.dirname(os.path.abspath(__file__))))
PID = "C14"
FILTERS = [
    ("ufo2ft.filters.cubicToQuadratic", "CubicToQuadraticFilter"), ("ufo2ft.filters.decomposeComponents", "DecomposeComponentsFilter"),
    ("ufo2ft.filters.decomposeTransformedComponents", "DecomposeTransformedComponentsFilter"), ("ufo2ft.filters.dottedCircle", "DottedCircleFilter"),
    ("ufo2ft.filters.explodeColorLayerGlyphs", "ExplodeColorLayerGlyphsFilter"), ("ufo2ft.filters.flattenComponents", "FlattenComponentsFilter"),
    ("ufo2ft.filters.propagateAnchors", "PropagateAnchorsFilter"), ("ufo2ft.filters.removeOverlaps", "RemoveOverlapsFilter"),
    ("ufo2ft.filters.reverseContourDirection", "ReverseContourDirectionFilter"), ("ufo2ft.filters.skipExportGlyphs", "SkipExportGlyphsFilter"),
    ("ufo2ft.filters.sortContours", "SortContoursFilter"), ("ufo2ft.filters.transformations", "TransformationsFilter"),
]
# interpolatable variants: frame clauses only (root __call__(fonts=SRC, glyphSets=GS), i.e. the use without an
# instantiator; the with-instantiator use is covered by the designspace / variable roots of C07). The observer below
# runs the single-font filters; the joint behaviour of the I-filters is C09's.
IFILTERS = [
    ("ufo2ft.filters.decomposeComponents", "DecomposeComponentsIFilter"),
    ("ufo2ft.filters.decomposeTransformedComponents", "DecomposeTransformedComponentsIFilter"),
    ("ufo2ft.filters.flattenComponents", "FlattenComponentsIFilter"),
    ("ufo2ft.filters.propagateAnchors", "PropagateAnchorsIFilter"),
    ("ufo2ft.filters.skipExportGlyphs", "SkipExportGlyphsIFilter"),
]


def frame_part(out_dir):
    known = fc.load_known(PID)
    specs = [{"name": n, "module": m, "kind": "filter", "cuts": []} for m, n in FILTERS + IFILTERS]
    res = fc.run_roots(specs)
    obligations = discharged = 0
    violations, knowns, samples = [], [], []
    for r in res:
        akeys = {(a["file"], a["line"], a["what"]) for a in r["alarms"]}
        for s in r["sites"]:
            obligations += 1
            if (s["file"], s["line"], s["what"]) not in akeys:
                discharged += 1
        if r["sites"] and len(samples) < 3:
            s0 = r["sites"][0]
            samples.append({"obligation": f"{PID}.frame.{r['root']}.{s0['file']}:{s0['line']} `{s0['what']}` target not in SRC (separate glyph set given)", "touches": s0["touches"]})
        # statelessness (frame on the filter object itself): while __call__ runs, the only attribute of the
        # filter object that is (re)bound is `context` — anything else would survive into the next invocation
        for fl, ln, what, code in r.get("self_writes", []):
            obligations += 1
            if what in (".context = …", "del .context"):
                discharged += 1
                continue
            name = f"{PID}.frame.{r['root']}.stateless.{fl.split('/')[-1]}:{ln}"
            os.makedirs(out_dir, exist_ok=True)
            p = os.path.join(out_dir, name.replace("/", "_") + ".json")
            with open(p, "w") as f:
                json.dump({"property": PID, "obligation": name, "clause": "during __call__ a filter object only rebinds self.context (no state survives an invocation)", "case": None,
                           "solver_output": f"effect analysis: `{what}` on the filter object at {fl}:{ln} ({code}) is reachable from __call__"}, f, indent=1)
            violations.append(f"VIOLATION property={PID} replay={p} obligation={name} no-failing-input-found")
        for a in r["alarms"]:
            hit = None
            for k in known:
                if any(fc.site_matches(s, a["file"], a["func"], a["code"]) for s in k["sites"]):
                    hit = k
            if hit:
                knowns.append((hit, f"{a['file']}:{a['line']}"))
                continue
            name = f"{PID}.frame.{r['root']}.{a['file'].split('/')[-1]}:{a['line']}"
            os.makedirs(out_dir, exist_ok=True)
            p = os.path.join(out_dir, name.replace("/", "_") + ".json")
            with open(p, "w") as f:
                json.dump({"property": PID, "obligation": name, "clause": "frame: with a separate glyph set the filter never writes to the source font", "case": None, "site": a,
                           "solver_output": f"points-to analysis: SRC in targets of `{a['what']}` at {a['file']}:{a['line']} ({a['code']})"}, f, indent=1)
            violations.append(f"VIOLATION property={PID} replay={p} obligation={name} no-failing-input-found")
    return {"obligations": obligations, "discharged": discharged, "violations": violations, "known": knowns, "samples": samples,
            "roots": [{k: r[k] for k in ("root", "rounds", "contexts", "wall_s")} for r in res]}


# ---- observer ----------------------------------------------------------------------------------------------------
def _variants(name):
    from ufo2ft.filters.transformations import TransformationsFilter  # noqa: F401

    v = {
        "CubicToQuadraticFilter": [{}, {"reverseDirection": False}],
        "DecomposeComponentsFilter": [{}],
        "DecomposeTransformedComponentsFilter": [{}],
        "DottedCircleFilter": [{}],
        "ExplodeColorLayerGlyphsFilter": [{}],
        "FlattenComponentsFilter": [{}],
        "PropagateAnchorsFilter": [{}],
        "RemoveOverlapsFilter": [{}],
        "ReverseContourDirectionFilter": [{}],
        "SkipExportGlyphsFilter": [{"args": [["b", "e"]]}, {"args": [[]]}],
        "SortContoursFilter": [{}],
        "TransformationsFilter": [{"kwargs": {"OffsetX": 10, "ScaleY": 50, "Origin": 0}}, {"kwargs": {"ScaleX": 120, "Slant": 10, "Origin": 2}}, {"kwargs": {"ScaleY": 80, "Origin": 1}}],
    }
    return v[name]


def _fonts(tier):
    import ufoLib2

    base = os.path.join(os.environ.get("VERIF_REPO", "/repo"), "tests", "data")
    names = ["TestFont.ufo", "NestedComponents-Regular.ufo", "ComponentTransformTest-Regular.ufo", "CantarellAnchorPropagation.ufo", "DottedCircleTest.ufo", "ColorTest.ufo"]
    if tier == "thorough":
        names += ["NestedComponents-Bold.ufo", "ComponentTransformTest-Bold.ufo", "UseMyMetrics.ufo", "MultipleAnchorClasses.ufo", "LayerFont-Regular.ufo"]
    out = []
    for n in names:
        f = ufoLib2.Font.open(os.path.join(base, n))
        # give the two origins different metrics so that a cached matrix shows
        out.append((n, f))
    for k, (n, f) in enumerate(out):
        f.info.capHeight = 600 + 37 * k
        f.info.xHeight = 400 + 23 * k
    return out


def _glyphset(font):
    from ufo2ft.util import _GlyphSet

    return _GlyphSet.from_layer(font, copy=True)


def _snap_gs(gs):
    from contracts import rtlib

    return {n: rtlib._glyph_snap(g) for n, g in gs.items()}


def _mk(module, name, var, include=None, exclude=None):
    import importlib

    klass = getattr(importlib.import_module(module), name)
    kw = dict(var.get("kwargs", {}))
    if include is not None:
        kw["include"] = include
    if exclude is not None:
        kw["exclude"] = exclude
    return klass(*var.get("args", []), **kw)


def observer_part(tier, out_dir):
    import logging
    import warnings

    warnings.filterwarnings("ignore")
    logging.disable(logging.CRITICAL)
    from contracts import rtlib

    known = fc.load_known(PID)
    fonts = _fonts(tier)
    evals = 0
    violations, knowns, samples = [], [], []

    def report(clause, fname, var, fixture, detail):
        for k in known:
            ob = k.get("c14_observer")
            if ob and fname == ob["filter"] and clause in ob["clauses"] and all(any(p in d for p in ob["paths"]) for d in detail):
                knowns.append((k, f"observer:{fname}:{fixture}"))
                return
        name = f"{PID}.observer.{clause}.{fname}.{fixture}"
        os.makedirs(out_dir, exist_ok=True)
        p = os.path.join(out_dir, name + ".json")
        with open(p, "w") as f:
            json.dump({"property": PID, "obligation": name, "clause": clause, "case": {"filter": fname, "variant": var, "fixture": fixture}, "observed": detail, "contract": None}, f, indent=1, default=str)
        violations.append(f"VIOLATION property={PID} replay={p} obligation={name}")

    for module, fname in FILTERS:
        for var in _variants(fname):
            # (1) reuse across fonts == fresh filter; (2) changed ⊆ reported; (3) source font untouched
            try:
                reused = _mk(module, fname, var)
            except Exception:
                continue
            for fixture, font in fonts:
                try:
                    src_before = rtlib.snapshot_ufo(font)
                    gs1, gs2 = _glyphset(font), _glyphset(font)
                    before = _snap_gs(gs1)
                    m1 = reused(font, gs1)
                    fresh = _mk(module, fname, var)
                    m2 = fresh(font, gs2)
                    a1, a2 = _snap_gs(gs1), _snap_gs(gs2)
                    src_after = rtlib.snapshot_ufo(font)
                except Exception as e:  # a filter may legitimately refuse a fixture
                    continue
                evals += 1
                if a1 != a2 or set(m1) != set(m2):
                    report("reuse-equals-fresh", fname, var, fixture, rtlib.diff_paths(a2, a1) + [f"modified reused={sorted(m1)[:8]} fresh={sorted(m2)[:8]}"])
                changed = {n for n in set(before) | set(a2) if before.get(n) != a2.get(n)}
                if not changed <= set(m2):
                    report("changed-subset-of-reported", fname, var, fixture, [f"changed but not reported: {sorted(changed - set(m2))[:10]}"])
                d = rtlib.diff_paths(src_before, src_after)
                if d:
                    report("source-untouched", fname, var, fixture, d)
                elif len(samples) < 2:
                    samples.append({"filter": fname, "variant": var, "fixture": fixture, "modified": sorted(m2)[:6]})
                # put the font back for the next filter (known findings mutate it)
                if d:
                    for i, (n, f) in enumerate(fonts):
                        if n == fixture:
                            import ufoLib2

                            base = os.path.join(os.environ.get("VERIF_REPO", "/repo"), "tests", "data")
                            nf = ufoLib2.Font.open(os.path.join(base, n))
                            nf.info.capHeight, nf.info.xHeight = f.info.capHeight, f.info.xHeight
                            fonts[i] = (n, nf)
            # (4) exclusion: excluded glyphs that no included glyph references stay untouched
            if fname in ("ExplodeColorLayerGlyphsFilter", "DottedCircleFilter", "SkipExportGlyphsFilter"):
                continue
            for fixture, font in fonts[:3]:
                try:
                    gs = _glyphset(font)
                    names = sorted(gs.keys())
                    inc = names[::2]
                    before = _snap_gs(gs)
                    f = _mk(module, fname, var, include=inc)
                    f(font, gs)
                    after = _snap_gs(gs)
                except Exception:
                    continue
                evals += 1
                referenced = set()
                todo = list(inc)
                while todo:
                    n = todo.pop()
                    for c in before.get(n, {}).get("components", []):
                        if c[0] not in referenced:
                            referenced.add(c[0])
                            todo.append(c[0])
                bad = [n for n in before if n not in inc and n not in referenced and before[n] != after.get(n)]
                if bad:
                    report("untouched-when-not-included", fname, var, fixture, [f"changed although neither included nor referenced: {bad[:10]}"])
    logging.disable(logging.NOTSET)
    return {"evaluations": evals, "violations": violations, "known": knowns, "samples": samples}


@hook(PID)
def c14(tier, seed):
    out_dir = os.path.join(os.environ.get("VERIF_OUT", os.path.join(ROOT, "out")), PID, "replay")
    fr = frame_part(out_dir)
    ob = observer_part(tier, out_dir)
    return {
        "obligations": fr["obligations"], "discharged": fr["discharged"],
        "violations": fr["violations"] + ob["violations"], "known": fr["known"] + ob["known"],
        "evaluations": ob["evaluations"], "distinct": ob["evaluations"],
        "bounded": [{"what": "every shipped filter x option variants x fixture fonts: (1) a filter object reused across fonts gives the same glyphs and the same reported set as a fresh one, (2) every glyph that changed/was added/removed is in the reported set, (3) the source font is deep-equal before/after when a separate glyph set is passed, (4) glyphs neither included nor referenced as components by included glyphs are unchanged", "bound": f"{ob['evaluations']} (filter, variant, fixture) runs", "result": "clean" if not ob["violations"] else "violations"}],
        "trusted": ["frames catalogue (see C07)"],
        "explanation": f"frame obligations: {fr['obligations']} mutation sites over {len(FILTERS)} filter classes and {len(IFILTERS)} interpolatable variants with root __call__(font=SRC, glyphSet=GS), {fr['discharged']} discharged, {len(fr['known'])} attributed to known findings (F5, F6); observer {ob['evaluations']} runs (bounded).",
        "frame_samples": fr["samples"],
    }
