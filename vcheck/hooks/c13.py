"""C13 — checks that are not function contracts.

L  (cross-check of a PROVED lemma)  the order lemma  official_order(N - S, O) == [x for x in official_order(N, O) if x not in S]
   over contracts/spec.py's official_order is proved in contracts/c13.py by four hand-made inductions (lemmas C13.ord.*).  Here
   (1) every one of those lemmas is evaluated natively on a small scope (all assignments of its variables over a small pool):
       wherever the hypotheses hold the conclusion must hold, and the hypotheses must hold somewhere (not vacuous);
   (2) the two trusted clauses about `sorted` and the definition of the filter (sx_keep == the list comprehension) are compared
       with the real `sorted` / a real comprehension on every subset / list of the pool;
   (3) the end statement is still enumerated with the literal comprehension: all N over a 4-name pool (with '.notdef'), all S
       over that pool plus a foreign name, all order lists up to a length.
S  (bounded)  the three summaries the deductive part leans on: BaseIFilter.getInterpolatedLayers,
   BaseIFilter.ensureCompositeDefinedAtComponentLocations (frame), util.prune_unknown_kwargs on every pre-processor class.
K  (bounded)  KernFeatureWriter.getKerningGroups / getKerningPairs prune by glyph-set membership (real functions, generated
   groups / kerning mentioning skipped and foreign glyphs).
O  (bounded)  observer: generated component graphs (nested skipped components, mirrored components, skipped glyphs in kerning
   groups / kerning keys / with anchors), compiled with and without skipping — static TTF and OTF, interpolatable TTF / OTF
   from a designspace with sparse masters, skip list by argument / UFO lib / designspace lib — and compared on the remaining
   glyphs: glyph order, cmap, advances, rendered contours (components flattened), pair kerning from GPOS.
"""
from __future__ import annotations

import itertools
import json
import os
import random
import traceback

from vcheck.extra import hook

PID = "C13"
ROOT = os.path.dirname(os.path.dirname(os.path.dirname(os.path.abspath(__file__))))
OUT = os.environ.get("VERIF_OUT", os.path.join(ROOT, "out"))


def _violation(obligation, payload):
    d = os.path.join(OUT, PID, "replay")
    os.makedirs(d, exist_ok=True)
    p = os.path.join(d, "".join(ch if ch.isalnum() or ch in "._-@#" else "_" for ch in obligation) + ".json")
    with open(p, "w") as f:
        json.dump({"property": PID, "obligation": obligation, "case": None, **payload}, f, indent=1, default=str)
    return f"VIOLATION property={PID} replay={p} obligation={obligation}"


# ---- L: order lemma ---------------------------------------------------------------------------------------------------
def order_lemma(tier):
    from contracts.spec import official_order

    pool = [".notdef", "a", "b", "c"]
    opool = pool + ["z"]
    maxlen = 2 if tier == "quick" else 4
    orders = [list(o) for ln in range(maxlen + 1) for o in itertools.product(opool, repeat=ln)]
    subsets = [set(c) for k in range(len(pool) + 1) for c in itertools.combinations(pool, k)]
    skips = [set(c) for k in range(len(opool) + 1) for c in itertools.combinations(opool, k)]
    n = 0
    for N in subsets:
        for S in skips:
            for O in orders:
                n += 1
                full = official_order(N, O)
                if official_order(N - S, O) != [x for x in full if x not in S]:
                    return n, {"N": sorted(N), "S": sorted(S), "O": O, "with": official_order(N - S, O), "without": full}
    return n, None


def _small_values(ty, pool, maxlen):
    from pyvc import ty as T

    if ty == T.INT:
        return list(range(-1, maxlen + 2))
    if ty == T.STR:
        return list(pool)
    if isinstance(ty, T.Set):
        return [set(c) for k in range(len(pool) + 1) for c in itertools.combinations(pool, k)]
    if isinstance(ty, T.List):
        return [list(o) for ln in range(maxlen + 1) for o in itertools.product(pool, repeat=ln)]
    raise ValueError(f"no small scope for {ty}")


def lemmas_native(tier):
    """every lemma C13.ord.* evaluated natively: hypotheses => conclusion on all small assignments (and satisfiable hypotheses)"""
    from pyvc import api, rt

    import contracts.c13 as c13

    pool = [".notdef", "a", "b"] if tier == "quick" else [".notdef", "a", "b", "c"]
    maxlen = 2 if tier == "quick" else 3
    env0 = {"implies": rt.implies, "iff": rt.iff, "ite": rt.ite, "elems": rt.elems, "distinct": rt.distinct}
    env0.update({n: sf.fn for n, sf in api.SPECFNS.items()})
    total, report, bad = 0, {}, []
    for short in c13.ORDER_LEMMAS:
        lm = api.LEMMAS["C13.ord." + short]
        hyps = [compile(rt.parse_clause(h), "<hyp>", "eval") for h in lm.hyps]
        concl = [(k, compile(rt.parse_clause(c), "<concl>", "eval")) for k, c in lm.concl.items()]
        names = list(lm.vars)
        # lists x lists x sets x ... : keep the product small (second and later lists over a shorter length)
        doms, seen_list = [], 0
        for n in names:
            t = lm.vars[n]
            ml = maxlen
            if t.__class__.__name__ == "List":
                seen_list += 1
                ml = maxlen if seen_list == 1 else max(1, maxlen - 1)
            doms.append(_small_values(t, pool, ml))
        held = 0
        for vals in itertools.product(*doms):
            env = dict(env0)
            env.update(zip(names, vals))
            try:
                if not all(eval(h, env) for h in hyps):
                    continue
            except (IndexError, KeyError):
                continue
            held += 1
            for k, c in concl:
                if not eval(c, env):
                    bad.append({"lemma": lm.name, "conclusion": k, "assignment": {n: (sorted(v) if isinstance(v, set) else v) for n, v in zip(names, vals)}})
                    break
            if bad:
                break
        report[short] = held
        total += held
        if bad:
            break
    return total, report, bad


def sorted_conformance(tier):
    """the trusted clauses about `sorted` (contracts/c13.py SORTED_TRUSTED) and the definition of sx_keep, against real Python"""
    from pyvc import api, rt

    import contracts.c13 as c13

    pool = [".notdef", "A", "a", "b", "ab", "z"] if tier == "quick" else [".notdef", "A", "a", "b", "ab", "z", "", "\u00e9", "a.alt"]
    env0 = {"implies": rt.implies, "iff": rt.iff}
    codes = {k: compile(rt.parse_clause(c), "<trusted>", "eval") for k, c in c13.SORTED_TRUSTED.items()}
    n, bad = 0, []
    subsets = [set(c) for k in range(len(pool) + 1) for c in itertools.combinations(pool, k)]
    for X in subsets:
        for m in pool:
            for k, code in codes.items():
                n += 1
                if not eval(code, {**env0, "X": X, "m": m}):
                    bad.append({"clause": k, "X": sorted(X), "m": m})
        # every non-empty finite set has a greatest element (the induction scheme of C13.ord.sorted.*)
        if X and not any(all(x <= m for x in X) for m in X):
            bad.append({"clause": "greatest-exists", "X": sorted(X)})
    keep = api.SPECFNS["sx_keep"].fn
    for L in (list(o) for ln in range(4) for o in itertools.product(pool[:4], repeat=ln)):
        for S in subsets[:: max(1, len(subsets) // 16)]:
            n += 1
            if keep(L, S) != [x for x in L if x not in S]:
                bad.append({"clause": "sx_keep == comprehension", "L": L, "S": sorted(S)})
    return n, bad


# ---- S: summaries -----------------------------------------------------------------------------------------------------------
def summaries(tier, seed):
    import inspect

    from pyvc import api, rt

    import contracts.c13 as c13
    from contracts import c13rt

    n = 12 if tier == "quick" else 200
    rng = random.Random(seed + 13)
    evals, fails = 0, []
    cases = c13rt.family_cases(rng, n)
    for d in cases:
        from ufo2ft.filters.skipExportGlyphs import SkipExportGlyphsIFilter

        for key, mk in (
            ("ufo2ft.filters.base:BaseIFilter.getInterpolatedLayers#SXIFilter", lambda f: {"self": f}),
            ("ufo2ft.filters.base:BaseIFilter.ensureCompositeDefinedAtComponentLocations#SXIFilter",
             lambda f: {"self": f, "glyphName": d["target"], "include": f.options.skipExportGlyphs}),
        ):
            ufos, gss, inst = c13rt.glyph_sets(d)
            flt = SkipExportGlyphsIFilter(list(d["skip"]))
            flt.set_context(ufos, gss, inst)
            r = rt.run_case(api.CONTRACTS[key], mk(flt))
            evals += 1
            if r["status"] == "fail":
                fails.append((key, d, r))
    # prune_unknown_kwargs keeps skipExportGlyphs for every pre-processor class of ufo2ft
    import ufo2ft.preProcessor as pp
    from ufo2ft.util import prune_unknown_kwargs

    for name, k in inspect.getmembers(pp, inspect.isclass):
        if name.endswith("PreProcessor") and k.__module__ == pp.__name__:
            callables = [k] + ([k.initDefaultFilters] if hasattr(k, "initDefaultFilters") else [])
            marker = ["x"]
            got = prune_unknown_kwargs({"skipExportGlyphs": marker, "inplace": True, "nonsense": 1}, *callables)
            evals += 1
            if got.get("skipExportGlyphs") is not marker or "nonsense" in got:
                fails.append(("prune_unknown_kwargs", name, got))
    # the constructor summary used by _GlyphSet.from_layer (contracts/c13.py _skip_filter_ctor): SkipExportGlyphsFilter(names) holds a
    # frozenset with exactly the members of names and includes every glyph
    from ufo2ft.filters.skipExportGlyphs import SkipExportGlyphsFilter

    pool = ["a", "b", "c", ".notdef", "a.alt"]
    for k in range(10 if tier == "quick" else 200):
        names = [rng.choice(pool) for _ in range(rng.randint(0, 5))]
        f = SkipExportGlyphsFilter(list(names))
        evals += 1
        got = f.options.skipExportGlyphs
        if not isinstance(got, frozenset) or got != frozenset(names) or f.include(object()) is not True or hasattr(f, "context"):
            fails.append(("SkipExportGlyphsFilter.__init__", names, repr(got)))
    return evals, fails


# ---- K: kerning groups / pairs are pruned by glyph-set membership ---------------------------------------------------------
def kerning_prune(tier, seed):
    from collections import OrderedDict
    from types import SimpleNamespace

    import ufoLib2

    from ufo2ft.featureWriters.kernFeatureWriter import KernFeatureWriter

    rng = random.Random(seed + 5)
    n = 25 if tier == "quick" else 600
    evals, fails = 0, []
    names = ["a", "b", "c", "d", "e"]
    for _ in range(n):
        ufo = ufoLib2.Font()
        for g in names:
            ufo.newGlyph(g)
        kept = [g for g in names if rng.random() < 0.6]
        for k in range(rng.randint(0, 4)):
            side = rng.choice(["public.kern1.", "public.kern2."])
            ufo.groups[f"{side}G{k}"] = rng.sample(names + ["ghost"], rng.randint(1, 3))
        keys = names + ["ghost"] + list(ufo.groups)
        for _k in range(rng.randint(0, 6)):
            ufo.kerning[(rng.choice(keys), rng.choice(keys))] = rng.choice([-40, 0, 25])
        w = KernFeatureWriter()
        w.context = SimpleNamespace(isVariable=False, font=ufo, glyphSet=OrderedDict((g, ufo[g]) for g in kept))
        w.options = SimpleNamespace(quantization=1)
        try:
            s1, s2 = w.getKerningGroups()
            pairs = w.getKerningPairs(s1, s2)
        except Exception:
            fails.append(("crash", dict(ufo.groups), traceback.format_exc()[-400:]))
            continue
        evals += 1
        bad = [m for grp in list(s1.values()) + list(s2.values()) for m in grp if m not in kept]
        for p in pairs:
            for side in (p.side1, p.side2):
                bad += [m for m in ((side,) if isinstance(side, str) else side) if m not in kept]
        if bad:
            fails.append(("member-outside-glyph-set", {"kept": kept, "groups": {k: list(v) for k, v in ufo.groups.items()}, "kerning": {f"{a}|{b}": v for (a, b), v in ufo.kerning.items()}}, bad))
    return evals, fails


# ---- O: end-to-end observer ---------------------------------------------------------------------------------------------------
INT_TRANSFORMS = [[1, 0, 0, 1, 0, 0], [1, 0, 0, 1, 30, -20], [-1, 0, 0, 1, 200, 0], [1, 0, 0, -1, 0, 600], [2, 0, 0, 1, 10, 0]]


def gen_font(rng):
    """a UFO description with an acyclic component graph, kerning (glyphs + groups), anchors, and a skip subset"""
    cnt = rng.randint(3, 7)
    names = [f"g{i}" for i in range(cnt)]
    glyphs = {".notdef": {"width": 500, "box": [50, 0, 450, 700]}}
    for i, nm in enumerate(names):
        g = {"width": rng.choice([300, 500, 620]), "unicodes": [0x61 + i]}
        has_comp = i > 0 and rng.random() < 0.7
        if not has_comp or rng.random() < 0.3:
            x0 = rng.choice([0, 20, 50])
            g["box"] = [x0, rng.choice([0, -100]), x0 + rng.choice([40, 100]), rng.choice([50, 700])]
        if has_comp:
            g["components"] = [[rng.choice(names[:i]), list(rng.choice(INT_TRANSFORMS))] for _ in range(rng.randint(1, 3))]
        if rng.random() < 0.3:
            g["anchors"] = [["top", 100, 700]]
        glyphs[nm] = g
    order = list(glyphs)
    rng.shuffle(order)
    skip = [nm for nm in names if rng.random() < 0.35]
    if len(skip) == len(names):
        # keep one named glyph: an OTF holding nothing but '.notdef' cannot be read back by fontTools
        # (cffLib: AttributeError 'charset' in TTFont.getGlyphSet()) - a library limit, unrelated to skipping
        skip = skip[1:]
    groups, kerning = {}, {}
    for k in range(rng.randint(0, 3)):
        groups[f"public.kern1.L{k}"] = rng.sample(names, rng.randint(1, min(3, cnt)))
        groups[f"public.kern2.R{k}"] = rng.sample(names, rng.randint(1, min(3, cnt)))
    # kerning groups must be disjoint per side
    for side in ("public.kern1.", "public.kern2."):
        seen = set()
        for gname in [g for g in groups if g.startswith(side)]:
            groups[gname] = [m for m in groups[gname] if m not in seen]
            seen |= set(groups[gname])
            if not groups[gname]:
                del groups[gname]
    keys1 = names + [g for g in groups if g.startswith("public.kern1.")]
    keys2 = names + [g for g in groups if g.startswith("public.kern2.")]
    for _ in range(rng.randint(0, 6)):
        kerning[f"{rng.choice(keys1)}|{rng.choice(keys2)}"] = rng.choice([-50, -20, 15, 40])
    return {"glyphs": glyphs, "order": order, "groups": groups, "kerning": kerning, "skip": skip,
            "info": {"unitsPerEm": 1000, "ascender": 800, "descender": -200, "xHeight": 500, "capHeight": 700, "familyName": "T", "styleName": "R"}}


def _contours(tt, name):
    """rendered contours of a glyph with components flattened: multiset of (sorted point tuple) per contour"""
    from fontTools.pens.recordingPen import DecomposingRecordingPen

    gs = tt.getGlyphSet()
    pen = DecomposingRecordingPen(gs)
    gs[name].draw(pen)
    out, cur = [], []
    for op, pts in pen.value:
        if op == "moveTo":
            cur = [tuple(round(c) for c in pts[0])]
        elif op in ("closePath", "endPath"):
            if cur:
                out.append(tuple(sorted(set(cur))))
            cur = []
        else:
            cur += [tuple(round(c) for c in p) for p in pts if p is not None]
    return sorted(out)


def _oriented(tt, name):
    """like _contours, but every contour carries the sign of its signed area (drawing order of all its points): the winding
    direction decides what overlapping contours fill, so an inlined mirrored component must come out with the direction the
    ordinary decomposition gives it"""
    from fontTools.pens.recordingPen import DecomposingRecordingPen

    gs = tt.getGlyphSet()
    pen = DecomposingRecordingPen(gs)
    gs[name].draw(pen)
    out, cur = [], []
    for op, pts in pen.value:
        if op == "moveTo":
            cur = [tuple(round(c) for c in pts[0])]
        elif op in ("closePath", "endPath"):
            if cur:
                a2 = sum(cur[i][0] * cur[(i + 1) % len(cur)][1] - cur[(i + 1) % len(cur)][0] * cur[i][1] for i in range(len(cur)))
                out.append((tuple(sorted(set(cur))), (a2 > 0) - (a2 < 0)))
            cur = []
        else:
            cur += [tuple(round(c) for c in p) for p in pts if p is not None]
    return sorted(out)


def same_orientation(a, b, tol=1):
    """every contour of `a` has a partner in `b` with the same points (up to tol) AND the same winding direction"""
    if len(a) != len(b):
        return False
    rest = list(b)
    for ca, sa in a:
        hit = next(((cb, sb) for cb, sb in rest if sa == sb and _pts_match(ca, cb, tol)), None)
        if hit is None:
            return False
        rest.remove(hit)
    return True


def pair_kerning(tt):
    """(left, right) -> summed XAdvance adjustment of the 'kern' feature's PairPos lookups, for all glyph pairs"""
    if "GPOS" not in tt:
        return {}
    gpos = tt["GPOS"].table
    idx = set()
    for fr in gpos.FeatureList.FeatureRecord:
        if fr.FeatureTag == "kern":
            idx |= set(fr.Feature.LookupListIndex)
    order = tt.getGlyphOrder()
    res = {}
    for li in sorted(idx):
        lk = gpos.LookupList.Lookup[li]
        subs = [st.ExtSubTable if st.LookupType == 9 else st for st in lk.SubTable]
        for a in order:
            for b in order:
                for st in subs:
                    if getattr(st, "Format", None) is None or st.__class__.__name__ != "PairPos":
                        continue
                    if a not in st.Coverage.glyphs:
                        continue
                    v = None
                    if st.Format == 1:
                        ps = st.PairSet[st.Coverage.glyphs.index(a)]
                        for rec in ps.PairValueRecord:
                            if rec.SecondGlyph == b:
                                v = rec.Value1.XAdvance if rec.Value1 is not None else 0
                        if v is None:
                            continue
                    else:
                        c1 = st.ClassDef1.classDefs.get(a, 0)
                        c2 = st.ClassDef2.classDefs.get(b, 0)
                        r = st.Class1Record[c1].Class2Record[c2]
                        v = r.Value1.XAdvance if r.Value1 is not None and hasattr(r.Value1, "XAdvance") else 0
                    res[(a, b)] = res.get((a, b), 0) + (v or 0)
                    break
    return {k: v for k, v in res.items() if v}


def _pts_match(ca, cb, tol):
    if len(ca) != len(cb):
        return False
    rest = list(cb)
    for p in ca:
        hit = next((q for q in rest if abs(p[0] - q[0]) <= tol and abs(p[1] - q[1]) <= tol), None)
        if hit is None:
            return False
        rest.remove(hit)
    return True


def same_contours(a, b, tol=1):
    """multisets of contours equal up to `tol` units per coordinate (a decomposed, scaled component is rounded once, a
    composite is rounded in the base glyph and scaled at rendering time: the two may differ by one unit)"""
    if len(a) != len(b):
        return False
    rest = list(b)
    for ca in a:
        hit = next((cb for cb in rest if _pts_match(ca, cb, tol)), None)
        if hit is None:
            return False
        rest.remove(hit)
    return True


def _compare(tag, with_, without, skip, problems, oriented=False):
    skip = set(skip)
    o1, o0 = with_.getGlyphOrder(), without.getGlyphOrder()
    if [g for g in o1 if g in skip]:
        problems.append((tag, "skipped glyph in glyph order", [g for g in o1 if g in skip]))
    if o1 != [g for g in o0 if g not in skip]:
        problems.append((tag, "relative order changed", {"with": o1, "without": o0}))
    if "cmap" in with_:
        c1, c0 = with_.getBestCmap(), without.getBestCmap()
        if c1 != {u: g for u, g in c0.items() if g not in skip}:
            problems.append((tag, "cmap differs on remaining glyphs", {"with": c1, "without": c0}))
    for g in o1:
        if with_["hmtx"][g][0] != without["hmtx"][g][0]:
            problems.append((tag, f"advance of {g} changed", (with_["hmtx"][g], without["hmtx"][g])))
        a, b = _contours(with_, g), _contours(without, g)
        if not same_contours(a, b):
            problems.append((tag, f"rendering of {g} changed", {"with": a, "without": b}))
        elif oriented:
            # CFF output: both builds decompose every component, so the winding direction of every contour must agree too
            # (a TrueType build keeps a mirrored reference to an exported glyph as a component: no such comparison there)
            a, b = _oriented(with_, g), _oriented(without, g)
            if not same_orientation(a, b):
                problems.append((tag, f"contour direction of {g} changed", {"with": a, "without": b}))
    if "GPOS" in without or "GPOS" in with_:
        k1, k0 = pair_kerning(with_), pair_kerning(without)
        k0r = {p: v for p, v in k0.items() if p[0] not in skip and p[1] not in skip}
        if k1 != k0r:
            problems.append((tag, "pair kerning differs on remaining glyphs", {"with": sorted(k1.items()), "without": sorted(k0r.items())}))
        for (a, b) in k1:
            if a in skip or b in skip:
                problems.append((tag, "skipped glyph kerned", (a, b)))


def observe_static(d, how):
    import ufo2ft
    from contracts import rtlib

    problems = []
    for flavor, fn in (("ttf", ufo2ft.compileTTF), ("otf", ufo2ft.compileOTF)):
        base = {k: v for k, v in d.items() if k != "skip"}
        without = fn(rtlib.build_ufo(base), skipExportGlyphs=[])
        if how == "arg":
            # a lib key naming OTHER glyphs must lose against the argument
            decoy = dict(base, lib={"public.skipExportGlyphs": [g for g in base["glyphs"] if g.startswith("g")][:1]})
            with_ = fn(rtlib.build_ufo(decoy), skipExportGlyphs=list(d["skip"]))
        else:
            with_ = fn(rtlib.build_ufo(dict(base, lib={"public.skipExportGlyphs": list(d["skip"])})))
        _compare(f"static-{flavor}-{how}", with_, without, d["skip"], problems, oriented=(flavor == "otf"))
    return problems


def observe_interpolatable(fam, how):
    """fam from contracts.c13rt.family_cases; interpolatable TTF / OTF masters from the designspace"""
    import ufo2ft
    from contracts import c13rt

    problems = []
    skip = list(fam["skip"])
    for flavor, fn in (("ttf", ufo2ft.compileInterpolatableTTFsFromDS), ("otf", ufo2ft.compileInterpolatableOTFsFromDS)):
        f0 = dict(fam, ds_skip=None)
        _, _, ds0 = c13rt.build_family(f0)
        without = fn(ds0)
        if how == "dslib":
            # UFO-level keys naming other glyphs must be ignored in designspace builds
            f1 = dict(fam, ds_skip=skip)
            _, _, ds1 = c13rt.build_family(f1)
            for s in ds1.sources:
                s.font.lib["public.skipExportGlyphs"] = [g for g in s.font.keys() if g.startswith("g")][:1]
            with_ = fn(ds1)
        else:
            _, _, ds1 = c13rt.build_family(dict(fam, ds_skip=skip))
            with_ = fn(ds1)
        for k, (s1, s0) in enumerate(zip(with_.sources, without.sources)):
            if s1.layerName is not None:
                # sparse master: only the glyph set / rendering of what it contains
                o1, o0 = s1.font.getGlyphOrder(), s0.font.getGlyphOrder()
                if [g for g in o1 if g in skip]:
                    problems.append((f"interp-{flavor}-{how}-sparse{k}", "skipped glyph in sparse master", o1))
                continue
            _compare(f"interp-{flavor}-{how}-m{k}", s1.font, s0.font, skip, problems)
    return problems


# ---- V: variable fonts from component chains with skipped links and sparse masters ------------------------------------------------
def gen_chain(rng):
    """top -> c1 -> ... -> leaf (a rectangle); any links may be skipped; one non-top link has an extra SPARSE master that is
    clearly off the line between the two full masters.  Plus an unrelated glyph `base` used by `top`."""
    depth = rng.randint(2, 3)
    chain = ["top"] + [f"link{i}" for i in range(1, depth)] + ["leaf"]
    offs = [[rng.choice([0, 100, 200]), rng.choice([0, 300, 400])] for _ in chain[:-1]]
    skip = [g for g in chain[1:] if rng.random() < 0.7]
    sparse_glyph = rng.choice(chain[1:])
    return {
        "chain": chain, "offsets": offs, "skip": skip, "sparse_glyph": sparse_glyph,
        "leaf_h": [rng.choice([100, 150]), rng.choice([120, 200])], "sparse_h": rng.choice([300, 420]),
        "sparse_off": [rng.choice([0, 50]), rng.choice([500, 650])], "widths": [500, 600, 550],
    }


def build_chain_ds(d, skip):
    import ufoLib2
    from fontTools.designspaceLib import AxisDescriptor, DesignSpaceDocument, SourceDescriptor

    def rect(g, x0, y0, x1, y1):
        pen = g.getPen()
        pen.moveTo((x0, y0)); pen.lineTo((x1, y0)); pen.lineTo((x1, y1)); pen.lineTo((x0, y1)); pen.closePath()

    def master(k):
        u = ufoLib2.Font()
        u.info.familyName, u.info.styleName, u.info.unitsPerEm = "C13V", f"M{k}", 1000
        u.info.ascender, u.info.descender, u.info.xHeight, u.info.capHeight = 800, -200, 500, 700
        g = u.newGlyph("base"); g.width = d["widths"][k]; g.unicodes = [0x61]; rect(g, 0, 0, 100, 100 + 40 * k)
        for i, nm in enumerate(d["chain"]):
            g = u.newGlyph(nm); g.width = d["widths"][k]
            if nm == "top":
                g.unicodes = [0x62]
                g.getPen().addComponent("base", (1, 0, 0, 1, 0, 0))
            if nm == "leaf":
                rect(g, 0, 0, 100, d["leaf_h"][k])
            else:
                ox, oy = d["offsets"][i]
                g.getPen().addComponent(d["chain"][i + 1], (1, 0, 0, 1, ox + 10 * k, oy))
        u.glyphOrder = ["base"] + d["chain"]
        return u

    m0, m1 = master(0), master(1)
    layer = m0.newLayer("Mid")
    g = layer.newGlyph(d["sparse_glyph"]); g.width = d["widths"][2]
    if d["sparse_glyph"] == "leaf":
        rect(g, 0, 0, 100, d["sparse_h"])
    else:
        i = d["chain"].index(d["sparse_glyph"])
        g.getPen().addComponent(d["chain"][i + 1], (1, 0, 0, 1, d["sparse_off"][0], d["sparse_off"][1]))
    ds = DesignSpaceDocument()
    ax = AxisDescriptor(); ax.name, ax.tag, ax.minimum, ax.default, ax.maximum = "Weight", "wght", 100, 100, 300
    ds.addAxis(ax)
    for nm, font, ln, loc in (("R", m0, None, 100), ("Mid", m0, "Mid", 200), ("B", m1, None, 300)):
        sd = SourceDescriptor(); sd.name, sd.font, sd.layerName, sd.location = nm, font, ln, {"Weight": loc}
        sd.familyName, sd.styleName = "C13V", nm
        ds.addSource(sd)
    if skip is not None:
        ds.lib["public.skipExportGlyphs"] = list(skip)
    return ds


def _render_at(vf, name, wght):
    from fontTools.pens.recordingPen import DecomposingRecordingPen

    gs = vf.getGlyphSet(location={"wght": wght})
    pen = DecomposingRecordingPen(gs)
    gs[name].draw(pen)
    out, cur = [], []
    for op, pts in pen.value:
        if op in ("closePath", "endPath"):
            out.append(sorted(cur)); cur = []
        else:
            cur += [(p[0], p[1]) for p in pts if p is not None]
    return sorted(out), gs[name].width


def _close(a, b, tol=2.0):
    return same_contours(a, b, tol)


def observe_chain(d, flavors):
    import ufo2ft

    problems = []
    skip = set(d["skip"])
    for flavor in flavors:
        fn = ufo2ft.compileVariableTTF if flavor == "ttf" else ufo2ft.compileVariableCFF2
        without = fn(build_chain_ds(d, None))
        with_ = fn(build_chain_ds(d, d["skip"]))
        o1, o0 = with_.getGlyphOrder(), without.getGlyphOrder()
        if o1 != [g for g in o0 if g not in skip]:
            problems.append((f"vf-{flavor}", "glyph order", {"with": o1, "without": o0}))
            continue
        for g in o1:
            for wght in (100, 150, 200, 250, 300):
                (c1, w1), (c0, w0) = _render_at(with_, g, wght), _render_at(without, g, wght)
                if not _close(c1, c0) or abs(w1 - w0) > 1:
                    problems.append((f"vf-{flavor}", f"{g} renders differently at wght={wght}", {"with": [c1, w1], "without": [c0, w0]}))
                    break
    return problems


@hook("C13")
def c13_extra(tier, seed):
    import logging

    res = {"obligations": 0, "discharged": 0, "bounded": [], "violations": [], "checker_errors": [], "evaluations": 0, "distinct": 0, "trusted": [], "assumptions": []}
    logging.disable(logging.CRITICAL)
    try:
        _run(tier, seed, res)
    finally:
        logging.disable(logging.NOTSET)
    return res


def callsites(res):
    """syntactic, exhaustive: the two skip-export filters (static and interpolatable; pyvc cannot execute the latter) leave
    `reverseFlipped` of decomposeCompositeGlyph at its default True / pass the literal True (scanner shared with C01)"""
    from . import c01 as H1

    obs, fails = H1.scan_callsites()
    mine = [(lab, det) for lab, det in fails if "skipExportGlyphs.py" in lab or "util.py" in lab]
    # obligations counted here: the call sites inside filters/skipExportGlyphs.py + the declared default in util.py
    import ast as _ast

    path = os.path.join(H1.REPO, "Lib", "ufo2ft", "filters", "skipExportGlyphs.py")
    n_sites = sum(1 for n in _ast.walk(_ast.parse(open(path, encoding="utf-8").read()))
                  if isinstance(n, _ast.Call) and (getattr(n.func, "id", None) or getattr(n.func, "attr", None)) == "decomposeCompositeGlyph")
    if n_sites == 0:
        res["checker_errors"].append("C13.callsites: no call of decomposeCompositeGlyph found in filters/skipExportGlyphs.py (scanner out of date)")
    res["obligations"] += n_sites + 1
    res["discharged"] += max(0, n_sites + 1 - len(mine))
    for lab, det in mine:
        res["violations"].append(_violation(f"C13.callsites.{lab}", {"kind": "syntactic", "detail": det,
                                 "what": "an inlined non-export glyph is drawn without reversing flipped components: a mirrored reference changes the winding of a remaining glyph"}))
    res["assumptions"].append("syntactic obligations C13.callsites.*: AST scan of filters/skipExportGlyphs.py and the default of util.decomposeCompositeGlyph (no aliasing), shared with C01.callsites")


def _run(tier, seed, res):
    try:
        callsites(res)
    except Exception:
        res["checker_errors"].append("C13 call-site scan crashed: " + traceback.format_exc()[-600:])
    # L
    n, bad = order_lemma(tier)
    res["evaluations"] += n
    res["distinct"] += n
    res["bounded"].append({"what": "cross-check of the PROVED order lemma (lemmas C13.ord.*): end statement official_order(N-S,O) == [x in official_order(N,O) | x not in S] enumerated",
                           "bound": f"all N over 4 names incl. .notdef x all S over 5 names x all order lists up to length {2 if tier == 'quick' else 4}: {n} cases", "failures": 0 if bad is None else 1})
    if bad is not None:
        res["violations"].append(_violation("C13.lemma.order", {"input": bad, "clause": "official_order(N - S, O) == [x for x in official_order(N, O) if x not in S]"}))
    try:
        tot, rep, lbad = lemmas_native(tier)
        res["evaluations"] += tot
        res["bounded"].append({"what": "cross-check: every lemma C13.ord.* evaluated natively (hypotheses => conclusion) on all small assignments",
                               "bound": "assignments with true hypotheses per lemma: " + ", ".join(f"{k}={v}" for k, v in rep.items()), "failures": len(lbad)})
        for b in lbad[:2]:
            res["violations"].append(_violation("C13.lemma.native." + b["lemma"], {"input": b["assignment"], "clause": b["conclusion"], "what": "a lemma of the order proof is FALSE on this assignment (mis-stated lemma)"}))
        if not lbad:
            for k, v in rep.items():
                if v == 0:
                    res["checker_errors"].append(f"C13 order proof: the hypotheses of lemma C13.ord.{k} hold on no small assignment (vacuous lemma?)")
        ns, sbad = sorted_conformance(tier)
        res["evaluations"] += ns
        res["bounded"].append({"what": "conformance of the TRUSTED clauses about sorted() (empty; greatest element last) and of sx_keep == list comprehension with real Python",
                               "bound": f"{ns} evaluations over all subsets of a pool of strings (mixed case, prefix pairs, '.notdef')", "failures": len(sbad)})
        for b in sbad[:2]:
            res["violations"].append(_violation("C13.trusted.sorted." + b["clause"].split()[0], {"input": b, "what": "a trusted clause about sorted() / the filter definition does not hold for real Python"}))
    except Exception:
        res["checker_errors"].append("C13 lemma cross-check crashed: " + traceback.format_exc()[-800:])
    res["trusted"] += ["sorted(X) of a finite set of strings = its increasing enumeration, in the form: sorted(empty) == []; m greatest of X => sorted(X) == sorted(X - {m}) + [m] (lemmas C13.ord.sorted.*)"]
    res["assumptions"] += ["induction schemes of the order proof (natural numbers; finite sets by removing the greatest element) are applied at the meta level: each is a base lemma + a step lemma",
                           "glyph name sets are finite"]
    # S
    try:
        ev, fails = summaries(tier, seed)
        res["evaluations"] += ev
        res["bounded"].append({"what": "summaries: getInterpolatedLayers, ensureCompositeDefinedAtComponentLocations (frame), prune_unknown_kwargs, SkipExportGlyphsFilter(names) constructor", "bound": f"{ev} run-time evaluations on generated master families", "failures": len(fails)})
        for f in fails[:2]:
            res["violations"].append(_violation(f"C13.summary.{f[0].split(':')[-1]}", {"input": f[1], "observed": f[2]}))
    except Exception:
        res["checker_errors"].append("C13 summaries crashed: " + traceback.format_exc()[-800:])
    # K
    try:
        ev, fails = kerning_prune(tier, seed)
        res["evaluations"] += ev
        res["bounded"].append({"what": "getKerningGroups / getKerningPairs mention only glyphs of the (filtered) glyph set", "bound": f"{ev} generated group / kerning tables", "failures": len(fails)})
        for f in fails[:2]:
            res["violations"].append(_violation("C13.kerning.pruned-by-glyph-set", {"input": f[1], "observed": f[2], "kind": f[0]}))
    except Exception:
        res["checker_errors"].append("C13 kerning conformance crashed: " + traceback.format_exc()[-800:])
    # O
    from contracts import c13rt

    rng = random.Random(seed + 1300)
    n_static = 6 if tier == "quick" else 300
    n_interp = 3 if tier == "quick" else 150
    ev = 0
    probs = []
    try:
        for k in range(n_static):
            d = gen_font(rng)
            how = "arg" if k % 2 == 0 else "lib"
            ps = observe_static(d, how)
            ev += 2
            probs += [(p, d) for p in ps]
            if probs:
                break
        if not probs:
            for k, fam in enumerate(c13rt.family_cases(rng, n_interp, with_inst=True)):
                how = "dslib" if k % 2 == 0 else "dslib-only"
                ps = observe_interpolatable(fam, how)
                ev += 2
                probs += [(p, fam) for p in ps]
                if probs:
                    break
    except Exception:
        res["checker_errors"].append("C13 observer crashed: " + traceback.format_exc()[-1200:])
    # V
    n_chain = 4 if tier == "quick" else 200
    vprobs = []
    try:
        for k in range(n_chain):
            d = gen_chain(rng)
            ps = observe_chain(d, ("ttf",) if tier == "quick" or k % 4 else ("ttf", "cff2"))
            ev += 1
            vprobs += [(p, d) for p in ps]
            if vprobs:
                break
    except Exception:
        res["checker_errors"].append("C13 variable-font observer crashed: " + traceback.format_exc()[-1200:])
    res["bounded"].append({"what": "observer: variable fonts from component chains with skipped links and a sparse intermediate master; every remaining glyph rendered at 5 locations with / without skipping",
                           "bound": f"{n_chain} generated designspaces (variable TTF; CFF2 for a quarter of them in tier thorough), tolerance 2 units", "failures": len(vprobs)})
    for (tag, what, detail), inp in vprobs[:2]:
        res["violations"].append(_violation(f"C13.observer.{tag}", {"input": inp, "what": what, "observed": detail}))
    res["evaluations"] += ev
    res["distinct"] += ev
    res["bounded"].append({"what": "observer: compile with / without skipping, compare order, cmap, advances, flattened contours, pair kerning of remaining glyphs",
                           "bound": f"{n_static} static fonts x (TTF, OTF) + {n_interp} designspace families x (TTF, OTF) masters", "failures": len(probs)})
    for (tag, what, detail), inp in probs[:3]:
        res["violations"].append(_violation(f"C13.observer.{tag}", {"input": inp, "what": what, "observed": detail}))
    res["trusted"] += ["fontTools TTFont.getGlyphSet / DecomposingRecordingPen (rendering), GPOS PairPos decoding in the observer"]
