"""C02 — parts of the check that are not function contracts.

* `C02.frame.base-set-context` (syntactic): BaseFilter.set_context still is "create the namespace, store it in
  self.context, return it" — the summary the set_context contracts use for `super().set_context(...)`.
* `C02.frame.instruction-compiler` (syntactic): InstructionCompiler.compileGlyphInstructions and what it calls inside the class only
  assign `.program` / `.flags` / `.flags[0]` — the frame summary used by the setupTable_glyf contract.
* `C02.frame.component-attributes` (syntactic): flattenComponents.py and util.getMaxComponentDepth never assign a component's
  `baseGlyph` / `transformation` (modelled as immutable in the contracts).
* bounded, exhaustive small scope: util.getMaxComponentDepth on EVERY component graph over 3 glyph names (each glyph: up to
  two components drawn from the three names and one missing name): raises InvalidFontData iff a cycle is reachable from the
  start glyph; otherwise result == height of the component tree.  (The acyclic half is ALSO a deductive contract in contracts/c02.py;
  "a cycle is reachable => raises" is a transitive-closure property the clause language cannot state.)
* bounded end-to-end observer: random UFOs -> compileTTF (flatten on/off, cubic conversion on/off, reversal on/off) -> save ->
  reload -> glyf / maxp compared with the independent renderer: point-for-point for line/quadratic outlines, mixed glyphs
  decomposed, pure composites keep their references, flattened composites have depth <= 1 and render the same shape,
  converted cubics stay within the configured error.
"""
from __future__ import annotations

import ast
import io
import itertools
import math
import os
import random
import traceback
from types import SimpleNamespace

from vcheck.extra import hook

from . import c15_render as R
from .c01 import REPO, write_replay

# ---- syntactic frame obligation ------------------------------------------------------------------------------------------


def scan_base_set_context():
    path = os.path.join(REPO, "Lib", "ufo2ft", "filters", "base.py")
    tree = ast.parse(open(path, encoding="utf-8").read())
    fails = []
    fn = None
    for n in ast.walk(tree):
        if isinstance(n, ast.ClassDef) and n.name == "BaseFilter":
            for m in n.body:
                if isinstance(m, ast.FunctionDef) and m.name == "set_context":
                    fn = m
    if fn is None:
        return 1, [("Lib/ufo2ft/filters/base.py", "BaseFilter.set_context not found")]
    body = [s for s in fn.body if not (isinstance(s, ast.Expr) and isinstance(s.value, ast.Constant))]
    src = [ast.unparse(s) for s in body]
    obs = 3
    if not (src and src[0].startswith("self.context = SimpleNamespace(") and "font=font" in src[0] and "glyphSet=glyphSet" in src[0]):
        fails.append((f"Lib/ufo2ft/filters/base.py:{fn.lineno}", "first statement is no longer `self.context = SimpleNamespace(font=font, glyphSet=glyphSet)`"))
    if not (src and src[-1] == "return self.context"):
        fails.append((f"Lib/ufo2ft/filters/base.py:{fn.lineno}", "does not end with `return self.context`"))
    for s in body[1:-1]:
        for n in ast.walk(s):
            if isinstance(n, ast.Attribute) and isinstance(n.ctx, ast.Store):
                tgt = ast.unparse(n)
                if not tgt.startswith("self.context."):
                    fails.append((f"Lib/ufo2ft/filters/base.py:{n.lineno}", f"stores to {tgt} (only fields of the fresh namespace may be set)"))
                if n.attr in ("absoluteError", "matrix"):
                    fails.append((f"Lib/ufo2ft/filters/base.py:{n.lineno}", f"base class sets context.{n.attr}"))
    return obs, fails


def scan_instruction_compiler_frame():
    """C02.frame.instruction-compiler: `InstructionCompiler.compileGlyphInstructions(ttGlyph, name)` — called by setupTable_glyf for every
    glyph just before it is stored in the glyf table — and everything it calls inside the class assign ONLY `<x>.program`, `<x>.flags`
    (augmented) and `<x>.flags[0]` (augmented): the frame summary the setupTable_glyf contract uses (coordinates, component glyph names,
    offsets and 2x2 parts of the glyf record are not written).  Three obligations: the methods exist; every store is one of the allowed
    forms; no setattr / delattr / del / global store."""
    path = os.path.join(REPO, "Lib", "ufo2ft", "instructionCompiler.py")
    tree = ast.parse(open(path, encoding="utf-8").read())
    klass = next((n for n in tree.body if isinstance(n, ast.ClassDef) and n.name == "InstructionCompiler"), None)
    where = "Lib/ufo2ft/instructionCompiler.py"
    if klass is None:
        return 3, [(where, "class InstructionCompiler not found")]
    methods = {m.name: m for m in klass.body if isinstance(m, ast.FunctionDef)}
    # the call closure of compileGlyphInstructions inside the class (self.<m>(...) calls)
    todo, seen = ["compileGlyphInstructions"], set()
    while todo:
        m = todo.pop()
        if m in seen or m not in methods:
            continue
        seen.add(m)
        for n in ast.walk(methods[m]):
            if isinstance(n, ast.Call) and isinstance(n.func, ast.Attribute) and isinstance(n.func.value, ast.Name) and n.func.value.id == "self":
                todo.append(n.func.attr)
    fails = []
    if "compileGlyphInstructions" not in methods:
        fails.append((where, "compileGlyphInstructions not found"))
    for m in sorted(seen):
        fn = methods[m]
        for n in ast.walk(fn):
            targets = []
            if isinstance(n, ast.Assign):
                targets = n.targets
            elif isinstance(n, (ast.AugAssign, ast.AnnAssign)):
                targets = [n.target]
            elif isinstance(n, ast.Delete):
                fails.append((f"{where}:{n.lineno}", f"`del` in {m}"))
            elif isinstance(n, (ast.Global, ast.Nonlocal)):
                fails.append((f"{where}:{n.lineno}", f"global/nonlocal in {m}"))
            elif isinstance(n, ast.Call) and isinstance(n.func, ast.Name) and n.func.id in ("setattr", "delattr"):
                fails.append((f"{where}:{n.lineno}", f"{n.func.id}() in {m}"))
            for t in targets:
                for x in ast.walk(t):
                    if isinstance(x, ast.Attribute) and isinstance(x.ctx, ast.Store):
                        if x.attr not in ("program", "flags"):
                            fails.append((f"{where}:{x.lineno}", f"{m} stores to attribute .{x.attr}"))
                    elif isinstance(x, ast.Subscript) and isinstance(x.ctx, ast.Store):
                        if not (isinstance(x.value, ast.Attribute) and x.value.attr == "flags"):
                            fails.append((f"{where}:{x.lineno}", f"{m} stores to {ast.unparse(x)}"))
    return 3, fails


def scan_component_attributes():
    """C02.frame.component-attributes: contracts/c02.py models a component's `baseGlyph` / `transformation` as immutable (functions of the
    component object).  That is what the code under contract does: filters/flattenComponents.py and util.getMaxComponentDepth never store to
    an attribute `.baseGlyph` / `.transformation` (nor call setattr).  Two obligations (one per place)."""
    fails = []
    places = []
    tree = ast.parse(open(os.path.join(REPO, "Lib", "ufo2ft", "filters", "flattenComponents.py"), encoding="utf-8").read())
    places.append(("Lib/ufo2ft/filters/flattenComponents.py", tree))
    util = ast.parse(open(os.path.join(REPO, "Lib", "ufo2ft", "util.py"), encoding="utf-8").read())
    fn = next((n for n in util.body if isinstance(n, ast.FunctionDef) and n.name == "getMaxComponentDepth"), None)
    if fn is None:
        fails.append(("Lib/ufo2ft/util.py", "getMaxComponentDepth not found"))
    else:
        places.append(("Lib/ufo2ft/util.py:getMaxComponentDepth", fn))
    for where, root in places:
        for n in ast.walk(root):
            if isinstance(n, ast.Attribute) and isinstance(n.ctx, (ast.Store, ast.Del)) and n.attr in ("baseGlyph", "transformation"):
                fails.append((f"{where}:{n.lineno}", f"stores to {ast.unparse(n)} (component attributes are modelled as immutable)"))
            if isinstance(n, ast.Call) and isinstance(n.func, ast.Name) and n.func.id in ("setattr", "delattr"):
                fails.append((f"{where}:{n.lineno}", f"{n.func.id}(...) (component attributes are modelled as immutable)"))
    return 2, fails


# ---- getMaxComponentDepth: exhaustive small scope ------------------------------------------------------------------------


def _depth_oracle(graph, start):
    """(cycle reachable from start?, height of start) over the existing glyphs — plain DFS on the dict"""
    state = {}
    cyc = False

    def go(n):
        nonlocal cyc
        state[n] = 1
        h = 0
        for b in graph[n]:
            if b not in graph:
                h = max(h, 1)
                continue
            if state.get(b) == 1:
                cyc = True
                continue
            hb = go(b) if b not in state else heights[b]
            h = max(h, 1 + hb)
        state[n] = 2
        heights[n] = h
        return h

    heights = {}
    h = go(start)
    return cyc, h


def check_depth_graph(graph, start):
    from ufo2ft.errors import InvalidFontData
    from ufo2ft.util import getMaxComponentDepth

    gs = {n: SimpleNamespace(name=n, components=[SimpleNamespace(baseGlyph=b) for b in comps]) for n, comps in graph.items()}
    cyc, h = _depth_oracle(graph, start)
    try:
        r = getMaxComponentDepth(gs[start], gs)
    except InvalidFontData:
        return None if cyc else "raised InvalidFontData although no cycle is reachable"
    except RecursionError:
        return "RecursionError (cycle not detected)"
    if cyc:
        return f"returned {r} although a cyclic component reference is reachable"
    if (r > 0) != (len(graph[start]) > 0):
        return f"returned {r} for a glyph with {len(graph[start])} components"
    if r != h:
        return f"returned {r}, the height of the component tree is {h}"
    return None


def depth_scope(tier, rng):
    names = ["A", "B", "C"]
    pool = names + ["Z"]
    opts = [()] + [(a,) for a in pool] + [(a, b) for a in pool for b in pool]
    if tier == "quick":
        for combo in itertools.product(opts, repeat=3):
            yield dict(zip(names, combo))
    else:
        for combo in itertools.product(opts, repeat=3):
            yield dict(zip(names, combo))
        names4 = ["A", "B", "C", "D"]
        pool4 = names4 + ["Z"]
        opts4 = [()] + [(a,) for a in pool4] + [(a, b) for a in pool4 for b in pool4] + [(a, b, c) for a in pool4 for b in pool4 for c in pool4]
        for _ in range(150000):
            yield {n: rng.choice(opts4) for n in names4}


# ---- end-to-end observer -------------------------------------------------------------------------------------------------


def _limit(desc):
    """TrueType 2x2 entries are F2Dot14: keep them strictly inside (-2, 2) so that multiples of 1/8 are exact"""
    for g in desc.values():
        for c in g["components"]:
            c[1][:4] = [max(-1.75, min(1.75, v)) for v in c[1][:4]]
            if abs(c[1][0] * c[1][3] - c[1][1] * c[1][2]) < 0.125:
                c[1][:4] = [1, 0, 0, 1]
    return desc


def _read_glyf(font):
    glyf = font["glyf"]
    out = {}
    for name in font.getGlyphOrder():
        g = glyf[name]
        if g.isComposite():
            out[name] = {"components": [list(c.getComponentInfo()) for c in g.components], "contours": []}
        elif g.numberOfContours > 0:
            coords, ends, flags = g.getCoordinates(glyf)
            cs, s = [], 0
            for e in ends:
                cs.append([(coords[i][0], coords[i][1], bool(flags[i] & 1)) for i in range(s, e + 1)])
                s = e + 1
            out[name] = {"components": [], "contours": cs}
        else:
            out[name] = {"components": [], "contours": []}
    return out


def _render_compiled(name, comp, t=R.IDENT, depth=0):
    g = comp[name]
    out = [[(*R.apply(t, (x, y)), on) for x, y, on in c] for c in g["contours"]]
    if depth > 8:
        raise RecursionError
    for base, tr in g["components"]:
        out += _render_compiled(base, comp, R.compose(t, tuple(tr)), depth + 1)
    return out


def _depth(name, comp):
    g = comp[name]
    return 0 if not g["components"] else 1 + max(_depth(b, comp) for b, _ in g["components"])


def _som(g):
    return not g["components"] or len(g["contours"]) > 0


def _flatten_expected(desc, name):
    """independent flattening: expand composites that are not simple-or-mixed, composing transforms"""
    out = []

    def go(base, t):
        g = desc[base]
        if _som(g):
            out.append((base, t))
        else:
            for b, tr in g["components"]:
                go(b, R.compose(t, tuple(tr)))

    for b, tr in desc[name]["components"]:
        go(b, tuple(tr))
    return out


def _sample_cubic(p0, p1, p2, p3, n=12):
    for k in range(n + 1):
        t = k / n
        a, b, c, d = (1 - t) ** 3, 3 * t * (1 - t) ** 2, 3 * t * t * (1 - t), t ** 3
        yield (a * p0[0] + b * p1[0] + c * p2[0] + d * p3[0], a * p0[1] + b * p1[1] + c * p2[1] + d * p3[1])


def _tt_polyline(contour, n=24):
    """dense polyline of a TrueType quadratic contour (cyclic flagged points, implied on-curve points made explicit)"""
    pts = list(contour)
    m = len(pts)
    exp = []
    for i, p in enumerate(pts):
        q = pts[(i + 1) % m]
        exp.append(p)
        if not p[2] and not q[2]:
            exp.append(((p[0] + q[0]) / 2, (p[1] + q[1]) / 2, True))
    start = next((i for i, p in enumerate(exp) if p[2]), None)
    if start is None:
        return [(p[0], p[1]) for p in exp]
    exp = exp[start:] + exp[:start]
    exp.append(exp[0])
    poly = [(exp[0][0], exp[0][1])]
    i = 0
    while i < len(exp) - 1:
        a = exp[i]
        b = exp[i + 1]
        if b[2]:
            poly.append((b[0], b[1]))
            i += 1
        else:
            c = exp[i + 2]
            for k in range(1, n + 1):
                t = k / n
                poly.append(((1 - t) ** 2 * a[0] + 2 * t * (1 - t) * b[0] + t * t * c[0], (1 - t) ** 2 * a[1] + 2 * t * (1 - t) * b[1] + t * t * c[1]))
            i += 2
    return poly


def _dist_to_poly(p, poly):
    best = float("inf")
    for (x1, y1), (x2, y2) in zip(poly, poly[1:]):
        dx, dy = x2 - x1, y2 - y1
        L = dx * dx + dy * dy
        t = 0 if L == 0 else max(0, min(1, ((p[0] - x1) * dx + (p[1] - y1) * dy) / L))
        best = min(best, math.hypot(p[0] - (x1 + t * dx), p[1] - (y1 + t * dy)))
    return best


def observe_ttf(case):
    import ufo2ft
    from contracts import rtlib
    from fontTools.ttLib import TTFont

    desc = case["glyphs"]
    d = {"glyphs": {n: {"width": g["width"], "contours": g["contours"], "components": g["components"]} for n, g in desc.items()},
         "info": {"unitsPerEm": case.get("upm", 1000), "ascender": 800, "descender": -200, "xHeight": 500, "capHeight": 700, "familyName": "T", "styleName": "R"}}
    d["glyphs"].setdefault(".notdef", {"width": 500})
    ufo = rtlib.build_ufo(d, case["lib"])
    kw = dict(useProductionNames=False, flattenComponents=case["flatten"], convertCubics=case["convertCubics"], reverseDirection=case["reverse"])
    if case.get("err") is not None:
        kw["cubicConversionError"] = case["err"]
    ttf = ufo2ft.compileTTF(ufo, **kw)
    buf = io.BytesIO()
    ttf.save(buf)
    buf.seek(0)
    font = TTFont(buf)
    comp = _read_glyf(font)
    bad = []
    rev = (lambda cs: [list(reversed(c)) for c in cs]) if case["reverse"] else (lambda cs: cs)
    has_cubic = {n: any(p[2] == "curve" for c in g["contours"] for p in c) for n, g in desc.items()}
    # after the decompose-mixed filter a glyph is simple iff it has own contours
    for name, g in desc.items():
        if name not in comp:
            bad.append({"glyph": name, "what": "glyph missing from glyf"})
            continue
        cg = comp[name]
        for base, _ in cg["components"]:
            if base not in comp:
                bad.append({"glyph": name, "what": f"component base {base} not in the font"})
        src_cubic = any(has_cubic[b] for b in _reach(desc, name))
        if g["contours"]:
            # simple or mixed source: stored as contours, components resolved (mirrored ones reversed), TrueType direction
            if cg["components"]:
                bad.append({"glyph": name, "what": "mixed glyph (contours + components) was not decomposed"})
                continue
            exp = rev(R.resolve(name, desc))
            if src_cubic:
                if case["convertCubics"]:
                    e = _cu2qu_error(R.resolve_typed(name, desc), cg["contours"])
                    lim = (case.get("err") or 0.001) * case.get("upm", 1000) + 0.75
                    if e is None or e > lim:
                        bad.append({"glyph": name, "what": f"converted spline is {e} away from the source cubic (allowed {lim})"})
                continue
            expr = R.round_contours(exp)
            if R.degenerate(expr):
                continue
            if not R.same_shape(expr, cg["contours"]):
                bad.append({"glyph": name, "what": "glyf outline != source outline (rounded, TrueType direction)", "expected": expr, "got": cg["contours"]})
        elif g["components"]:
            if not case["flatten"]:
                # pure composite: references kept, in order, offsets rounded, 2x2 exact (F2Dot14-representable by construction)
                exp = [[b, [*tr[:4], R.ot_round(tr[4]), R.ot_round(tr[5])]] for b, tr in g["components"]]
                got = [[b, list(tr)] for b, tr in cg["components"]]
                if cg["contours"] or [e[0] for e in exp] != [x[0] for x in got] or any(abs(a - b_) > 1e-9 for e, x in zip(exp, got) for a, b_ in zip(e[1], x[1])):
                    bad.append({"glyph": name, "what": "composite does not keep its component references / offsets / 2x2 transforms", "expected": exp, "got": got or cg["contours"]})
            else:
                if cg["components"] and _depth(name, comp) > 1:
                    bad.append({"glyph": name, "what": f"flattenComponents: nesting depth {_depth(name, comp)} > 1"})
                exp = _flatten_expected(desc, name)
                if cg["components"]:
                    got = [(b, tuple(tr)) for b, tr in cg["components"]]
                    ok = [b for b, _ in exp] == [b for b, _ in got] and all(
                        all(abs(a - b_) <= 1e-9 for a, b_ in zip(e[1][:4], x[1][:4])) and x[1][4] == R.ot_round(e[1][4]) and x[1][5] == R.ot_round(e[1][5])
                        for e, x in zip(exp, got) if all(abs(v) < 2 for v in e[1][:4]))
                    if not ok:
                        bad.append({"glyph": name, "what": "flattened references != component.T o nested.T (independent composition)", "expected": exp, "got": got})
    # maxp agrees with the data
    md = max([_depth(n, comp) for n in comp] or [0])
    me = max([len(comp[n]["components"]) for n in comp] or [0])
    if font["maxp"].maxComponentDepth != md or font["maxp"].maxComponentElements != me:
        bad.append({"glyph": "*", "what": f"maxp depth/elements {font['maxp'].maxComponentDepth}/{font['maxp'].maxComponentElements} != data {md}/{me}"})
    return bad


def _reach(desc, name, seen=None):
    seen = seen if seen is not None else set()
    if name in seen or name not in desc:
        return seen
    seen.add(name)
    for b, _ in desc[name]["components"]:
        _reach(desc, b, seen)
    return seen


def _cu2qu_error(src_contours, tt_contours):
    """max distance from sampled source cubic/line segments to the compiled quadratic outline (None: no outline)"""
    polys = [_tt_polyline(c) for c in tt_contours]
    if not polys:
        return None
    worst = 0.0
    for c in src_contours:
        # c: list of (x, y, type) in point-pen order, closed
        n = len(c)
        on = [i for i, p in enumerate(c) if p[2] is not None]
        for a, b in zip(on, on[1:] + [on[0] + n]):
            seg = [c[i % n] for i in range(a, b + 1)]
            if len(seg) == 4:
                samples = list(_sample_cubic(seg[0], seg[1], seg[2], seg[3]))
            else:
                samples = [(seg[0][0], seg[0][1]), (seg[-1][0], seg[-1][1])]
            for s in samples:
                worst = max(worst, min(_dist_to_poly(s, p) for p in polys))
    return worst


def gen_case(rng, k):
    cubic = k % 4 == 3
    desc = _limit(R.rand_graph(rng, n_base=rng.randint(1, 2), n_comp=rng.randint(1, 4), depth=3, curves=("cubic" if cubic else ("quadratic" if k % 2 else None)), mixed=True))
    return {"glyphs": desc, "lib": ["ufoLib2", "defcon"][k % 2], "flatten": bool((k // 2) % 2), "convertCubics": True if cubic else bool((k // 4) % 2),
            "reverse": bool((k // 3) % 2) or cubic, "err": [None, 0.002][(k // 8) % 2] if cubic else None, "upm": [1000, 2048][(k // 16) % 2]}


@hook("C02")
def c02_bounded(tier, seed):
    res = {"obligations": 0, "discharged": 0, "violations": [], "checker_errors": [], "evaluations": 0, "distinct": 0, "bounded": [], "trusted": [], "assumptions": []}
    for oname, scan in (("base-set-context", scan_base_set_context), ("instruction-compiler", scan_instruction_compiler_frame),
                        ("component-attributes", scan_component_attributes)):
        try:
            obs, fails = scan()
            res["obligations"] += obs
            res["discharged"] += obs - min(obs, len(fails))
            for label, detail in fails:
                p = write_replay("C02", f"frame.{oname}.{label}", {"property": "C02", "obligation": f"C02.frame.{oname}", "kind": "syntactic", "detail": detail, "case": None})
                res["violations"].append(f"VIOLATION property=C02 replay={p} obligation=C02.frame.{oname} ({detail})")
        except Exception:
            res["checker_errors"].append(f"C02 syntactic scan {oname} crashed: " + traceback.format_exc()[-600:])
    # exhaustive small scope for getMaxComponentDepth
    rng = random.Random(seed * 104729 + 2)
    n_graphs = 0
    try:
        for graph in depth_scope(tier, rng):
            n_graphs += 1
            for start in graph:
                why = check_depth_graph(graph, start)
                res["evaluations"] += 1
                if why:
                    p = write_replay("C02", f"getMaxComponentDepth.{n_graphs}", {"property": "C02", "obligation": "C02.bounded.getMaxComponentDepth", "hook": "c02", "case": {"graph": graph, "start": start}, "observed": why})
                    res["violations"].append(f"VIOLATION property=C02 replay={p} obligation=C02.bounded.getMaxComponentDepth ({why}; graph {graph}, start {start})")
                    break
            if res["violations"]:
                break
    except Exception:
        res["checker_errors"].append("C02 getMaxComponentDepth scope crashed: " + traceback.format_exc()[-600:])
    res["distinct"] += n_graphs
    res["bounded"].append({"what": "util.getMaxComponentDepth: raises InvalidFontData iff a cyclic reference is reachable; result == the height of the component tree (> 0 iff the glyph has components)",
                           "bound": f"all {n_graphs} component graphs in scope (3 glyph names + 1 missing name, <= 2 components per glyph; thorough adds 150000 random graphs on 4 names, <= 3 components), every start glyph"})
    # end-to-end observer
    n = 24 if tier == "quick" else 2500
    for k in range(n):
        case = gen_case(rng, k)
        try:
            bad = observe_ttf(case)
        except Exception:
            res["checker_errors"].append("C02 observer crashed on a generated case: " + traceback.format_exc()[-700:])
            break
        res["evaluations"] += len(case["glyphs"])
        res["distinct"] += 1
        if bad:
            p = write_replay("C02", f"observer.{k}", {"property": "C02", "obligation": "C02.observer.compileTTF", "hook": "c02", "case": case, "observed": bad[:3]})
            res["violations"].append(f"VIOLATION property=C02 replay={p} obligation=C02.observer.compileTTF ({bad[0]['what']}, glyph {bad[0]['glyph']})")
            break
    res["bounded"].append({
        "what": "end-to-end observer: compileTTF -> save -> reload -> glyf/maxp vs independent renderer (point-for-point for line/quadratic outlines; mixed glyphs decomposed; "
                "composites keep references; flattened depth <= 1 with independently composed transforms; cubic conversion within conversionError*unitsPerEm + rounding)",
        "bound": f"{n} random UFOs (<= 7 glyphs, depth <= 3, dyadic affine maps with |entries| < 2) x {{ufoLib2, defcon}} x flatten x convertCubics x reverseDirection x cubicConversionError {{None, 0.002}} x unitsPerEm {{1000, 2048}}",
        "stands_in_for": "TRUSTED: cu2qu error bound, TTGlyphPointPen, DecomposingFilterPointPen, ReverseContourPointPen, glyf packing, maxp.recalc",
    })
    res["trusted"] += ["fontTools.pens.cu2quPen.Cu2QuPointPen (bounded: C02 observer)", "fontTools.pens.ttGlyphPen.TTGlyphPointPen (bounded: C02 observer)", "maxp.recalc (bounded: C02 observer)"]
    return res


def replay(path):
    """`.venv/bin/python -m vcheck.hooks.c02 <replay.json>` — re-run one bounded case"""
    import json

    with open(path) as f:
        pl = json.load(f)
    case = pl.get("case")
    print(json.dumps({k: v for k, v in pl.items() if k != "case"}, indent=1, default=str)[:2000])
    if case is None:
        return 0
    if "graph" in case:
        why = check_depth_graph({k: tuple(v) for k, v in case["graph"].items()}, case["start"])
        print("replay result:", why or "ok")
        return 1 if why else 0
    bad = observe_ttf(case)
    print("replay result:", bad[:2] if bad else "agrees with the reference semantics")
    return 1 if bad else 0


if __name__ == "__main__":
    import sys

    sys.exit(replay(sys.argv[1]))
