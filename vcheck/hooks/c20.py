"""C20 — bounded parts: getScriptLanguageSystems / _registerLookups on the real functions, shape of the generated blocks,
and the end-to-end observer on GPOS.ScriptList (per script / language: which generated positioning features are reachable).

Feature files WITHOUT any languagesystem statement are not observed: on the unchanged tree they violate the property (kerning is
registered per script, mark/mkmk/curs only under DFLT — finding F7, recorded by the lead).  The observer skips them and says how
many it skipped; `python -m vcheck.hooks.c20 f7` shows the case.  Files that kern a script for which no `languagesystem <tag> dflt`
is declared belong to the same class and are not generated either (see notes/C20.md).

`python -m vcheck.hooks.c20 replay <file>` re-runs one recorded case.
"""
from __future__ import annotations

import collections
import itertools
import json
import os
import random
import sys
import traceback

from vcheck.extra import hook
from vcheck.hooks.c17 import ROOT, Report, guarded

KERNING = {"kern", "dist"}
ATTACHING = {"mark", "mkmk", "curs", "abvm", "blwm"}


def _parse(text, glyphs=("a", "b")):
    from io import StringIO

    from fontTools.feaLib.parser import Parser

    return Parser(StringIO(text), glyphNames=set(glyphs), followIncludes=False).parse()


# =====================================================================================================================
# 1. ast.getScriptLanguageSystems: script tags and ALL languages per tag, whatever the statement order


def check_langsys(case):
    from fontTools import unicodedata

    from ufo2ft.featureWriters import ast

    pairs = case["pairs"]
    text = "".join(f"languagesystem {s} {l};\n" for s, l in pairs) + "feature liga {\n    sub a by b;\n} liga;\n"
    fea = _parse(text)
    fails = []
    for exclude in (True, False):
        got = ast.getScriptLanguageSystems(fea, excludeDflt=exclude)
        by_tag = collections.OrderedDict()
        for s, l in pairs:
            if s == "DFLT" and exclude:
                continue
            by_tag.setdefault(s, []).append(l.ljust(4) if len(l) < 4 else l)
        want = collections.OrderedDict()
        for tag, langs in by_tag.items():
            want.setdefault(unicodedata.ot_tag_to_script(tag), []).append((tag, langs))
        norm = lambda m: [(k, [(t, [x.strip() for x in ls]) for t, ls in v]) for k, v in m.items()]  # noqa: E731
        if norm(got) != norm(want):
            fails.append(("all-languages-per-tag", f"excludeDflt={exclude}: {norm(got)} expected {norm(want)}"))
    return fails


def langsys_domain(tier):
    tags = [("DFLT", "dflt"), ("latn", "dflt"), ("latn", "TRK"), ("latn", "AZE"), ("arab", "dflt"), ("arab", "URD"), ("dev2", "dflt"), ("deva", "dflt"), ("deva", "MAR")]
    cases = [{"pairs": []}]
    maxn = 4 if tier == "quick" else 5
    for n in range(1, maxn + 1):
        for combo in itertools.permutations(tags, n):
            # feaLib wants DFLT dflt first if present, and dflt before other languages is not required by the parser for non-DFLT scripts
            if ("DFLT", "dflt") in combo and combo[0] != ("DFLT", "dflt"):
                continue
            cases.append({"pairs": [list(p) for p in combo]})
    if tier == "quick":
        rng = random.Random(20)
        rng.shuffle(cases)
        cases = cases[:400]
    cases.append({"pairs": [["DFLT", "dflt"], ["latn", "dflt"], ["arab", "dflt"], ["latn", "TRK"], ["arab", "URD"]]})
    cases.append({"pairs": [["latn", "TRK"], ["arab", "URD"], ["latn", "dflt"], ["latn", "AZE"], ["arab", "dflt"], ["latn", "CRT"]]})
    return cases


# =====================================================================================================================
# 2. KernFeatureWriter._registerLookups


def _sections(feature):
    """[(script tag or None, language or None, include_default, [lookup names])] in order"""
    from fontTools.feaLib import ast as fa

    out = []
    script = lang = None
    incl = None
    for s in feature.statements:
        if isinstance(s, fa.ScriptStatement):
            script, lang, incl = s.script, None, None
        elif isinstance(s, fa.LanguageStatement):
            lang, incl = s.language.strip(), s.include_default
            out.append([script, lang, incl, []])
        elif isinstance(s, fa.LookupReferenceStatement):
            if not out or out[-1][0] != script or lang is None:
                out.append([script, lang, incl, []])
            out[-1][3].append(s.lookup.name)
    return out


def check_register(case):
    from fontTools import unicodedata
    from fontTools.feaLib import ast as fa

    from ufo2ft.featureWriters.kernFeatureWriter import DIST_ENABLED_SCRIPTS, KernFeatureWriter, script_direction
    from ufo2ft.util import DFLT_SCRIPTS

    fails = []
    lookups = {sc: {nm: fa.LookupBlock(nm) for nm in names} for sc, names in case["lookups"].items()}
    langs = {k: list(v) for k, v in case["languages"].items()}
    for tag in ("kern", "dist"):
        f = fa.FeatureBlock(tag)
        KernFeatureWriter._registerLookups(f, lookups, langs)
        secs = _sections(f)
        if any(sc is None for sc, *_ in secs):
            fails.append(("no-script-less-reference", f"{tag}: a lookup reference outside any script section"))
        reg = {}
        for sc, lang, incl, names in secs:
            reg.setdefault(sc, {})[lang] = (incl, names)
        want_scripts = {}
        if tag == "kern":
            dflt = []
            if "Zyyy" in lookups:
                dflt += list(lookups["Zyyy"])
            ltr = [n for sc in sorted(lookups) if sc not in DIST_ENABLED_SCRIPTS and script_direction(sc) == "LTR" for n in lookups[sc]]
            rtl = [n for sc in sorted(lookups) if sc not in DIST_ENABLED_SCRIPTS and script_direction(sc) == "RTL" for n in lookups[sc]]
            for n in (ltr or rtl):
                if n not in dflt:
                    dflt.append(n)
            if dflt:
                want_scripts["DFLT"] = dflt
            scripts = set(lookups) - DIST_ENABLED_SCRIPTS - DFLT_SCRIPTS
        else:
            scripts = (DIST_ENABLED_SCRIPTS & set(lookups)) - DFLT_SCRIPTS
        for sc in scripts:
            names = []
            for d in DFLT_SCRIPTS:
                if d in lookups:
                    names += [n for n in lookups[d] if n not in names]
            names += [n for n in lookups[sc] if n not in names]
            for ot in unicodedata.ot_tags_from_script(sc):
                want_scripts[ot] = names
        if set(reg) != set(want_scripts):
            fails.append(("registered-script-tags", f"{tag}: registered {sorted(reg)}, expected {sorted(want_scripts)}"))
        for ot, names in want_scripts.items():
            if ot not in reg:
                continue
            want_langs = {"dflt"} | {l.strip() for l in langs.get(ot, [])}
            if set(reg[ot]) != want_langs:
                fails.append(("all-languages-of-the-tag", f"{tag}/{ot}: languages {sorted(reg[ot])}, expected {sorted(want_langs)}"))
            d = reg[ot].get("dflt")
            if d is None or sorted(d[1]) != sorted(names):
                fails.append(("lookups-under-dflt", f"{tag}/{ot}: {d} expected {names}"))
            for lang, (incl, nm) in reg[ot].items():
                if lang != "dflt" and not (incl and not nm):
                    fails.append(("other-languages-inherit-dflt", f"{tag}/{ot}/{lang}: include_default={incl} own lookups {nm}"))
    return fails


def register_domain(tier):
    scripts = {"Zyyy": ["kern_Default"], "Latn": ["kern_Latn", "kern_Latn_marks"], "Arab": ["kern_Arab"], "Grek": ["kern_Grek"], "Deva": ["kern_Deva"], "Telu": ["kern_Telu"], "Zinh": ["kern_inh"]}
    langmaps = [{}, {"DFLT": ["dflt"], "latn": ["dflt", "TRK "]}, {"latn": ["TRK ", "AZE "], "arab": ["dflt", "URD "], "dev2": ["dflt", "MAR "]}, {"DFLT": ["dflt", "ZZZ "], "grek": ["dflt"], "tel2": ["TEL "]}]
    cases = []
    keys = list(scripts)
    for r in range(0, len(keys) + 1):
        for combo in itertools.combinations(keys, r):
            for lm in langmaps:
                cases.append({"lookups": {k: scripts[k] for k in combo}, "languages": lm})
    if tier == "quick":
        random.Random(202).shuffle(cases)
        cases = cases[:200]
    return cases


# =====================================================================================================================
# 3. shape of the generated blocks + 4. observer


def observer_ufo(case):
    import logging

    import ufoLib2

    logging.getLogger("ufo2ft").setLevel(logging.CRITICAL)
    ufo = ufoLib2.Font()
    info = ufo.info
    info.unitsPerEm, info.ascender, info.descender, info.xHeight, info.capHeight = 1000, 800, -200, 500, 700

    def glyph(name, uni=None, anchors=(), width=500):
        g = ufo.newGlyph(name)
        g.width = width
        if uni is not None:
            g.unicodes = [uni]
        for an, x, y in anchors:
            g.appendAnchor({"name": an, "x": x, "y": y})
        pen = g.getPen()
        pen.moveTo((0, 0)); pen.lineTo((10, 0)); pen.lineTo((10, 10)); pen.closePath()

    glyph(".notdef")
    glyph("space", 0x20, width=250)
    rep = case["repertoire"]
    if "latin" in rep:
        glyph("a", 0x61, [("top", 250, 500)])
        glyph("v", 0x76, [("top", 250, 500)])
        glyph("acutecomb", 0x301, [("_top", 0, 500), ("top", 0, 700)], width=0)
        ufo.kerning[("a", "v")] = -30
        ufo.kerning[("v", "a")] = -25
    if "greek" in rep:
        glyph("alpha", 0x3B1, [("top", 250, 500)])
        glyph("tonos", 0x384)
        ufo.kerning[("alpha", "tonos")] = -10
    if "arabic" in rep:
        cursive = [("top", 250, 600), ("entry", 500, 0), ("exit", 0, 0)]
        glyph("beh-ar", 0x628, cursive)
        glyph("reh-ar", 0x631, cursive)
        glyph("alef-ar", 0x627, [("top", 120, 750)], width=240)
        glyph("comma-ar", 0x60C)
        glyph("hamzaabove-ar", 0x654, [("_top", 0, 600), ("top", 0, 800)], width=0)
        ufo.kerning[("reh-ar", "alef-ar")] = -40
        ufo.kerning[("reh-ar", "comma-ar")] = -60
    if "syriac-source-only" in rep:
        glyph("alaph-sy", 0x710, [("top", 200, 600)])
        ufo.lib["public.skipExportGlyphs"] = ["alaph-sy"]
    if "thaana-source-only" in rep:
        glyph("haa-thaana", 0x780)
        ufo.lib["public.skipExportGlyphs"] = list(ufo.lib.get("public.skipExportGlyphs", [])) + ["haa-thaana"]
    ufo.features.text = "".join(f"languagesystem {s} {l};\n" for s, l in case["languagesystems"]) + case.get("gsub", "")
    return ufo


def check_blocks(case):
    """the generated mark/mkmk/abvm/blwm/curs blocks carry no script / language statement; every kern/dist reference sits in a script section"""
    from fontTools.feaLib import ast as fa

    from ufo2ft.featureCompiler import parseLayoutFeatures
    from ufo2ft.featureWriters import CursFeatureWriter, KernFeatureWriter, MarkFeatureWriter

    fails = []
    ufo = observer_ufo(case)
    fea = parseLayoutFeatures(ufo)
    before = {id(s) for s in fea.statements}
    for W in (KernFeatureWriter, MarkFeatureWriter, CursFeatureWriter):
        W().write(ufo, fea)

    def walk(b):
        for s in b.statements:
            yield s
            if hasattr(s, "statements"):
                yield from walk(s)

    for s in fea.statements:
        if id(s) in before or not isinstance(s, fa.FeatureBlock):
            continue
        if s.name in ATTACHING:
            bad = [type(x).__name__ for x in walk(s) if isinstance(x, (fa.ScriptStatement, fa.LanguageStatement))]
            if bad:
                fails.append(("attaching-blocks-are-script-less", f"{s.name}: {bad}"))
        if s.name in KERNING:
            if any(sc is None for sc, *_ in _sections(s)):
                fails.append(("kern-references-in-script-sections", f"{s.name}: reference before any script statement"))
    return fails


def gpos_reach(tt):
    """{(script, language): set(feature tags)}; language 'dflt' is the DefaultLangSys"""
    out = {}
    if "GPOS" not in tt:
        return out
    t = tt["GPOS"].table
    recs = t.FeatureList.FeatureRecord
    for sr in t.ScriptList.ScriptRecord:
        if sr.Script.DefaultLangSys is not None:
            out[(sr.ScriptTag, "dflt")] = {recs[i].FeatureTag for i in sr.Script.DefaultLangSys.FeatureIndex}
        for lr in sr.Script.LangSysRecord:
            out[(sr.ScriptTag, lr.LangSysTag.strip())] = {recs[i].FeatureTag for i in lr.LangSys.FeatureIndex}
    return out


def check_observer(case):
    from ufo2ft import compileTTF

    if not case["languagesystems"]:
        return []  # F7 class: not observed (see module docstring)
    fails = []
    tt = compileTTF(observer_ufo(case))
    reach = gpos_reach(tt)
    gen = set().union(*reach.values()) if reach else set()
    gen_k, gen_a = gen & KERNING, gen & ATTACHING
    if not gen_k or not (gen_a >= {"mark"}):
        fails.append(("both-kinds-generated", f"generated features: {sorted(gen)}"))
    declared = {(s, l.strip()) for s, l in case["languagesystems"]}
    # (R4) the registration rule the lemma trusts: script-less blocks are reachable from exactly the declared languagesystems
    for tag in gen_a:
        got = {k for k, v in reach.items() if tag in v}
        if got != declared:
            fails.append(("registration-rule-script-less-block", f"{tag} reachable from {sorted(got)}, declared {sorted(declared)}"))
    scripts = sorted({s for s, _ in reach})
    for s in scripts:
        d = reach.get((s, "dflt"), set())
        # (R1) a script that exposes generated kerning exposes the generated attaching features from its default language system
        if any(reach[k] & KERNING for k in reach if k[0] == s) and not gen_a <= d:
            fails.append(("kerned-script-reaches-marks", f"script {s}: default language system exposes {sorted(d)}, generated attaching features {sorted(gen_a)}"))
        # (R2) every language system of the script exposes the generated features its default language system exposes
        for (s2, l), tags in reach.items():
            if s2 == s and l != "dflt" and (tags & (KERNING | ATTACHING)) != (d & (KERNING | ATTACHING)):
                fails.append(("all-languages-of-a-script-covered", f"{s}/{l} exposes {sorted(tags & (KERNING | ATTACHING))}, {s}/dflt exposes {sorted(d & (KERNING | ATTACHING))}"))
    return fails


LS_FORMS = {
    "latin": [
        [("DFLT", "dflt"), ("latn", "dflt")],
        [("DFLT", "dflt"), ("latn", "dflt"), ("latn", "TRK")],
        [("DFLT", "dflt"), ("latn", "TRK"), ("latn", "dflt"), ("latn", "AZE")],
        [],
    ],
    "latin+arabic": [
        [("DFLT", "dflt"), ("latn", "dflt"), ("arab", "dflt")],
        [("DFLT", "dflt"), ("latn", "dflt"), ("arab", "dflt"), ("latn", "TRK"), ("arab", "URD")],
        [("DFLT", "dflt"), ("latn", "dflt"), ("latn", "TRK"), ("arab", "dflt"), ("arab", "URD")],
        [("DFLT", "dflt"), ("arab", "URD"), ("latn", "TRK"), ("arab", "dflt"), ("latn", "dflt"), ("arab", "KUR"), ("latn", "AZE")],
        [],
    ],
    "arabic": [
        [("DFLT", "dflt"), ("arab", "dflt")],
        [("DFLT", "dflt"), ("arab", "dflt"), ("arab", "URD")],
        [],
    ],
    "latin+greek": [
        [("DFLT", "dflt"), ("latn", "dflt"), ("grek", "dflt")],
        [("DFLT", "dflt"), ("grek", "dflt"), ("latn", "dflt"), ("grek", "PGR"), ("latn", "TRK")],
    ],
}


def observer_domain(tier):
    cases = []
    for rep, forms in LS_FORMS.items():
        for ls in forms:
            for extra in ([], ["syriac-source-only"], ["syriac-source-only", "thaana-source-only"]):
                if extra and "arabic" not in rep and tier == "quick":
                    continue
                cases.append({"repertoire": rep.split("+") + extra, "languagesystems": [list(p) for p in ls]})
    if tier != "quick":
        gsub = "feature liga {\n    sub a v by a;\n} liga;\n"
        cases += [dict(c, gsub=gsub) for c in cases if "latin" in c["repertoire"]]
    return cases


# =====================================================================================================================


def _run(tier, seed):
    rep = Report("C20")

    def run_part(name, what, bound, cases, fn, func):
        fails = []
        for c in cases:
            try:
                for cl, d in fn(c):
                    fails.append((cl, c, d))
            except Exception:  # noqa
                fails.append(("no-exception", c, traceback.format_exc()[-800:]))
        rep.part(name, what, bound, len(cases), fails, func)

    guarded(rep, "languagesystems", lambda: run_part(
        "languagesystems", "ast.getScriptLanguageSystems on parsed feature files: per Unicode script the OT tags in first-occurrence order, each with ALL its languages in statement order (contiguous or not); DFLT kept iff excludeDflt=False",
        "ordered selections of up to " + ("4 (400 sampled)" if tier == "quick" else "5") + " of 9 languagesystem statements (3 scripts incl. a script with two OT tags, several languages, DFLT) plus two hand-written interleavings",
        langsys_domain(tier), check_langsys, "vcheck.hooks.c20.check_langsys"))
    guarded(rep, "registerLookups", lambda: run_part(
        "registerLookups", "KernFeatureWriter._registerLookups on real FeatureBlocks: script tags registered = DFLT (kern, if any common/LTR/RTL lookup) + every OT tag of every kerned script (dist-enabled scripts in dist); "
        "each tag lists `dflt` and ALL languages of feaLanguagesByScript[tag]; other languages inherit dflt; no script-less reference",
        "subsets of 7 scripts (common, inherited, LTR, RTL, two dist-enabled, multi-tag) x 4 language maps" + (" (200 sampled)" if tier == "quick" else ""),
        register_domain(tier), check_register, "vcheck.hooks.c20.check_register"))
    obs = observer_domain(tier)
    skipped = sum(1 for c in obs if not c["languagesystems"])
    guarded(rep, "generated-blocks", lambda: run_part(
        "generated-blocks", "real Kern/Mark/Curs writers on UFOs with kerning, mark, mkmk and cursive anchors: generated mark/mkmk/abvm/blwm/curs blocks contain no script/language statement (any depth); every kern/dist lookup reference sits inside a script section",
        f"{len(obs)} UFOs (see observer)", obs, check_blocks, "vcheck.hooks.c20.check_blocks"))
    guarded(rep, "observer", lambda: run_part(
        "observer", "compiled GPOS.ScriptList read back: per script and language the reachable generated features; a kerned script exposes the generated mark/mkmk/curs from its default language system; all languages of a script expose what its default does; "
        "script-less blocks are reachable from exactly the declared languagesystems (the registration rule the lemma trusts)",
        f"{len(obs) - skipped} UFOs: repertoires latin / latin+arabic / arabic / latin+greek (+ source-only glyphs of other scripts in public.skipExportGlyphs) x languagesystem lists (single and several languages per script, contiguous and interleaved); "
        f"{skipped} feature files WITHOUT languagesystem statements are skipped (known finding F7, see notes/C20.md)",
        obs, check_observer, "vcheck.hooks.c20.check_observer"))
    return rep.result(
        assumptions=[
            "C20: feaLib registration rule (script-less block -> every declared languagesystem; explicit script/language sections -> those pairs) is trusted by lemma C20.lemma.reach; observed on compiled fonts only",
            "C20: ast.getScriptLanguageSystems (all clauses) and the completeness half of KernFeatureWriter._registerLookups (DFLT registered whenever a common/LTR/RTL lookup exists; every OT tag of every kerned script gets a call; content and order of the lookup lists) are checked by bounded enumeration on the real functions, not deductively; only the soundness half of _registerLookups (which tags, with which languages, in the calls that are made) is a discharged contract",
            "C20: feature files without languagesystem statements (and kerned scripts without a `languagesystem <tag> dflt`) are excluded from the observer: finding F7",
        ]
    )


@hook("C20")
def c20_hook(tier, seed):
    return _run(tier, seed)


def f7_probe():
    """the recorded finding F7 on the tree under check: no languagesystem statement, Latin kerning, an anchored mark"""
    from ufo2ft import compileTTF

    tt = compileTTF(observer_ufo({"repertoire": ["latin"], "languagesystems": []}))
    r = gpos_reach(tt)
    for k in sorted(r):
        print(k, sorted(r[k]))
    return r


def replay(path):
    with open(path) as f:
        pl = json.load(f)
    fn = {"languagesystems": check_langsys, "registerLookups": check_register, "generated-blocks": check_blocks, "observer": check_observer}.get(pl["part"])
    if fn is None:
        print("no replay function for", pl["part"])
        return 0
    fails = fn(pl["case"])
    print(json.dumps({"case": pl["case"], "failures": fails}, indent=1, default=str)[:4000])
    return 1 if fails else 0


if __name__ == "__main__":
    sys.path.insert(0, ROOT)
    if os.environ.get("VERIF_REPO"):
        sys.path.insert(0, os.path.join(os.environ["VERIF_REPO"], "Lib"))
    if len(sys.argv) >= 3 and sys.argv[1] == "replay":
        sys.exit(replay(sys.argv[2]))
    if len(sys.argv) >= 2 and sys.argv[1] == "f7":
        f7_probe()
