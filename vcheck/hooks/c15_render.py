"""Independent reference semantics for component graphs (shared by the C01 / C02 / C15 bounded observers).

Nothing here uses ufo2ft or fontTools pens: a glyph set is a JSON-able dict
    {name: {"width": w, "height": h, "contours": [[[x, y, type-or-None], ...], ...], "components": [[base, [xx, xy, yx, yy, dx, dy]], ...],
            "anchors": [[name, x, y], ...]}}
and `resolve` computes what the glyph renders: its own contours, then for every component (in order) the resolved
contours of the base under the component's affine map, the point order REVERSED when the composed map mirrors
(negative determinant).  A contour is compared as a CYCLIC sequence of (x, y, on-curve?) points, which does not depend
on which point a pen happens to start with nor on how segment types are attached to points.

The generators use dyadic rationals only (multiples of 1/2 for coordinates, 1/4 .. 1/8 for matrix entries), so every
product/sum below is exact in binary floating point down to depth 4: the comparison is exact, not approximate, and
half-integers (the interesting rounding case) occur all the time.
"""
from __future__ import annotations

import math

IDENT = (1, 0, 0, 1, 0, 0)


def apply(t, p):
    xx, xy, yx, yy, dx, dy = t
    x, y = p
    return (xx * x + yx * y + dx, xy * x + yy * y + dy)


def compose(outer, inner):
    """the map p -> outer(inner(p)) as a 6-tuple (derived from first principles, not from fontTools)"""
    a = apply(outer, apply(inner, (0, 0)))
    b = apply(outer, apply(inner, (1, 0)))
    c = apply(outer, apply(inner, (0, 1)))
    return (b[0] - a[0], b[1] - a[1], c[0] - a[0], c[1] - a[1], a[0], a[1])


def det(t):
    return t[0] * t[3] - t[1] * t[2]


def resolve(name, glyphs, t=IDENT, depth=0, missing="error"):
    """-> list of contours; contour = list of (x, y, on) in drawing order (closed contours only)"""
    if depth > 12:
        raise RecursionError("component cycle")
    g = glyphs[name]
    out = []
    for c in g.get("contours", []):
        pts = [(*apply(t, (x, y)), typ is not None) for x, y, typ in c]
        if det(t) < 0:
            pts = list(reversed(pts))
        out.append(pts)
    for base, tr in g.get("components", []):
        if base not in glyphs:
            if missing == "skip":
                continue
            raise KeyError(base)
        out.extend(resolve(base, glyphs, compose(t, tuple(tr)), depth + 1, missing))
    return out


def canon(contour, ndigits=None):
    """canonical rotation of a cyclic point sequence (direction is kept)"""
    pts = [((round(x, ndigits) if ndigits is not None else x) + 0.0, (round(y, ndigits) if ndigits is not None else y) + 0.0, bool(on)) for x, y, on in contour]
    if not pts:
        return ()
    best = None
    for k in range(len(pts)):
        r = tuple(pts[k:] + pts[:k])
        if best is None or r < best:
            best = r
    return best


def same_shape(a, b, tol=0.0):
    """two lists of contours equal as ordered lists of cyclic sequences (exactly, or within tol per coordinate)"""
    if len(a) != len(b):
        return False
    for ca, cb in zip(a, b):
        if len(ca) != len(cb):
            return False
        if tol == 0.0:
            if canon(ca) != canon(cb):
                return False
        else:
            ok = False
            for k in range(len(cb)):
                r = cb[k:] + cb[:k]
                if all(p[2] == q[2] and abs(p[0] - q[0]) <= tol and abs(p[1] - q[1]) <= tol for p, q in zip(ca, r)):
                    ok = True
                    break
            if not ok:
                return False
    return True


def ot_round(v):
    return int(math.floor(v + 0.5))


def round_contours(cs, f=ot_round):
    return [[(f(x), f(y), on) for x, y, on in c] for c in cs]


def degenerate(cs):
    """consecutive coincident points (a pen or the CFF specializer may drop such segments) -> case is skipped"""
    for c in cs:
        if len(c) < 3:
            return True
        for k in range(len(c)):
            if c[k][:2] == c[(k + 1) % len(c)][:2]:
                return True
    return False


# ---- reading real glyph objects / pens back into the same vocabulary -----------------------------------------------


def glyph_to_desc(g):
    """a real ufoLib2 / defcon glyph -> description (points are read through the point-pen protocol only)"""

    class P:
        def __init__(self):
            self.contours, self.components, self.cur = [], [], None

        def beginPath(self, **k):
            self.cur = []

        def addPoint(self, pt, segmentType=None, **k):
            self.cur.append([pt[0], pt[1], segmentType])

        def endPath(self):
            self.contours.append(self.cur)
            self.cur = None

        def addComponent(self, base, tr, **k):
            self.components.append([base, [float(v) for v in tr]])

    p = P()
    g.drawPoints(p)
    return {"width": g.width, "height": getattr(g, "height", 0), "contours": p.contours, "components": p.components,
            "anchors": [[a.name, a.x, a.y] for a in g.anchors]}


def glyphset_to_desc(gs):
    return {n: glyph_to_desc(gs[n]) for n in gs.keys()}


def segments_to_contours(ops, close_eps=0.0):
    """RecordingPen value (moveTo/lineTo/curveTo/qCurveTo/closePath/endPath) -> cyclic flagged point lists"""
    out, cur = [], None
    for op, args in ops:
        if op == "moveTo":
            cur = [(args[0][0], args[0][1], True)]
        elif op == "lineTo":
            cur.append((args[0][0], args[0][1], True))
        elif op in ("curveTo", "qCurveTo"):
            for p in args[:-1]:
                cur.append((p[0], p[1], False))
            if args[-1] is not None:
                cur.append((args[-1][0], args[-1][1], True))
        elif op in ("closePath", "endPath"):
            if cur is not None:
                # explicit closing point == start point (exactly, or up to `close_eps` when unrounded CFF operands were re-encoded)
                if len(cur) > 1 and cur[-1][2] and cur[0][2] and abs(cur[-1][0] - cur[0][0]) <= close_eps and abs(cur[-1][1] - cur[0][1]) <= close_eps:
                    cur = cur[:-1]
                out.append(cur)
            cur = None
        elif op == "addComponent":
            raise ValueError("component in a decomposed outline")
    return out


# ---- generators ---------------------------------------------------------------------------------------------------


def rand_matrix(rng, kinds=("translate", "scale", "shear", "mirror", "rot90", "general")):
    k = rng.choice(kinds)
    q = lambda lo, hi, step: rng.randrange(int(lo / step), int(hi / step) + 1) * step  # noqa: E731
    dx, dy = q(-200, 200, 0.5), q(-200, 200, 0.5)
    if k == "translate":
        return [1, 0, 0, 1, dx, dy]
    if k == "scale":
        return [rng.choice([0.5, 2, 1.5, 0.25, 1]), 0, 0, rng.choice([0.5, 2, 1.5, 0.75, 1]), dx, dy]
    if k == "shear":
        return [1, rng.choice([0, 0.25, -0.5]), rng.choice([0.5, -0.25, 0.125, 1]), 1, dx, dy]
    if k == "mirror":
        return rng.choice([[-1, 0, 0, 1, dx, dy], [1, 0, 0, -1, dx, dy], [0, 1, 1, 0, dx, dy], [-0.5, 0, 0.25, 1.5, dx, dy]])
    if k == "rot90":
        return rng.choice([[0, 1, -1, 0, dx, dy], [-1, 0, 0, -1, dx, dy], [0, -1, 1, 0, dx, dy]])
    while True:
        m = [q(-2, 2, 0.25), q(-1, 1, 0.25), q(-1, 1, 0.25), q(-2, 2, 0.25), dx, dy]
        if abs(m[0] * m[3] - m[1] * m[2]) >= 0.25:
            return m


def rand_contour(rng, curves="cubic", half=True):
    """closed contour with well separated points; `curves`: None | 'cubic' | 'quadratic'"""
    n = rng.randint(3, 5)
    step = 0.5 if half else 1
    cx, cy = rng.randrange(-100, 400), rng.randrange(-100, 400)
    pts = []
    for k in range(n):
        ang = 2 * math.pi * k / n
        r = rng.randrange(60, 200)
        x = cx + round(r * math.cos(ang) / step) * step + rng.choice([0, 0.5] if half else [0])
        y = cy + round(r * math.sin(ang) / step) * step + rng.choice([0, 0.5] if half else [0])
        pts.append((x, y))
    out = []
    for k, (x, y) in enumerate(pts):
        if curves and rng.random() < 0.4:
            px, py = pts[k - 1]
            if curves == "cubic":
                out.append([px + (x - px) * 0.25 + 8, py + (y - py) * 0.25 - 4, None])
                out.append([px + (x - px) * 0.75 - 6, py + (y - py) * 0.75 + 10, None])
                out.append([x, y, "curve"])
            else:
                out.append([px + (x - px) * 0.5 + 12, py + (y - py) * 0.5 - 10, None])
                out.append([x, y, "qcurve"])
        else:
            out.append([x, y, "line"])
    return out


def rand_graph(rng, n_base=2, n_comp=4, depth=4, curves="cubic", mixed=True, anchors=False, kinds=None, half=True):
    """random glyph set: simple bases, then composites layered up to `depth`, shared bases, optional mixed glyphs"""
    glyphs = {}
    names = []
    for k in range(n_base):
        nm = f"b{k}"
        glyphs[nm] = {"width": rng.choice([500, 600.5, 0.5, 250.25, 333]), "height": rng.choice([1000, 800.5]),
                      "contours": [rand_contour(rng, curves, half) for _ in range(rng.randint(1, 2))], "components": [], "anchors": []}
        if anchors:
            for an in rng.sample(["top", "bottom", "_top", "ogonek"], rng.randint(0, 2)):
                glyphs[nm]["anchors"].append([an, rng.randrange(0, 600) + rng.choice([0, 0.5]), rng.randrange(-200, 800)])
        names.append(nm)
    level = {n: 0 for n in names}
    for k in range(n_comp):
        nm = f"c{k}"
        cands = [n for n in names if level[n] < depth]
        comps = []
        for _ in range(rng.randint(1, 3)):
            b = rng.choice(cands)
            comps.append([b, rand_matrix(rng, kinds) if kinds else rand_matrix(rng)])
        g = {"width": rng.choice([500, 620.5, 300]), "height": 1000, "contours": [], "components": comps, "anchors": []}
        if mixed and rng.random() < 0.3:
            g["contours"].append(rand_contour(rng, curves, half))
        if anchors and rng.random() < 0.3:
            g["anchors"].append([rng.choice(["top", "bottom", "top_1"]), rng.randrange(0, 500), rng.randrange(0, 700)])
        glyphs[nm] = g
        level[nm] = 1 + max(level[b] for b, _ in comps)
        names.append(nm)
    return glyphs


def resolve_component(glyphs, base, tr, missing="error"):
    """what ONE component reference (base, transformation) renders"""
    tmp = dict(glyphs)
    tmp["\0probe"] = {"contours": [], "components": [[base, list(tr)]]}
    return resolve("\0probe", tmp, missing=missing)


def resolve_typed(name, glyphs, t=IDENT, depth=0):
    """resolved contours with the point-pen segment types kept and NO reversal (for direction-agnostic curve-distance measurements)"""
    if depth > 12:
        raise RecursionError("component cycle")
    g = glyphs[name]
    out = [[(*apply(t, (x, y)), typ) for x, y, typ in c] for c in g.get("contours", [])]
    for base, tr in g.get("components", []):
        out.extend(resolve_typed(base, glyphs, compose(t, tuple(tr)), depth + 1))
    return out
