"""C12 — checks that are not function contracts.

S  (syntactic / constants, exhaustive)  what the contracts in contracts/c12.py take from the code outside the functions they
                 execute: (frame) `roundTolerance` / `optimizeCFF` are stored nowhere in Lib/ufo2ft but in
                 OutlineOTFCompiler.__init__ (discharges the frame summary of `super().__init__` there); (defaults) the
                 OTFCompiler dataclass defaults (optimizeCFF = SUBROUTINIZE, cffVersion = 1, subroutinizer = None, roundTolerance =
                 None, postProcessorClass = PostProcessor, outlineCompilerClass = OutlineOTFCompiler), the keyword defaults of
                 PostProcessor.process / process_cff, "cffsubr for both CFF 1 and CFF 2" in DEFAULT_SUBROUTINIZER_FOR_CFF_VERSION,
                 every SubroutinizerBackend member has a specified `_subroutinize#<value>` contract; (call sites) BaseCompiler.compile
                 calls `self.postprocess(font, ufo, glyphSet)` without `info`, `process_cff` is called only by `process`,
                 `_subroutinize` only by `process_cff`, the `_subroutinize_with_*` helpers only through `_subroutinize`;
                 compileOTF is `OTFCompiler(**kwargs).compile(ufo)`; (frame of the summaries in compile#C12) no store to
                 `.cffVersion` / `.subroutinizer` / `.useProductionNames` in Lib/ufo2ft outside the variable-font driver, the CFF
                 library entry points are named in postProcessor.py only.
D  (exhaustive cross-check)  The CFF dispatch of PostProcessor is PROVED as postconditions of process / process_cff / _subroutinize /
                 _subroutinize_with_* (contracts/c12.py).  D executes every cell of the same finite decision table on the REAL
                 functions with recording stand-ins for the three library entry points and a font stand-in that answers
                 `tag in otf` and nothing else, against an independently written expectation.  It guards the WORDING of the proved
                 table and covers the argument values the contracts' parameter types leave out (enum members and plain ints
                 passed for cffVersion / subroutinizer / optimizeCFF).  Domain:
                   input tables  {none, 'CFF ', 'CFF2', both}
                 x optimizeCFF   {False, True} for process_cff; {False, True, -1, 0, 1, 2, 3, CFFOptimization.*} for process
                 x cffVersion    {None, 1, 2, CFFVersion.CFF, CFFVersion.CFF2, 0, 3 (invalid)}
                 x subroutinizer {None, 'cffsubr', 'compreffor', SubroutinizerBackend.*, 'tx' (invalid)}
I  (exhaustive + bounded)  OutlineOTFCompiler.__init__ normalises optimizeCFF to `value >= SPECIALIZE` for every documented
                 value (also proved: contract __init__#C12-level / -bool); on generated UFOs a recording T2CharStringPen receives
                 the same constructor arguments and the same drawing calls for all optimizeCFF values (end-to-end companion of
                 the proved contract getCharStringForGlyph#C12).
O  (bounded)     the property's observer: every supported combination of optimizeCFF {0,1,2} x subroutinizer
                 {None, cffsubr, compreffor} x cffVersion {1,2} on generated UFOs renders every glyph with the same
                 RecordingPen operations and carries the same advances and the requested table flavour; unsupported
                 combinations raise NotImplementedError.  This is what checks the TRUSTED library clause (specialiser,
                 cffsubr, compreffor, convertCFFToCFF2 preserve drawing operations and widths).
"""
from __future__ import annotations

import io
import itertools
import json
import logging
import os
import random
import traceback

from vcheck.extra import hook

PID = "C12"
ROOT = os.path.dirname(os.path.dirname(os.path.dirname(os.path.abspath(__file__))))
OUT = os.environ.get("VERIF_OUT", os.path.join(ROOT, "out"))


def _replay(name, payload):
    d = os.path.join(OUT, PID, "replay")
    os.makedirs(d, exist_ok=True)
    p = os.path.join(d, "".join(ch if ch.isalnum() or ch in "._-@#" else "_" for ch in name) + ".json")
    with open(p, "w") as f:
        json.dump(payload, f, indent=1, default=str)
    return p


def _violation(obligation, payload):
    p = _replay(obligation, {"property": PID, "obligation": obligation, "case": None, **payload})
    return f"VIOLATION property={PID} replay={p} obligation={obligation}"


# ---- D: the decision table -----------------------------------------------------------------------------------------------
class _OnlyTags:
    """answers `tag in otf`; everything else is an error (the dispatch must not look at anything else)"""

    def __init__(self, tags):
        object.__setattr__(self, "_tags", frozenset(tags))

    def __contains__(self, t):
        return t in object.__getattribute__(self, "_tags")

    def __getattr__(self, n):
        raise AssertionError(f"the CFF dispatch read otf.{n}")

    def __getitem__(self, k):
        raise AssertionError(f"the CFF dispatch read otf[{k!r}]")


class _Ufo:
    lib = {}


class _Recorder:
    def __init__(self):
        self.calls = []

    def __enter__(self):
        import cffsubr
        import compreffor

        import ufo2ft.postProcessor as pp

        self._saved = (cffsubr.subroutinize, compreffor.compress, pp.convertCFFToCFF2)
        cffsubr.subroutinize = lambda *a, **k: self.calls.append(("cffsubr.subroutinize", a, dict(k)))
        compreffor.compress = lambda *a, **k: self.calls.append(("compreffor.compress", a, dict(k)))
        pp.convertCFFToCFF2 = lambda *a, **k: self.calls.append(("convertCFFToCFF2", a, dict(k)))
        return self

    def __exit__(self, *exc):
        import cffsubr
        import compreffor

        import ufo2ft.postProcessor as pp

        cffsubr.subroutinize, compreffor.compress, pp.convertCFFToCFF2 = self._saved
        return False


def _expected(inp, optimize, ver, subr, otf):
    """-> ("raise", name) | ("calls", [...]) ; inp in {None, 1, 2}"""
    if inp is None:
        return ("raise", "ValueError")
    if ver is None:
        out = inp
    elif int(ver) in (1, 2):
        out = int(ver)
    else:
        return ("raise", "ValueError")
    if optimize:
        if subr is None:
            b = "cffsubr"
        else:
            b = getattr(subr, "value", subr)
            if b not in ("cffsubr", "compreffor"):
                return ("raise", "ValueError")
        if b == "cffsubr":
            return ("calls", [("cffsubr.subroutinize", (otf,), {"cff_version": out, "keep_glyph_names": False})])
        if inp == 1 and out == 1:
            return ("calls", [("compreffor.compress", (otf,), {})])
        return ("raise", "NotImplementedError")
    if inp == out:
        return ("calls", [])
    if inp == 1 and out == 2:
        return ("calls", [("convertCFFToCFF2", (otf,), {})])
    return ("raise", "NotImplementedError")


def _same_calls(got, want):
    if len(got) != len(want):
        return False
    for (n1, a1, k1), (n2, a2, k2) in zip(got, want):
        if n1 != n2 or len(a1) != len(a2) or any(x is not y for x, y in zip(a1, a2)) or set(k1) != set(k2):
            return False
        for k in k1:
            if k1[k] != k2[k] or isinstance(k1[k], bool) != isinstance(k2[k], bool):
                return False
    return True


def _d():
    from ufo2ft.constants import CFFOptimization
    from ufo2ft.postProcessor import CFFVersion, PostProcessor

    B = PostProcessor.SubroutinizerBackend
    inputs = [((), None), (("CFF ",), 1), (("CFF2",), 2), (("CFF ", "CFF2"), 1), (("post",), None), (("post", "CFF2"), 2)]
    vers = [None, 1, 2, CFFVersion.CFF, CFFVersion.CFF2, 0, 3]
    subrs = [None, "cffsubr", "compreffor", B.CFFSUBR, B.COMPREFFOR, "tx"]
    cells, bad = 0, []

    def run(label, fn, want, otf, after=None):
        nonlocal cells
        cells += 1
        with _Recorder() as rec:
            try:
                res = fn()
                got = ("calls", rec.calls)
            except Exception as e:  # noqa
                got = ("raise", type(e).__name__)
                res = None
                if rec.calls:
                    bad.append({"cell": label, "problem": "library call before the exception", "calls": [c[0] for c in rec.calls], "raised": repr(e)})
                    return
        ok = got[0] == want[0] and (got[1] == want[1] if got[0] == "raise" else _same_calls(got[1], want[1]))
        if ok and after is not None and got[0] == "calls":
            ok = after(res)
        if not ok:
            bad.append({"cell": label, "expected": (want[0], want[1] if want[0] == "raise" else [(c[0], c[2]) for c in want[1]]),
                        "observed": (got[0], got[1] if got[0] == "raise" else [(c[0], c[2]) for c in got[1]])})

    for (tags, inp), ver, subr in itertools.product(inputs, vers, subrs):
        # process_cff (keyword-only arguments; optimizeCFF is used for its truth value)
        for opt in (False, True):
            otf = _OnlyTags(tags)
            pp = PostProcessor(otf, _Ufo())
            run(f"process_cff(tags={tags}, optimizeCFF={opt}, cffVersion={ver!r}, subroutinizer={subr!r})",
                lambda: pp.process_cff(optimizeCFF=opt, cffVersion=ver, subroutinizer=subr), _expected(inp, opt, ver, subr, otf), otf)
        # process: optimizeCFF as documented (bool, or level compared with SUBROUTINIZE); glyph names / font info stubbed out
        for opt in (False, True, -1, 0, 1, 2, 3, CFFOptimization.NONE, CFFOptimization.SPECIALIZE, CFFOptimization.SUBROUTINIZE):
            otf = _OnlyTags(tags)
            pp = PostProcessor(otf, _Ufo())
            seen = []
            pp.process_glyph_names = lambda u, seen=seen: seen.append(u)
            norm = opt if isinstance(opt, bool) else opt >= 2
            want = ("calls", []) if inp is None else _expected(inp, norm, ver, subr, otf)
            marker = object()
            run(f"process(tags={tags}, optimizeCFF={opt!r}, cffVersion={ver!r}, subroutinizer={subr!r})",
                lambda: pp.process(useProductionNames=marker, optimizeCFF=opt, cffVersion=ver, subroutinizer=subr), want, otf,
                after=lambda res, pp=pp, seen=seen, marker=marker: res is pp.otf and len(seen) == 1 and seen[0] is marker)
    # the three helpers directly, with the version values their only call site (process_cff) produces: CFFVersion members
    # (a plain int reaches `cffVersion.name` in a log message of _subroutinize_with_cffsubr: not a call-site value)
    for (tags, inp), ver in itertools.product(inputs, (CFFVersion.CFF, CFFVersion.CFF2)):
        for b in (B.CFFSUBR, B.COMPREFFOR):
            otf = _OnlyTags(tags)
            if b is B.CFFSUBR:
                want = ("raise", "AssertionError") if inp is None else ("calls", [("cffsubr.subroutinize", (otf,), {"cff_version": int(ver), "keep_glyph_names": False})])
            else:
                want = ("calls", [("compreffor.compress", (otf,), {})]) if inp == 1 and int(ver) == 1 else ("raise", "NotImplementedError")
            run(f"_subroutinize({b}, tags={tags}, {ver!r})", lambda: PostProcessor._subroutinize(b, otf, ver), want, otf)
            direct = PostProcessor._subroutinize_with_cffsubr if b is B.CFFSUBR else PostProcessor._subroutinize_with_compreffor
            run(f"{direct.__name__}(tags={tags}, {ver!r})", lambda: direct(otf, ver), want, otf)
    return cells, bad


# ---- S: syntactic obligations and constants ---------------------------------------------------------------------------------
def _s():
    """-> (obligations, [(name, detail)] failures)"""
    import ast
    import dataclasses
    import inspect

    import ufo2ft
    from ufo2ft._compilers.baseCompiler import BaseCompiler
    from ufo2ft._compilers.otfCompiler import OTFCompiler
    from ufo2ft.constants import CFFOptimization
    from ufo2ft.outlineCompiler import OutlineOTFCompiler
    from ufo2ft.postProcessor import PostProcessor

    from pyvc import api

    from . import c01

    obs, fails = 0, []

    def ob(name, ok, detail=""):
        nonlocal obs
        obs += 1
        if not ok:
            fails.append((name, detail))

    # frame of super().__init__ in OutlineOTFCompiler.__init__ (the same exhaustive scan C01 uses)
    n, bad = c01.scan_frame()
    ob("frame.attribute-stores", not bad, "; ".join(f"{w}: {m}" for w, m in bad[:3]))
    # defaults
    dflt = {f.name: f.default for f in dataclasses.fields(OTFCompiler)}
    want = {"optimizeCFF": CFFOptimization.SUBROUTINIZE, "cffVersion": 1, "subroutinizer": None, "roundTolerance": None,
            "postProcessorClass": PostProcessor, "outlineCompilerClass": OutlineOTFCompiler}
    for k, v in want.items():
        ob(f"defaults.OTFCompiler.{k}", k in dflt and dflt[k] is v or (k in dflt and not isinstance(v, type) and v is not None and dflt[k] == v and type(dflt[k]) is type(v)),
           f"OTFCompiler.{k} default is {dflt.get(k, '<missing>')!r}, documented {v!r}")
    for fn, exp in ((PostProcessor.process, {"useProductionNames": None, "optimizeCFF": True, "cffVersion": None, "subroutinizer": None}),
                    (PostProcessor.process_cff, {"optimizeCFF": True, "cffVersion": None, "subroutinizer": None})):
        sig = inspect.signature(fn)
        got = {k: p.default for k, p in sig.parameters.items() if k != "self"}
        ob(f"defaults.{fn.__name__}", got == exp and all(got[k] is exp[k] for k in exp), f"{fn.__name__} keyword defaults {got}, documented {exp}")
    B = PostProcessor.SubroutinizerBackend
    table = PostProcessor.DEFAULT_SUBROUTINIZER_FOR_CFF_VERSION
    ob("defaults.backend-by-version", set(table) == {1, 2} and all(v is B.CFFSUBR for v in table.values()), f"DEFAULT_SUBROUTINIZER_FOR_CFF_VERSION = {table}")
    for m in B:
        c = api.CONTRACTS.get(f"ufo2ft.postProcessor:PostProcessor._subroutinize#{m.value}")
        ob(f"enum.backend-specified.{m.value}", c is not None and "unspecified-backend" not in c.ensures and hasattr(PostProcessor, f"_subroutinize_with_{m.value}"),
           f"SubroutinizerBackend.{m.name} has no specified dispatch contract / no _subroutinize_with_{m.value}")
    # call sites
    def calls_of(attr):
        out = []
        for mod in (inspect.getmodule(PostProcessor), inspect.getmodule(BaseCompiler), ufo2ft):
            tree = ast.parse(inspect.getsource(mod))
            for fdef in [n for n in ast.walk(tree) if isinstance(n, (ast.FunctionDef, ast.AsyncFunctionDef))]:
                for n in ast.walk(fdef):
                    if isinstance(n, ast.Call) and isinstance(n.func, ast.Attribute) and n.func.attr == attr:
                        out.append((fdef.name, n))
                    if isinstance(n, ast.Attribute) and n.attr == attr and not isinstance(n.ctx, ast.Load):
                        out.append((fdef.name, None))
        return out

    import pathlib

    lib = pathlib.Path(inspect.getfile(ufo2ft)).parent
    texts = {str(p): p.read_text(encoding="utf-8") for p in lib.rglob("*.py")}

    def mentions(word):
        return sorted({pathlib.Path(p).name for p, t in texts.items() if word in t})

    pc = calls_of("process_cff")
    ob("callsites.process_cff", [f for f, _ in pc] == ["process"] and mentions("process_cff") == ["postProcessor.py"], f"process_cff mentioned in {mentions('process_cff')}, called from {[f for f, _ in pc]}")
    sc = calls_of("_subroutinize")
    ob("callsites._subroutinize", [f for f, _ in sc] == ["process_cff"] and mentions("_subroutinize") == ["postProcessor.py"], f"_subroutinize called from {[f for f, _ in sc]}")
    src = texts[str(lib / "postProcessor.py")]
    ob("callsites._subroutinize_with", src.count("_subroutinize_with_") == 1 + len(list(B)) and 'getattr(cls, f"_subroutinize_with_{backend.value}")' in src,
       "the _subroutinize_with_* helpers are referenced elsewhere than their definitions and the getattr in _subroutinize")
    comp = [n for f, n in calls_of("postprocess") if f == "compile" and n is not None]
    bc = ast.parse(inspect.getsource(inspect.getmodule(BaseCompiler)))
    base_compile = [f for c in ast.walk(bc) if isinstance(c, ast.ClassDef) and c.name == "BaseCompiler" for f in c.body if isinstance(f, ast.FunctionDef) and f.name == "compile"]
    pcalls = [n for f in base_compile for n in ast.walk(f) if isinstance(n, ast.Call) and isinstance(n.func, ast.Attribute) and n.func.attr == "postprocess"]
    ob("callsites.compile-postprocess-without-info", len(pcalls) == 1 and len(pcalls[0].args) == 3 and not pcalls[0].keywords,
       "BaseCompiler.compile no longer calls self.postprocess(font, ufo, glyphSet) (info=None is a precondition of the postprocess / process contracts)")
    # frame of the two summaries used by compile#C12 (preprocess / compileFeatures): nobody in Lib/ufo2ft stores to the compiler's CFF
    # options (except the variable-font driver's save/restore of useProductionNames), and the three library entry points are named in
    # postProcessor.py only
    stores, libnames = [], {}
    for path, text in texts.items():
        tree = ast.parse(text)
        for fdef in [n for n in ast.walk(tree) if isinstance(n, (ast.FunctionDef, ast.AsyncFunctionDef))]:
            for n in ast.walk(fdef):
                if isinstance(n, ast.Attribute) and isinstance(n.ctx, (ast.Store, ast.Del)) and n.attr in ("cffVersion", "subroutinizer", "useProductionNames"):
                    stores.append((pathlib.Path(path).name, fdef.name, n.attr))
        for n in ast.walk(tree):
            nm = n.id if isinstance(n, ast.Name) else n.attr if isinstance(n, ast.Attribute) else n.name.split(".")[0] if isinstance(n, ast.alias) else None
            if nm in ("cffsubr", "compreffor", "convertCFFToCFF2", "compress", "subroutinize"):
                libnames.setdefault(nm, set()).add(pathlib.Path(path).name)
            if isinstance(n, ast.Call) and isinstance(n.func, ast.Name) and n.func.id in ("setattr", "delattr") and len(n.args) > 1 and not isinstance(n.args[1], ast.Constant) and pathlib.Path(path).name in ("baseCompiler.py", "otfCompiler.py"):
                stores.append((pathlib.Path(path).name, "setattr", "<computed>"))
    ob("frame.compiler-options-not-stored", set(stores) <= {("baseCompiler.py", "_compileNeededSources", "useProductionNames")},
       f"stores to the compiler's CFF options: {sorted(set(stores))}")
    ob("frame.cff-libraries-only-in-postProcessor", all(v == {"postProcessor.py"} for v in libnames.values()) and {"cffsubr", "convertCFFToCFF2"} <= set(libnames),
       f"CFF library entry points referenced in: { {k: sorted(v) for k, v in libnames.items()} }")
    co = ast.parse(inspect.getsource(ufo2ft.compileOTF)).body[0]
    ret = [n for n in co.body if isinstance(n, ast.Return)]
    ob("callsites.compileOTF", len(ret) == 1 and ast.unparse(ret[0].value) == "OTFCompiler(**kwargs).compile(ufo)", f"compileOTF returns {ast.unparse(ret[0].value) if ret else '?'}")
    return obs, fails


# ---- I: the outline compiler ---------------------------------------------------------------------------------------------
def _rand_ufo(rng, floats):
    import ufoLib2

    ufo = ufoLib2.Font()
    ufo.info.familyName, ufo.info.styleName, ufo.info.unitsPerEm = "C12", "Regular", 1000
    ufo.info.ascender, ufo.info.descender, ufo.info.xHeight, ufo.info.capHeight = 800, -200, 500, 700

    def c(v):
        if not floats:
            return v
        return v + rng.choice([0, 0.004, -0.003, 0.25, 0.5, 0.49, 0.0035])

    ufo.newGlyph(".notdef").width = 500
    ufo.newGlyph("space").width = rng.choice([250, 250.5, 600])
    widths = [600, 600, 500, 333.4 if floats else 333, 0, 712]
    for k, name in enumerate(["a", "b", "c", "d", "e"][: rng.randint(2, 5)]):
        g = ufo.newGlyph(name)
        g.unicode = ord(name)
        g.width = rng.choice(widths)
        pen = g.getPen()
        x0, y0 = rng.choice([0, 50, 100]), rng.choice([0, -20, 10])
        w, h = rng.choice([100, 400, 401]), rng.choice([100, 700, 699])
        kind = rng.randint(0, 3)
        if kind == 0:  # box with horizontal / vertical segments (what the specialiser rewrites)
            pen.moveTo((c(x0), c(y0))); pen.lineTo((c(x0 + w), c(y0))); pen.lineTo((c(x0 + w), c(y0 + h))); pen.lineTo((c(x0), c(y0 + h))); pen.closePath()  # noqa: E702
        elif kind == 1:  # curves with horizontal / vertical tangents
            pen.moveTo((c(x0), c(y0))); pen.curveTo((c(x0 + w / 2), c(y0)), (c(x0 + w), c(y0 + h / 2)), (c(x0 + w), c(y0 + h)))  # noqa: E702
            pen.lineTo((c(x0), c(y0 + h))); pen.closePath()  # noqa: E702
        elif kind == 2:  # two contours, the second one open-ended back at its start (implicit closing line)
            pen.moveTo((c(x0), c(y0))); pen.lineTo((c(x0 + w), c(y0 + h))); pen.lineTo((c(x0), c(y0 + h))); pen.closePath()  # noqa: E702
            pen.moveTo((c(x0 + 500), c(y0))); pen.lineTo((c(x0 + 500 + w), c(y0))); pen.lineTo((c(x0 + 500), c(y0 + h))); pen.lineTo((c(x0 + 500), c(y0))); pen.closePath()  # noqa: E702
        else:  # a component (decomposed by the compiler)
            if k:
                pen.addComponent("a", (1, 0, 0, 1, c(30), c(-10)))
            else:
                pen.moveTo((c(x0), c(y0))); pen.lineTo((c(x0 + w), c(y0))); pen.lineTo((c(x0), c(y0 + h))); pen.closePath()  # noqa: E702
    if rng.random() < 0.3:
        ufo.info.postscriptDefaultWidthX, ufo.info.postscriptNominalWidthX = 600, 500
    return ufo


def _i(rng, n):
    import copy

    import ufo2ft.outlineCompiler as oc
    from ufo2ft.constants import CFFOptimization

    evals, bad = 0, []
    import ufoLib2

    for v in (False, True, 0, 1, 2, CFFOptimization.NONE, CFFOptimization.SPECIALIZE, CFFOptimization.SUBROUTINIZE):
        evals += 1
        got = oc.OutlineOTFCompiler(ufoLib2.Font(), optimizeCFF=v).optimizeCFF
        want = v if isinstance(v, bool) else v >= 1
        if got != want or not isinstance(got, bool):
            bad.append({"what": "OutlineOTFCompiler.__init__ normalisation", "optimizeCFF": repr(v), "expected": want, "observed": repr(got)})
    real = oc.T2CharStringPen
    log = []

    class RecPen(real):
        def __init__(self, width, glyphSet, roundTolerance=0.5, CFF2=False):
            super().__init__(width, glyphSet, roundTolerance=roundTolerance, CFF2=CFF2)
            self._rec = ["ctor", width, roundTolerance, CFF2, sorted(glyphSet.keys())]
            log.append(self._rec)

        def _moveTo(self, pt):
            self._rec.append(("moveTo", pt))
            super()._moveTo(pt)

        def _lineTo(self, pt):
            self._rec.append(("lineTo", pt))
            super()._lineTo(pt)

        def _curveToOne(self, a, b, c):
            self._rec.append(("curveTo", a, b, c))
            super()._curveToOne(a, b, c)

        def _closePath(self):
            self._rec.append(("closePath",))
            super()._closePath()

        def _endPath(self):
            self._rec.append(("endPath",))
            super()._endPath()

    oc.T2CharStringPen = RecPen
    try:
        for k in range(n):
            ufo = _rand_ufo(rng, floats=k % 2 == 0)
            tol = [None, 0, 0.001, 0.5, 0.25][k % 5]
            ref = None
            for opt in (0, 1, 2, False, True):
                evals += 1
                del log[:]
                comp = oc.OutlineOTFCompiler(copy.deepcopy(ufo), optimizeCFF=opt, roundTolerance=tol)
                comp.compile()
                rec = [list(r) for r in log]
                if ref is None:
                    ref = rec
                elif rec != ref:
                    i = next((j for j, (a, b) in enumerate(zip(rec, ref)) if a != b), None)
                    bad.append({"what": "pen constructor arguments / drawing calls depend on optimizeCFF", "roundTolerance": tol, "optimizeCFF": repr(opt),
                                "reference(optimizeCFF=0)": ref[i] if i is not None else len(ref), "observed": rec[i] if i is not None else len(rec)})
                    break
            if len(bad) > 3:
                break
    finally:
        oc.T2CharStringPen = real
    return evals, bad


# ---- O: observer -------------------------------------------------------------------------------------------------------------
def _drawing(otf):
    from fontTools.pens.recordingPen import RecordingPen
    from fontTools.ttLib import TTFont

    buf = io.BytesIO()
    otf.save(buf)
    buf.seek(0)
    font = TTFont(buf)
    gs = font.getGlyphSet()
    out = {}
    for name in font.getGlyphOrder():
        pen = RecordingPen()
        gs[name].draw(pen)
        out[name] = (pen.value, font["hmtx"][name][0])
    tag = "CFF " if "CFF " in font else "CFF2" if "CFF2" in font else None
    layout = {t: font.reader[t] for t in ("GSUB", "GPOS", "GDEF", "cmap", "hmtx") if t in font.reader}
    return tag, out, layout


def _o(rng, n):
    import copy

    from ufo2ft import compileOTF

    evals, bad = 0, []
    for k in range(n):
        floats = k % 3 == 2
        ufo = _rand_ufo(rng, floats)
        if len(ufo) > 3:
            ufo.kerning[("a", "b")] = -30
        # floats are kept (roundTolerance=0) only without cffsubr: tx re-quantises 16.16 operands (unrelated noise)
        kw = {"roundTolerance": 0} if floats else {}
        ref = None
        for opt, subr, ver in itertools.product((0, 1, 2), (None, "cffsubr", "compreffor"), (1, 2)):
            uses_cffsubr = opt == 2 and subr in (None, "cffsubr")
            if floats and uses_cffsubr:
                continue
            unsupported = opt == 2 and subr == "compreffor" and ver == 2
            evals += 1
            combo = f"optimizeCFF={opt} subroutinizer={subr} cffVersion={ver}" + (" roundTolerance=0" if floats else "")
            try:
                otf = compileOTF(copy.deepcopy(ufo), optimizeCFF=opt, subroutinizer=subr, cffVersion=ver, **kw)
            except NotImplementedError:
                if not unsupported:
                    bad.append({"combo": combo, "problem": "unexpected NotImplementedError"})
                continue
            except Exception as e:  # noqa
                bad.append({"combo": combo, "problem": "raised " + "".join(traceback.format_exception_only(type(e), e)).strip()})
                continue
            if unsupported:
                bad.append({"combo": combo, "problem": "expected NotImplementedError (compreffor cannot output CFF2); a font was returned"})
                continue
            tag, d, layout = _drawing(otf)
            if tag != ("CFF " if ver == 1 else "CFF2"):
                bad.append({"combo": combo, "problem": f"table flavour {tag!r}"})
            if ref is None:
                ref = (combo, d, layout)
            else:
                diff = [g for g in ref[1] if d.get(g) != ref[1][g]]
                ldiff = [t for t in ref[2] if layout.get(t) != ref[2][t]]
                if diff or ldiff or set(d) != set(ref[1]):
                    g = diff[0] if diff else None
                    bad.append({"combo": combo, "reference": ref[0], "glyphs_that_differ": diff[:5], "layout_tables_that_differ": ldiff,
                                "expected": ref[1].get(g), "observed": d.get(g)})
        if len(bad) > 3:
            break
    return evals, bad


@hook(PID)
def c12_checks(tier, seed):
    for nm in ("ufo2ft", "fontTools", "cffsubr", "compreffor"):
        logging.getLogger(nm).setLevel(logging.ERROR)
    thorough = tier != "quick"
    res = {"obligations": 0, "discharged": 0, "bounded": [], "violations": [], "checker_errors": [], "evaluations": 0, "distinct": 0,
           "trusted": ["fontTools specialiser (T2CharStringPen.getCharString(optimize=True)), cffsubr.subroutinize, compreffor.compress and "
                       "fontTools convertCFFToCFF2 preserve the drawing operations, coordinates and widths of every charstring (ASSUMED; bounded observer C12.O)"],
           "assumptions": []}
    # S: syntactic obligations / constants
    try:
        n_obs, fails = _s()
        res["obligations"] += n_obs
        res["discharged"] += n_obs - len(fails)
        for name, detail in fails[:4]:
            res["violations"].append(_violation(f"{PID}.hook.S.{name}", {"clause": name, "observed": detail}))
        res["assumptions"].append("hook C12.S: exhaustive AST scan of Lib/ufo2ft for attribute stores / call sites (no aliasing of process_cff, _subroutinize*; no computed setattr in outlineCompiler.py)")
    except Exception:
        res["checker_errors"].append(f"hook {PID}.S crashed: {traceback.format_exc()[-900:]}")
    # D: exhaustive cross-check of the proved decision table (every cell executed on the real functions)
    try:
        cells, bad = _d()
        res["evaluations"] += cells
        res["distinct"] += cells
        res["bounded"].append({"check": f"{PID}.D.decision-table", "what": "exhaustive cross-check of the proved CFF dispatch table on the real functions with recording library stand-ins "
                               "(incl. enum-member / plain-int argument values outside the contracts' parameter types)", "bound": f"{cells} cells = the complete stated domain", "failures": len(bad)})
        for b in bad[:3]:
            slug = "".join(ch if ch.isalnum() or ch in "._=-" else "_" for ch in b["cell"].replace(" ", "").replace("'", ""))
            res["violations"].append(_violation(f"{PID}.hook.D.decision-table.{slug}", {"clause": "CFF dispatch decision table", "observed": b}))
    except Exception:
        res["checker_errors"].append(f"hook {PID}.D crashed: {traceback.format_exc()[-900:]}")
    for name, fn, n, what in (
        ("I.pen-inputs-independent-of-optimizeCFF", _i, 30 if not thorough else 200, "OutlineOTFCompiler: optimizeCFF normalisation (all documented values) and recorded pen constructor arguments / drawing calls equal for optimizeCFF in {0,1,2,False,True}, generated UFOs x roundTolerance {None,0,0.001,0.25,0.5}"),
        ("O.same-drawing-all-combinations", _o, 10 if not thorough else 60, "observer: 18 option combinations per generated UFO: same RecordingPen operations, advances, layout tables; requested CFF flavour; NotImplementedError exactly for compreffor+CFF2"),
    ):
        rng = random.Random(seed * 104729 + len(name))
        try:
            evals, bad = fn(rng, n)
        except Exception:
            res["checker_errors"].append(f"hook {PID}.{name} crashed: {traceback.format_exc()[-900:]}")
            continue
        res["evaluations"] += evals
        res["distinct"] += evals
        res["bounded"].append({"check": f"{PID}.{name}", "what": what, "bound": f"{evals} evaluations ({n} generated UFOs, seed {seed})", "failures": len(bad)})
        if bad:
            res["violations"].append(_violation(f"{PID}.hook.{name}", {"clause": what, "observed": bad[0], "more": bad[1:3]}))
    return res
