"""C08 — output is a pure function of UFO content and options.

Deductive parts
  (a) hash seed: one order-insensitivity obligation per iteration over a set-typed value in Lib/ufo2ft
      (pyvc.orderfree: canonical / commutes / reviewed pin; anything else fails);
  (b) call history: frame obligations — no mutation site reachable from compileTTF / compileOTF targets a
      module-level or class-level object of ufo2ft, nor the caller's sources (shared with C07);
  (d) inplace: the contracts on util._copyGlyph (contracts/c08.py): everything the compilers read from a glyph
      is copied — in particular every key of every anchor.
Bounded parts (observers, subprocesses): byte identity across PYTHONHASHSEED values, call histories
(twice; TTF then OTF and back; static then variable), ufoLib2 vs defcon, memory vs disk, inplace True vs False.
defcon≡ufoLib2, disk≡memory and fontTools' own byte determinism cannot be expressed as contracts on ufo2ft code.
"""
from __future__ import annotations

import hashlib
import json
import os
import subprocess
import sys
import tempfile

from vcheck import framecheck as fc
from vcheck.extra import hook

ROOT = os.path.dirname(os.path.dirname(os.path.dirname(os.path.abspath(__file__))))
PID = "C08"
REPO = os.environ.get("VERIF_REPO", "/repo")

WORKER = r'''
import sys, os, io, json, hashlib, warnings, logging
warnings.filterwarnings("ignore"); logging.disable(logging.CRITICAL)
repo = os.environ.get("VERIF_REPO")
if repo: sys.path.insert(0, os.path.join(repo, "Lib"))
import ufo2ft, ufoLib2, defcon
from fontTools.designspaceLib import DesignSpaceDocument
spec = json.loads(sys.argv[1])
def sha(font):
    b = io.BytesIO(); font.save(b); return hashlib.sha256(b.getvalue()).hexdigest()
def load(path, lib):
    return ufoLib2.Font.open(path) if lib == "ufoLib2" else defcon.Font(path)
out = []
for step in spec["steps"]:
    kind = step["fn"]
    try:
        if kind in ("compileTTF", "compileOTF"):
            key = (step["path"], step.get("lib", "ufoLib2"))
            f = CACHE.setdefault(key, load(*key)) if "CACHE" in globals() else None
            if f is None:
                CACHE = {key: load(*key)}; f = CACHE[key]
            if step.get("roundtrip"):
                import tempfile, shutil
                d = tempfile.mkdtemp(prefix="c08rt", dir=spec.get("tmp"))
                p = os.path.join(d, "x.ufo"); f.save(p); f = load(p, key[1])
            r = getattr(ufo2ft, kind)(f, **step.get("opts", {}))
            out.append(sha(r))
            if step.get("roundtrip"): shutil.rmtree(d, ignore_errors=True)
        else:
            key = ("ds", step["path"])
            if "CACHE" not in globals(): CACHE = {}
            if key not in CACHE:
                ds = DesignSpaceDocument.fromfile(step["path"]); ds.loadSourceFonts(ufoLib2.Font.open); CACHE[key] = ds
            r = getattr(ufo2ft, kind)(CACHE[key], **step.get("opts", {}))
            if isinstance(r, dict): out.append([sha(v) for k, v in sorted(r.items())])
            elif hasattr(r, "sources"): out.append([sha(s.font) for s in r.sources])
            else: out.append(sha(r))
    except Exception as e:
        out.append("ERR " + type(e).__name__ + ": " + str(e)[:120])
print("RESULT " + json.dumps(out))
'''


def run_worker(spec, hashseed="0"):
    env = dict(os.environ)
    env["PYTHONHASHSEED"] = str(hashseed)
    env["SOURCE_DATE_EPOCH"] = "1700000000"
    env["PYTHONWARNINGS"] = "ignore"
    py = os.path.join(ROOT, ".venv", "bin", "python")
    r = subprocess.run([py, "-c", WORKER, json.dumps(spec)], capture_output=True, text=True, env=env, timeout=600)
    for line in r.stdout.splitlines():
        if line.startswith("RESULT "):
            return json.loads(line[7:])
    return ["ERR worker: " + (r.stderr or r.stdout)[-300:]]


def order_part(out_dir):
    from pyvc.orderfree import check

    sites, pins = check(REPO, ROOT)
    violations = []
    ok = 0
    samples = []
    for s in sites:
        if s["status"].startswith("leak"):
            name = f"{PID}.order.{s['file'].split('/')[-1]}:{s['line']}.{s['func']}"
            os.makedirs(out_dir, exist_ok=True)
            p = os.path.join(out_dir, name.replace("/", "_") + ".json")
            with open(p, "w") as f:
                json.dump({"property": PID, "obligation": name, "clause": "the iteration order of a set is not observable (canonicalised / commuting / reviewed pin)", "case": None, "site": s,
                           "solver_output": f"iteration over a set-typed value at {s['file']}:{s['line']} in {s['func']} ({s['kind']}): `{s['code']}` is neither wrapped in sorted()/set()/any()/all()/min()/max()/sum()/len(), nor a loop of commuting operations, nor a reviewed pin"}, f, indent=1)
            violations.append(f"VIOLATION property={PID} replay={p} obligation={name} no-failing-input-found")
        else:
            ok += 1
            if len(samples) < 4:
                samples.append({"obligation": f"{PID}.order.{s['file'].split('/')[-1]}:{s['line']}", "status": s["status"], "code": s["code"], "reason": s.get("reason")})
    # pins that match nothing are stale (the code they vouch for is gone or edited): report, do not fail
    stale = [p for p in pins if not any(p["file"] == s["file"] and p["func"] == s["func"] and p["code"] == s["code"] for s in sites)]
    return {"obligations": len(sites), "discharged": ok, "violations": violations, "samples": samples, "stale_pins": stale}


def globals_part(out_dir):
    known = fc.load_known(PID)
    cuts = [c for k in known for c in k.get("cuts", [])]
    # every public compile function (the same roots as the C07 frame proof)
    from vcheck.hooks.c07 import PROVED_ROOTS

    res = fc.run_roots([{"name": r, "kind": "compile", "cuts": cuts} for r in PROVED_ROOTS])
    violations = []
    n = 0
    bad = 0
    for r in res:
        n += len(r["sites"])
        for g in r["globals"]:
            bad += 1
            name = f"{PID}.frame.global-state.{g['file'].split('/')[-1]}:{g['line']}"
            os.makedirs(out_dir, exist_ok=True)
            p = os.path.join(out_dir, name + ".json")
            with open(p, "w") as f:
                json.dump({"property": PID, "obligation": name, "clause": "no module-level or class-level object of ufo2ft is mutated while compiling (no state survives a call)", "case": None, "site": g,
                           "solver_output": f"effect analysis: `{g['what']}` at {g['file']}:{g['line']} ({g['code']}) may target {g['target']}"}, f, indent=1)
            violations.append(f"VIOLATION property={PID} replay={p} obligation={name} no-failing-input-found")
    return {"obligations": n, "discharged": n - bad, "violations": violations}


def observers(tier, out_dir):
    base = os.path.join(REPO, "tests", "data")
    T = lambda n: os.path.join(base, n)  # noqa: E731
    violations, samples = [], []
    errors = []
    evals = 0
    tmp = tempfile.mkdtemp(prefix="c08_")

    def viol(clause, detail, case):
        name = f"{PID}.observer.{clause}.{len(violations)}"
        os.makedirs(out_dir, exist_ok=True)
        p = os.path.join(out_dir, name + ".json")
        with open(p, "w") as f:
            json.dump({"property": PID, "obligation": f"{PID}.observer.{clause}", "clause": clause, "case": case, "observed": detail, "contract": None}, f, indent=1)
        violations.append(f"VIOLATION property={PID} replay={p} obligation={PID}.observer.{clause}")

    ufos = ["TestFont.ufo", "ContextualAnchorsTest-Regular.ufo", "MultipleAnchorClasses.ufo", "SpacingCombiningTest-Regular.ufo"]
    dss = ["TestVarFont.designspace", "TestVarfea.designspace"]
    if tier == "thorough":
        ufos += ["CantarellAnchorPropagation.ufo", "NestedComponents-Regular.ufo", "Alternates-Regular.ufo", "UseMyMetrics.ufo", "DottedCircleTest.ufo"]
        dss += ["NestedComponents.designspace", "SkipExportGlyphsTest.designspace"]
    seeds = ["0", "1", "2"] if tier != "thorough" else ["0", "1", "2", "3", "7", "123"]
    # (a) hash seeds
    spec = {"tmp": tmp, "steps": [{"fn": fn, "path": T(u)} for u in ufos for fn in ("compileTTF", "compileOTF")] + [{"fn": fn + ("s" if "TestVarFont" in d else ""), "path": T(d)} for d in dss for fn in ("compileVariableTTF", "compileVariableCFF2")]}
    import concurrent.futures as cf

    with cf.ThreadPoolExecutor(max_workers=len(seeds)) as pool:
        outs = list(pool.map(lambda s: run_worker(spec, s), seeds))
    evals += len(seeds) * len(spec["steps"])
    for i, step in enumerate(spec["steps"]):
        vals = {json.dumps(o[i]) if i < len(o) else "missing" for o in outs}
        if len(vals) != 1:
            viol("hash-seed", sorted(vals)[:4], {"step": step, "seeds": seeds})
        elif any(str(v).startswith('"ERR') for v in vals):
            errors.append({"step": step, "error": sorted(vals)[0][:160]})
    samples.append({"observer": "hash-seed", "seeds": seeds, "steps": len(spec["steps"]), "digest": str(outs[0][0])[:16]})
    # (b) call histories in ONE process against single calls in fresh processes
    u = T(ufos[0])
    hist = {"tmp": tmp, "steps": [{"fn": "compileTTF", "path": u}, {"fn": "compileTTF", "path": u}, {"fn": "compileOTF", "path": u}, {"fn": "compileTTF", "path": u},
                                  {"fn": "compileVariableTTFs", "path": T(dss[0])}, {"fn": "compileVariableTTFs", "path": T(dss[0])}, {"fn": "compileTTF", "path": T("TestVarFont-Regular.ufo")},
                                  {"fn": "compileVariableCFF2s", "path": T(dss[0])}, {"fn": "compileVariableTTFs", "path": T(dss[0])}]}
    h = run_worker(hist)
    single_ttf = run_worker({"tmp": tmp, "steps": [{"fn": "compileTTF", "path": u}]})[0]
    single_otf = run_worker({"tmp": tmp, "steps": [{"fn": "compileOTF", "path": u}]})[0]
    single_var = run_worker({"tmp": tmp, "steps": [{"fn": "compileVariableTTFs", "path": T(dss[0])}]})[0]
    single_reg = run_worker({"tmp": tmp, "steps": [{"fn": "compileTTF", "path": T("TestVarFont-Regular.ufo")}]})[0]
    evals += len(hist["steps"]) + 4
    exp = [single_ttf, single_ttf, single_otf, single_ttf, single_var, single_var, single_reg, None, single_var]
    for i, (got, want) in enumerate(zip(h, exp)):
        if want is not None and got != want:
            viol("call-history", {"step": i, "got": got, "want": want}, {"history": hist["steps"][: i + 1]})
    # (c) ufoLib2 vs defcon, memory vs disk, inplace
    steps = []
    for n in ufos[:3]:
        for fn in ("compileTTF", "compileOTF"):
            steps += [{"fn": fn, "path": T(n), "lib": "ufoLib2"}, {"fn": fn, "path": T(n), "lib": "defcon"}, {"fn": fn, "path": T(n), "lib": "ufoLib2", "roundtrip": True},
                      {"fn": fn, "path": T(n), "lib": "ufoLib2", "opts": {"inplace": True}}]
    outs2 = []
    for st in steps:  # each in a fresh process: inplace=True mutates the loaded font
        outs2.append(run_worker({"tmp": tmp, "steps": [st]})[0])
    evals += len(steps)
    for i in range(0, len(steps), 4):
        a, b, c, d = outs2[i : i + 4]
        if a != b:
            viol("ufoLib2-vs-defcon", {"ufoLib2": a, "defcon": b}, steps[i])
        if a != c:
            viol("memory-vs-disk", {"memory": a, "reopened": c}, steps[i])
        if a != d:
            viol("inplace-flag", {"inplace=False": a, "inplace=True": d}, steps[i])
    import shutil

    shutil.rmtree(tmp, ignore_errors=True)
    for h_ in (h, [single_ttf, single_otf, single_var, single_reg], outs2):
        for v in h_:
            if isinstance(v, str) and v.startswith("ERR"):
                errors.append({"error": v[:160]})
    return {"evaluations": evals, "violations": violations, "samples": samples, "errors": errors}


@hook(PID)
def c08(tier, seed):
    out_dir = os.path.join(os.environ.get("VERIF_OUT", os.path.join(ROOT, "out")), PID, "replay")
    o = order_part(out_dir)
    g = globals_part(out_dir)
    ob = observers(tier, out_dir)
    return {
        "obligations": o["obligations"] + g["obligations"], "discharged": o["discharged"] + g["discharged"],
        "violations": o["violations"] + g["violations"] + ob["violations"],
        "evaluations": ob["evaluations"], "distinct": ob["evaluations"],
        "bounded": [{"what": "byte identity (sha256 of the saved font, SOURCE_DATE_EPOCH fixed) across PYTHONHASHSEED values; across call histories in one process vs single calls in fresh processes (twice, TTF->OTF->TTF, static after variable, variable after CFF2); ufoLib2 vs defcon; in-memory vs saved-and-reopened UFO; inplace False vs True", "bound": f"{ob['evaluations']} compiles on fixture UFOs/designspaces ({len(ob['errors'])} steps skipped: the fixture is rejected identically in every run)", "result": "clean" if not ob["violations"] else "violations"}],
        "trusted": ["fontTools' serialisation is deterministic; TTFont.save with recalcTimestamp uses SOURCE_DATE_EPOCH for head.modified", "feaLib stores glyph classes used as coverage / mark filtering sets sorted by glyph id", "frames catalogue (see C07)"],
        "assumptions": ["set-typedness is inferred (constructors, literals, comprehensions, set algebra, annotations, attribute names assigned sets, repo functions returning sets, call-site arguments): a set that reaches an iteration untyped is not seen by the order obligations", "hash of enum members / tuples of str inherits the seed dependence of str; ints and None do not"],
        "explanation": f"order obligations: {o['obligations']} iteration sites over set-typed values, {o['discharged']} discharged (canonical/commutes/pinned); global-state frame obligations: {g['discharged']}/{g['obligations']}; observers (bounded): {ob['evaluations']} compiles; stale pins: {len(o['stale_pins'])}",
        "order_samples": o["samples"], "observer_samples": ob["samples"],
        # a fixture that the unchanged compiler rejects identically in every run compares nothing for that step: it is
        # reported as skipped; only when a third or more of the steps fail is the observer itself considered broken
        "skipped_steps": ob["errors"][:10],
        "checker_errors": ([f"C08 observer: {len(ob['errors'])} compile steps failed identically in every run, so they compare nothing: {ob['errors'][:3]}"]
                           if ob["errors"] and (ob["evaluations"] == 0 or 3 * len(ob["errors"]) >= ob["evaluations"]) else []),
    }
