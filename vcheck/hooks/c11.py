"""C11 — checks that are not function contracts (all BOUNDED, reported as such).

T1 (conformance)  trusted model of GLYPH_NAME_INVALID_CHARS.sub("", s): result has surviving characters only, equals s
                  when nothing has to go, is not longer than s — on generated strings (ASCII, Latin-1, BMP, astral).
T2 (conformance)  trusted digit schema of "%d" formatting: "%d" % n is a non-empty digit string for n >= 0.
T3 (conformance)  trusted sfnt-reload model used by the contract of _reloadFont: real compiled TTF / CFF / CFF2 fonts with
                  post 2.0 / 3.0: new object, nothing decompiled, same table set, same glyph order iff names are stored,
                  getGlyphOrder() afterwards decompiles name carriers only.
T4 (conformance)  trusted models of str.rsplit(sep, 1) / str.split(sep, 1) / str.split(sep) / "{:04X}".format used when
                  _build_production_name is executed symbolically (contracts/c11.py) against CPython.
N  (bounded)      PostProcessor._build_production_name against an INDEPENDENT statement of the naming rules (the rules lib /
                  uniXXXX / suffix / plain are also proved, contract `_build_production_name`; the two ligature rules are
                  run-time only), plus "no exception, no side effect, a str" (also proved: safety + frame obligations).
R  (bounded)      cross-check of the PROVED CFF clauses (contracts rename_glyphs#cff, _rename_glyphs_from_ufo#cff,
                  process_glyph_names#cff) on really compiled 'CFF ' fonts: charset and CharStrings keys rewritten with the same
                  map, charstring objects untouched, final names unique / legal / kept — and the SAVED binary agrees (not provable).
O  (bounded)      the property's observer: compile with production names on and off (TTF, CFF, CFF2, two-master variable
                  TTF and CFF2; kerning + a
                  ligature/alternate feature when the glyphs exist): every table other than post / 'CFF ' byte-identical
                  (head modulo checkSumAdjustment), final names unique and legal.
"""
from __future__ import annotations

import copy
import io
import json
import logging
import os
import random
import re
import traceback

from vcheck.extra import hook

PID = "C11"
ROOT = os.path.dirname(os.path.dirname(os.path.dirname(os.path.abspath(__file__))))
OUT = os.environ.get("VERIF_OUT", os.path.join(ROOT, "out"))
LEGAL = re.compile(r"[0-9A-Za-z_.]*\Z")


def _replay(name, payload):
    d = os.path.join(OUT, PID, "replay")
    os.makedirs(d, exist_ok=True)
    p = os.path.join(d, "".join(ch if ch.isalnum() or ch in "._-@#" else "_" for ch in name) + ".json")
    with open(p, "w") as f:
        json.dump(payload, f, indent=1, default=str)
    return p


def _violation(obligation, payload):
    p = _replay(obligation, {"property": PID, "obligation": obligation, **payload})
    return f"VIOLATION property={PID} replay={p} obligation={obligation}"


# ---- T1 / T2 ------------------------------------------------------------------------------------------------------
def _t1(rng, n):
    from contracts.c11 import _survivor_ranges

    from ufo2ft.postProcessor import PostProcessor

    ranges = _survivor_ranges()
    surv = lambda ch: any(a <= ch <= b for a, b in ranges)  # noqa: E731
    pools = [
        "abcXYZ019_.", "-+ /\\()[]{}<>%#'\"\t\n", "".join(chr(i) for i in range(0x20, 0x7F)), "éßøÀ ­", "аक一‍﻿", "\U0001F600\U000E0100",
    ]
    bad = []
    cases = [""] + [chr(i) for i in range(0, 0x250)] + ["a-cy", "ka_ssa-deva", "a b", "x" * 100]
    while len(cases) < n:
        k = rng.randint(0, 12)
        cases.append("".join(rng.choice(rng.choice(pools)) for _ in range(k)))
    for s in cases:
        r = PostProcessor.GLYPH_NAME_INVALID_CHARS.sub("", s)
        ok = all(surv(ch) for ch in r) and (r == s or not all(surv(ch) for ch in s)) and len(r) <= len(s) and r == "".join(ch for ch in s if surv(ch))
        if not ok:
            bad.append({"s": s, "result": r})
    return len(cases), bad


def _t2(rng, n):
    bad = []
    cases = list(range(0, 2000)) + [10 ** k for k in range(1, 40)] + [10 ** k - 1 for k in range(1, 40)]
    while len(cases) < n:
        cases.append(rng.randrange(0, 10 ** rng.randint(1, 30)))
    for v in cases:
        s = "%d" % v
        if not (s and all(c in "0123456789" for c in s) and int(s) == v):
            bad.append(v)
    return len(cases), bad


def _t4(rng, n):
    """trusted models of the str methods used by _build_production_name (contracts/c11.py `_c11_str_method`):
    rsplit(sep, 1) / split(sep, 1): [s] without sep, else [a, b] with s == a + sep + b and sep not in b / a;
    split(sep): >= 1 part, [s] without sep, >= 2 parts with it;  '{}{:04X}'.format(p, n) == p + '%04X' % n."""
    bad, evals = [], 0
    pools = ["ab._", "a", "._", "abc_.xyz-é", "_"]
    cases = ["", ".", "_", "a", "a.b", "a.b.c", ".a", "a.", "..", "a_b", "a_b.c_d", "f_f_i.alt.ss01", "__", "a__b"]
    while len(cases) < n:
        cases.append("".join(rng.choice(rng.choice(pools)) for _ in range(rng.randint(0, 9))))
    for s in cases:
        for sep in (".", "_", "._"):
            evals += 1
            r, l, a = s.rsplit(sep, 1), s.split(sep, 1), s.split(sep)
            ok = (r == [s] and l == [s] and a == [s]) if sep not in s else (
                len(r) == 2 and s == r[0] + sep + r[1] and sep not in r[1] and len(l) == 2 and s == l[0] + sep + l[1] and sep not in l[0] and len(a) >= 2)
            if not ok or len(a) < 1:
                bad.append({"s": s, "sep": sep, "rsplit": r, "split1": l, "split": a})
    for v in list(range(-3, 300)) + [0xFFF, 0x1000, 0xFFFF, 0x10000, 0x10FFFF] + [rng.randrange(0, 0x110000) for _ in range(min(n, 2000))]:
        evals += 1
        for p_ in ("u", "uni", ""):
            if "{}{:04X}".format(p_, v) != p_ + "%04X" % v:
                bad.append({"n": v, "prefix": p_})
    return evals, bad


# ---- N: naming rules, independent statement -------------------------------------------------------------------------
def ref_production_name(name, glyphs, ps, depth=0):
    """The naming rules of the property statement: lib-supplied name when given; else uniXXXX / uXXXXX from the code
    point; else the base glyph's production name plus the last suffix; else ligature parts; else the name itself.
    `glyphs`: name -> first code point or None."""
    assert depth < 50
    if ps:
        v = ps.get(name)
        return v if v else name
    cp = glyphs[name]
    if cp is not None:
        return ("u%04X" if cp > 0xFFFF else "uni%04X") % cp
    if "." in name:
        base, suffix = name.rsplit(".", 1)
        if base in glyphs:
            return ref_production_name(base, glyphs, ps, depth + 1) + "." + suffix
    head, dot, tail = name.partition(".")
    parts = [p + dot + tail for p in head.split("_")] if dot else name.split("_")
    if len(parts) > 1 and all(p in glyphs for p in parts):
        cps = [glyphs[p] for p in parts]
        if all(c and c <= 0xFFFF for c in cps):
            return "uni" + "".join("%04X" % c for c in cps)
        return "_".join(ref_production_name(p, glyphs, ps, depth + 1) for p in parts)
    return name


def _snapshot(pp):
    return (
        list(pp.otf.getGlyphOrder()),
        [(g.name, list(g.unicodes), len(g), dict(g.lib)) for g in pp.glyphSet],
        copy.deepcopy(dict(pp.ufo.lib)),
        copy.deepcopy(pp._postscriptNames),
    )


def _n(rng, n):
    from contracts.c11 import build_pp, names_cases

    bad, evals = [], 0
    for d in names_cases(rng, n):
        pp = build_pp(d)
        glyphs = {g: d["uni"].get(g) for g in d["glyphs"]}
        before = _snapshot(pp)
        for g in d["glyphs"]:
            evals += 1
            try:
                got = pp._build_production_name(pp.glyphSet[g])
            except Exception as e:  # noqa
                bad.append({"case": d, "glyph": g, "raised": repr(e)})
                continue
            want = ref_production_name(g, glyphs, d["ps"])
            if got != want or not isinstance(got, str):
                bad.append({"case": d, "glyph": g, "expected": want, "observed": got})
        if _snapshot(pp) != before:
            bad.append({"case": d, "side-effect": True})
        if len(bad) > 3:
            break
    return evals, bad


# ---- real fonts -----------------------------------------------------------------------------------------------------------
def _quiet():
    logging.getLogger("ufo2ft").setLevel(logging.ERROR)
    logging.getLogger("fontTools").setLevel(logging.ERROR)


def _ascii_cases(rng, n):
    from contracts.c11 import names_cases

    out = []
    for d in names_cases(rng, 6 * n + 12):
        if any(ord(ch) > 126 or ch in " /" for g in d["glyphs"] for ch in g):
            continue
        out.append(d)
        if len(out) >= n:
            break
    return out


def _t3(rng, n):
    from contracts.c11 import _NAME_CARRIERS, compiled_font

    from ufo2ft.postProcessor import PostProcessor, _reloadFont

    bad, evals = [], 0
    for d in _ascii_cases(rng, n):
        for flavor in ("ttf", "cff", "cff2"):
            for fmt in (2.0, 3.0, None):
                evals += 1
                d2 = {**d, "flavor": flavor}
                pp = compiled_font(d2)
                otf = pp.otf
                if fmt is not None:
                    PostProcessor.set_post_table_format(otf, fmt)
                order0 = list(otf.getGlyphOrder())
                tags0 = set(otf.keys()) - {"GlyphOrder"}
                stored = "CFF " in otf or ("post" in otf and otf["post"].formatType == 2.0)
                postfmt = otf["post"].formatType
                try:
                    new = _reloadFont(otf)
                    loaded0 = set(new.tables)
                    order1 = list(new.getGlyphOrder())
                    ok = (
                        new is not otf and not loaded0 and set(new.keys()) - {"GlyphOrder"} == tags0 and len(order1) == len(order0)
                        and (order1 == order0 or not stored) and set(new.tables) <= _NAME_CARRIERS and not new.isLoaded("CFF2")
                        and new["post"].formatType == postfmt and list(otf.getGlyphOrder()) == order0
                    )
                    detail = {"order0": order0, "order1": order1, "loaded_after_getGlyphOrder": sorted(new.tables), "stored": stored}
                except Exception as e:  # noqa
                    ok, detail = False, {"raised": repr(e)}
                if not ok:
                    bad.append({"case": d2, "post_format": fmt, **detail})
                    if len(bad) > 3:
                        return evals, bad
    return evals, bad


def _r(rng, n):
    """rename_glyphs / process_glyph_names on fonts with a 'CFF ' table."""
    from contracts.c11 import compiled_font

    from ufo2ft.postProcessor import PostProcessor, _reloadFont

    bad, evals = [], 0
    for d in _ascii_cases(rng, n):
        d2 = {**d, "flavor": "cff"}
        # (a) rename_glyphs with the map the real builder produces, on a reloaded font
        pp = compiled_font(d2)
        pp.otf = _reloadFont(pp.otf)
        otf = pp.otf
        order0 = list(otf.getGlyphOrder())
        top = otf["CFF "].cff.topDictIndex[0]
        cs0 = dict(top.CharStrings.charStrings)
        charset0 = list(top.charset)
        m = pp._build_production_names()
        PostProcessor.rename_glyphs(otf, m)
        evals += 1
        f = lambda x: m.get(x, x)  # noqa: E731
        top = otf["CFF "].cff.topDictIndex[0]
        cs1 = top.CharStrings.charStrings
        ok = (
            list(otf.getGlyphOrder()) == [f(x) for x in order0] and list(top.charset) == [f(x) for x in charset0]
            and len(cs1) == len(cs0) and all(f(k) in cs1 and cs1[f(k)] is v for k, v in cs0.items())
        )
        if not ok:
            bad.append({"case": d2, "what": "rename_glyphs(CFF)", "map": m, "order": list(otf.getGlyphOrder()), "charset": list(top.charset), "charstrings": sorted(cs1)})
        # (b) the whole of process_glyph_names(True)
        pp = compiled_font(d2)
        order0 = list(pp.otf.getGlyphOrder())
        src = set(pp.glyphSet.keys())
        old = pp.otf
        pp.process_glyph_names(True)
        evals += 1
        order1 = list(pp.otf.getGlyphOrder())
        buf = io.BytesIO()
        pp.otf.save(buf)
        buf.seek(0)
        from fontTools.ttLib import TTFont

        saved = TTFont(buf).getGlyphOrder()
        ok = (
            pp.otf is not old and len(order1) == len(order0) and len(set(order1)) == len(order1) and saved == order1
            and all((a == b) if a not in src else LEGAL.match(b) is not None for a, b in zip(order0, order1))
        )
        if not ok:
            bad.append({"case": d2, "what": "process_glyph_names(True) on CFF", "before": order0, "after": order1, "saved": saved})
        if len(bad) > 3:
            break
    return evals, bad


def _table_bytes(font):
    buf = io.BytesIO()
    font.save(buf)
    buf.seek(0)
    from fontTools.ttLib import TTFont

    f = TTFont(buf, lazy=True)
    out = {}
    for tag in f.reader.keys():
        data = f.reader[tag]
        if tag == "head":
            data = data[:8] + b"\0\0\0\0" + data[12:]
        out[tag] = data
    return out, f.getGlyphOrder()


def _features(glyphs):
    fea = []
    if {"f", "i", "f_i"} <= set(glyphs):
        fea.append("feature liga { sub f i by f_i; } liga;")
    if {"a", "a.alt"} <= set(glyphs):
        fea.append("feature salt { sub a by a.alt; } salt;")
    return "\n".join(fea)


def _o(rng, n):
    os.environ.setdefault("SOURCE_DATE_EPOCH", "0")
    import ufoLib2

    from fontTools.designspaceLib import AxisDescriptor, DesignSpaceDocument, SourceDescriptor

    from ufo2ft import compileOTF, compileTTF, compileVariableCFF2, compileVariableTTF

    bad, evals = [], 0
    carriers = {"post", "CFF "}
    for d in _ascii_cases(rng, n):
        def mk(shift=0):
            ufo = ufoLib2.Font()
            ufo.info.familyName, ufo.info.styleName, ufo.info.unitsPerEm = "C11", "R%d" % shift, 1000
            ufo.info.ascender, ufo.info.descender, ufo.info.xHeight, ufo.info.capHeight = 800, -200, 500, 700
            for k, g in enumerate(d["glyphs"]):
                gl = ufo.newGlyph(g)
                gl.width = 300 + 10 * k + shift
                if g in d["uni"]:
                    gl.unicodes = [d["uni"][g]]
                pen = gl.getPen()
                pen.moveTo((10, 0)); pen.lineTo((10, 50 + k + shift)); pen.lineTo((100 + k, 50 + k)); pen.closePath()  # noqa: E702
            if d["ps"] is not None:
                ufo.lib["public.postscriptNames"] = dict(d["ps"])
            ufo.lib["public.glyphOrder"] = list(d["glyphs"])
            if len(d["glyphs"]) >= 2:
                ufo.kerning[(d["glyphs"][0], d["glyphs"][1])] = -25
            ufo.features.text = _features(d["glyphs"])
            return ufo

        def ds():
            doc = DesignSpaceDocument()
            ax = AxisDescriptor()
            ax.name, ax.tag, ax.minimum, ax.default, ax.maximum = "Weight", "wght", 100, 100, 900
            doc.addAxis(ax)
            for sh, loc in ((0, 100), (40, 900)):
                src = SourceDescriptor()
                src.font, src.location, src.name = mk(sh), {"Weight": loc}, "m%d" % loc
                doc.addSource(src)
            return doc

        for comp, kw, inp in ((compileTTF, {}, mk), (compileOTF, {"optimizeCFF": 0}, mk), (compileOTF, {"optimizeCFF": 0, "cffVersion": 2}, mk),
                              (compileVariableTTF, {}, ds), (compileVariableCFF2, {"optimizeCFF": 0}, ds)):
            evals += 1
            label = comp.__name__ + (".cff2" if kw.get("cffVersion") == 2 else "")
            try:
                off, names_off = _table_bytes(comp(inp(), useProductionNames=False, **kw))
                on, names_on = _table_bytes(comp(inp(), useProductionNames=True, **kw))
            except Exception as e:  # noqa
                bad.append({"case": d, "compiler": label, "raised": "".join(traceback.format_exception_only(type(e), e)).strip()})
                continue
            diff = sorted(t for t in set(on) | set(off) if on.get(t) != off.get(t) and t not in carriers)
            ok = not diff and len(set(names_on)) == len(names_on) and len(names_on) == len(names_off) and all(LEGAL.match(x) for x, y in zip(names_on, names_off) if y in d["glyphs"])
            if not ok:
                bad.append({"case": d, "compiler": label, "tables_that_differ": diff, "names_on": names_on, "names_off": names_off})
        if len(bad) > 3:
            break
    return evals, bad


@hook(PID)
def c11_bounded(tier, seed):
    _quiet()
    thorough = tier != "quick"
    plan = [
        ("T1.regex-sub-conformance", _t1, 2500 if not thorough else 40000, "GLYPH_NAME_INVALID_CHARS.sub('', s) vs its trusted model, generated strings"),
        ("T2.percent-d-digits", _t2, 3000 if not thorough else 60000, "'%d' % n is a digit string, n in 0..1999, powers of ten, random up to 10^30"),
        ("T4.str-method-models", _t4, 400 if not thorough else 6000, "trusted models of str.rsplit(sep,1) / split(sep,1) / split(sep) / '{:04X}'.format vs CPython, generated strings and code points"),
        ("T3.sfnt-reload-model", _t3, 15 if not thorough else 120, "trusted model of the sfnt round trip behind _reloadFont: name sets x {TTF,CFF,CFF2} x post {2.0,3.0,as compiled}"),
        ("N.build_production_name-rules", _n, 150 if not thorough else 4000, "_build_production_name vs the naming rules (independent statement) + no exception + no side effect, generated name sets"),
        ("R.cff-rename", _r, 40 if not thorough else 600, "rename_glyphs / process_glyph_names on 'CFF ' fonts: charset and CharStrings rewritten with one map, names unique/legal/kept"),
        ("O.names-on-vs-off", _o, 20 if not thorough else 300, "compile with production names on/off x {TTF,CFF,CFF2,variable TTF,variable CFF2}: all tables but post/'CFF ' byte-identical, names unique and legal"),
    ]
    res = {"obligations": 0, "discharged": 0, "bounded": [], "violations": [], "checker_errors": [], "evaluations": 0, "distinct": 0,
           "trusted": [], "assumptions": ["hook C11: every item of vcheck/hooks/c11.py is a bounded check on generated inputs (never counted as proved)"]}
    for name, fn, n, what in plan:
        rng = random.Random(seed * 7919 + len(name))
        try:
            evals, bad = fn(rng, n)
        except Exception:
            res["checker_errors"].append(f"hook {PID}.{name} crashed: {traceback.format_exc()[-900:]}")
            continue
        res["evaluations"] += evals
        res["distinct"] += evals
        res["bounded"].append({"check": f"{PID}.{name}", "what": what, "bound": f"{evals} evaluations ({n} generated cases, seed {seed})", "failures": len(bad)})
        if bad:
            b0 = bad[0]
            if isinstance(b0, dict) and isinstance(b0.get("case"), dict) and "glyphs" in b0["case"]:
                # replayable through the run-time harness of the closest contract (same generated name set)
                pl = {"contract": "ufo2ft.postProcessor:PostProcessor._rename_glyphs_from_ufo", "case": {**b0["case"], "post": {"format": 2.0, "stale": False}}}
            else:
                pl = {"case": None}
            res["violations"].append(_violation(f"{PID}.hook.{name}", {"clause": what, **pl, "observed": b0, "more": bad[1:3]}))
    return res
