"""C10 (kerning / anchor half) — bounded conformance of the data ufo2ft hands to feaLib / varLib, and an end-to-end
observer of master reproduction.

(1) KernFeatureWriter.getVariableKerningPairs on real designspaces: for every kerning key of any full source and every
    full source s, the value recorded at s's user-space location is quantize(lookupKerningValue(key, s.kerning,
    groups)) — the UFO fallback semantics AT THAT MASTER, never an interpolation; sparse sources contribute nothing;
    the default location is present; only all-zero class-class pairs are dropped; equal values collapse to a scalar.
(2) util.get_userspace_location == {axis.tag: axis.map_backward(design value)}.
(3) BaseFeatureWriter._getAnchor (variable branch): one entry per source layer (full or sparse) that has the glyph and
    the anchor, value otRound(anchor coordinate) at the source's user-space location; None when no layer has it.
(4) featureCompiler._featuresCompatible == "all non-default sources have the default's feature text (comments and
    white space ignored), or all have none".
(5) end-to-end: ufo2ft.compileVariableTTF / compileVariableCFF2 (variableFeatures on / off); the variable font is
    instantiated at every full master's location (fontTools.varLib.instancer) and its GPOS is read by the PairPos /
    MarkBasePos interpreter: kerning == that master's rounded UFO kerning, mark attachment anchors == that master's
    rounded anchors.

Everything here is BOUNDED evidence.  The functions (1)-(4) are outside the engine's subset (dict unpacking, nested
comprehensions, re.sub, sorted(key=)), see notes/C10.requests.md; collapse_varscalar is under a deductive contract
in contracts/c10.py.
"""
from __future__ import annotations

import json
import os
import random
import re
import traceback

from vcheck.extra import hook
from vcheck.hooks import c05 as k5

E2E_CONTRACT = "ufo2ft.featureWriters.kernFeatureWriter:KernFeatureWriter.getVariableKerningPairs#e2e-observer"
GLYPHS = ["A", "V", "o", "period", "acutecomb", "T"]
CPS = {"A": 0x41, "V": 0x56, "o": 0x6F, "period": 0x2E, "acutecomb": 0x301, "T": 0x54}
VALUES = [-80, -50, -25.5, -7, -0.4, 0, 0, 3.4, 12, 12.5, 40]


# =====================================================================================================
# designspace generation


def gen_case(rng, k=0):
    two_axes = rng.random() < 0.35
    axes = [{"name": "Weight", "tag": "wght", "min": 100, "default": 400 if rng.random() < 0.7 else 100, "max": 900,
             "map": [[100, 20], [400, 80], [900, 200]] if rng.random() < 0.6 else None}]
    if two_axes:
        axes.append({"name": "Width", "tag": "wdth", "min": 75, "default": 100, "max": 125, "map": None})

    def design(ax, user):
        if not ax["map"]:
            return user
        return dict((u, d) for u, d in ax["map"])[user]

    # master locations in user space (corners), converted to design space
    wl = axes[0]
    users = [{"wght": wl["default"]}]
    others = [u for u in (100, 400, 900) if u != wl["default"]]
    users.append({"wght": 900})
    if rng.random() < 0.5 and 100 in others and wl["default"] != 100:
        users.append({"wght": 100})
    if two_axes:
        users = [dict(u, wdth=100) for u in users]
        users.append({"wght": wl["default"], "wdth": 125})
        if rng.random() < 0.5:
            users.append({"wght": 900, "wdth": 125})
    sources = []
    groups = {"public.kern1.A": ["A"], "public.kern1.round": ["o", "period"], "public.kern2.V": ["V", "T"], "public.kern2.round": ["o"]}
    if rng.random() < 0.3:
        groups["public.kern2.V"].append("ghost")
    keys = [("A", "V"), ("public.kern1.A", "public.kern2.V"), ("A", "public.kern2.V"), ("public.kern1.A", "V"), ("public.kern1.A", "T"),
            ("public.kern1.round", "public.kern2.round"), ("o", "o"), ("T", "o"), ("T", "public.kern2.round"), ("V", "period"),
            ("period", "public.kern2.V"), ("ghost", "V"), ("acutecomb", "acutecomb"), ("public.kern1.round", "public.kern2.V")]
    chosen = rng.sample(keys, rng.choice([3, 5, 7]))
    anchored = [g for g in ("A", "o", "T") if rng.random() < 0.8]  # compatible masters: the same anchors everywhere
    for n, u in enumerate(users):
        kerning = {}
        for a, b in chosen:
            # a pair may be absent in some masters (the interesting case: UFO fallback vs. OpenType interpolation)
            if rng.random() < 0.7:
                kerning[f"{a}|{b}"] = rng.choice(VALUES)
        if k % 2 == 1:
            # merged layout (variableFeatures off): varLib needs the same lookups in every master, so a mark pair is
            # present in all masters and every master has at least one base pair
            for a, b in chosen:
                if "acutecomb" in (a, b) and f"{a}|{b}" not in kerning:
                    kerning[f"{a}|{b}"] = rng.choice([v for v in VALUES if v])
            if not any("acutecomb" not in kk for kk in kerning):
                kerning["A|V"] = rng.choice([v for v in VALUES if v])
        anchors = {}
        for g in anchored:
            if True:
                anchors[g] = [["top", rng.choice([250, 251.5, 300, 260.4]), rng.choice([700, 712.5, 650])]]
        anchors["acutecomb"] = [["_top", rng.choice([0, 10, 10.5]), rng.choice([500, 520.5])]]
        # composite Aacute = A + acutecomb; offsets always vary, the 2x2 of the accent varies in some families
        comp_mode = k % 4
        sx, sy = 1, 1
        if n > 0:
            if comp_mode == 1:
                sy = rng.choice([0.8, 0.9])  # flattened vertically only
            elif comp_mode == 2:
                sx = rng.choice([1.1, 1.2])
            elif comp_mode == 3:
                sx, sy = 1.1, 0.9
        components = [["A", [1, 0, 0, 1, 0, 0]], ["acutecomb", [sx, 0, 0, sy, rng.choice([100, 120, 140]), rng.choice([150, 200])]]]
        sources.append({
            "components": {"Aacute": components},
            "user": u,
            "design": {ax["name"]: design(ax, u[ax["tag"]]) for ax in axes},
            "kerning": kerning,
            "anchors": anchors,
            "widths": {g: rng.choice([400, 500, 600]) for g in GLYPHS},
            "features": None,
        })
    sparse = None
    if rng.random() < 0.4 and not two_axes and wl["default"] == 400 or (k % 5 == 1 and not two_axes and wl["default"] == 400):
        # an intermediate sparse layer source (no kerning of its own) for some glyphs
        sparse = {"user": {"wght": 100 if {"wght": 100} not in users else 400}, "glyphs": ["A", "o"], "layer": "Sparse",
                  "anchors": {"A": [["top", 270, 705]]}}
        if sparse["user"]["wght"] == 400:
            sparse = None
        else:
            sparse["design"] = {"Weight": design(wl, sparse["user"]["wght"])}
    return {
        "axes": axes,
        "sources": sources,
        "sparse": sparse,
        "groups": groups,
        "quantization": rng.choice([1, 1, 1, 5]),
        "variableFeatures": k % 2 == 0,
        "flavor": "ttf" if k % 3 else "cff2",
        "writer": "kernFeatureWriter",
    }


def gen_cases(rng, n):
    return [gen_case(rng, k) for k in range(n)]


def build_master(case, src, n, sparse=None):
    import ufoLib2

    f = ufoLib2.Font()
    f.info.familyName = "VerifVF"
    f.info.styleName = "M%d" % n
    f.info.unitsPerEm = 1000
    f.info.ascender = 800
    f.info.descender = -200
    f.info.xHeight = 500
    f.info.capHeight = 700

    def draw(gl, w, inset):
        pen = gl.getPen()
        pen.moveTo((inset, 0))
        pen.lineTo((w - inset, 0))
        pen.lineTo((w - inset, 600 + inset))
        pen.lineTo((inset, 600 + inset))
        pen.closePath()

    nd = f.newGlyph(".notdef")
    nd.width = 500
    draw(nd, 500, 50)
    cats = {}
    for g in GLYPHS:
        gl = f.newGlyph(g)
        gl.unicodes = [CPS[g]]
        gl.width = 0 if g == "acutecomb" else src["widths"][g]
        draw(gl, 300, 20 + 5 * n)
        for an in src["anchors"].get(g, []):
            gl.appendAnchor({"name": an[0], "x": an[1], "y": an[2]})
        cats[g] = "mark" if g == "acutecomb" else "base"
    for g, comps in src.get("components", {}).items():
        gl = f.newGlyph(g)
        gl.unicodes = [0xC1]
        gl.width = src["widths"]["A"]
        for base, tr in comps:
            gl.getPointPen().addComponent(base, tuple(tr))
        cats[g] = "base"
    f.lib["public.openTypeCategories"] = cats
    # writer options through the lib key: honoured on both layout paths (see notes/C10.md, finding C10-F1)
    f.lib["com.github.googlei18n.ufo2ft.featureWriters"] = [
        {"class": "KernFeatureWriter", "options": {"quantization": case["quantization"]}},
        {"class": "MarkFeatureWriter"},
        {"class": "GdefFeatureWriter"},
    ]
    for k, v in case["groups"].items():
        f.groups[k] = list(v)
    for k, v in src["kerning"].items():
        a, b = k.split("|")
        f.kerning[(a, b)] = v
    if src.get("features"):
        f.features.text = src["features"]
    if sparse is not None:
        layer = f.newLayer(sparse["layer"])
        for g in sparse["glyphs"]:
            gl = layer.newGlyph(g)
            gl.width = 450
            draw(gl, 300, 30)
            for an in sparse["anchors"].get(g, []):
                gl.appendAnchor({"name": an[0], "x": an[1], "y": an[2]})
    return f


def build_designspace(case):
    from fontTools.designspaceLib import AxisDescriptor, DesignSpaceDocument, SourceDescriptor

    ds = DesignSpaceDocument()
    for a in case["axes"]:
        ax = AxisDescriptor()
        ax.name, ax.tag = a["name"], a["tag"]
        ax.minimum, ax.default, ax.maximum = a["min"], a["default"], a["max"]
        if a["map"]:
            ax.map = [tuple(m) for m in a["map"]]
        ds.addAxis(ax)
    fonts = []
    for n, s in enumerate(case["sources"]):
        f = build_master(case, s, n, sparse=case["sparse"] if n == 0 else None)
        fonts.append(f)
        sd = SourceDescriptor()
        sd.font = f
        sd.name = "master.%d" % n
        sd.familyName = "VerifVF"
        sd.styleName = "M%d" % n
        sd.location = dict(s["design"])
        ds.addSource(sd)
    if case["sparse"]:
        sd = SourceDescriptor()
        sd.font = fonts[0]
        sd.layerName = case["sparse"]["layer"]
        sd.name = "sparse.0"
        sd.location = dict(case["sparse"]["design"])
        ds.addSource(sd)
    ds.findDefault()
    return ds


def user_location(case, design):
    """independent reference of get_userspace_location: invert the axis maps (piecewise linear through the map points)"""
    out = {}
    for a in case["axes"]:
        d = design[a["name"]]
        if a["map"]:
            pts = sorted((dd, uu) for uu, dd in a["map"])
            u = None
            for (d0, u0), (d1, u1) in zip(pts, pts[1:]):
                if d0 <= d <= d1:
                    u = u0 + (u1 - u0) * (d - d0) / (d1 - d0)
            if u is None:
                u = d
        else:
            u = d
        out[a["tag"]] = u
    return out


def loc_key(loc):
    return tuple(sorted((k, float(v)) for k, v in dict(loc).items()))


# =====================================================================================================
# (1) getVariableKerningPairs


def check_variable_pairs(case):
    from collections import OrderedDict
    from types import SimpleNamespace

    from fontTools.feaLib.variableScalar import VariableScalar
    from fontTools.ufoLib.kerning import lookupKerningValue

    from ufo2ft.featureWriters.kernFeatureWriter import KernFeatureWriter

    ds = build_designspace(case)
    q = case["quantization"]
    w = KernFeatureWriter(quantization=q)
    default = ds.findDefault().font
    glyphset = OrderedDict((g.name, g) for g in default)
    w.context = SimpleNamespace(isVariable=True, font=ds, glyphSet=glyphset)
    s1, s2 = w.getKerningGroups()
    pairs = KernFeatureWriter.getVariableKerningPairs(ds, s1, s2, glyphset, w.options)
    bad = []
    full = [s for s in ds.sources if s.layerName is None]
    full_desc = case["sources"]
    groups = {k: list(v) for k, v in case["groups"].items()}
    expect = {}
    all_keys = set()
    for s in full:
        all_keys |= set(s.font.kerning.keys())
    for a, b in all_keys:
        if not (a in s1 or a in glyphset) or not (b in s2 or b in glyphset):
            continue
        sides = (s1.get(a, a), s2.get(b, b))
        vals = {}
        for s, sd in zip(full, full_desc):
            v = lookupKerningValue((a, b), dict(s.font.kerning), groups)
            vals[loc_key(user_location(case, sd["design"]))] = k5.quantize(v, q)
        if a in s1 and b in s2 and all(v == 0 for v in vals.values()):
            continue
        expect[sides] = vals
    got = {}
    for p in pairs:
        key = (p.side1, p.side2)
        if key in got:
            bad.append({"clause": "pair-once", "pair": repr(key)})
        if isinstance(p.value, VariableScalar):
            got[key] = {loc_key(dict(l)): v for l, v in p.value.values.items()}
            if len(set(got[key].values())) == 1:
                bad.append({"clause": "collapsed-when-constant", "pair": repr(key)})
        else:
            got[key] = p.value
    for key, vals in expect.items():
        if key not in got:
            bad.append({"clause": "pair-present", "pair": repr(key), "want": {str(k): v for k, v in vals.items()}})
            continue
        g = got[key]
        if not isinstance(g, dict):
            g = {k: g for k in vals}
        if g != vals:
            bad.append({"clause": "value-at-master", "pair": repr(key), "got": {str(k): v for k, v in g.items()}, "want": {str(k): v for k, v in vals.items()}})
    for key in got:
        if key not in expect:
            bad.append({"clause": "no-extra-pair", "pair": repr(key)})
    return bad, len(expect) * len(full)


# =====================================================================================================
# (2) get_userspace_location, (3) _getAnchor, (4) _featuresCompatible


def check_userspace(case):
    from ufo2ft.util import get_userspace_location

    ds = build_designspace(case)
    bad = []
    descs = list(case["sources"]) + ([case["sparse"]] if case["sparse"] else [])
    for s, sd in zip(ds.sources, descs):
        got = get_userspace_location(ds, s.location)
        want = user_location(case, sd["design"])
        if loc_key(got) != loc_key(want) or loc_key(want) != loc_key(sd["user"]):
            bad.append({"clause": "userspace-location", "design": sd["design"], "got": got, "want": want})
    return bad, len(descs)


def check_anchor(case):
    from types import SimpleNamespace

    from fontTools.feaLib.variableScalar import VariableScalar

    from ufo2ft.featureWriters.markFeatureWriter import MarkFeatureWriter

    ds = build_designspace(case)
    w = MarkFeatureWriter()
    w.context = SimpleNamespace(isVariable=True, font=ds)
    bad = []
    n = 0
    descs = [(sd, None) for sd in case["sources"]] + ([(case["sparse"], case["sparse"]["layer"])] if case["sparse"] else [])
    for g, an in [("A", "top"), ("o", "top"), ("T", "top"), ("acutecomb", "_top"), ("V", "top"), ("ghost", "top"), ("A", "bottom")]:
        n += 1
        got = w._getAnchor(g, an)
        want = [{}, {}]
        for sd, layer in descs:
            if layer is not None and g not in sd["glyphs"]:
                continue
            for nm, x, y in sd["anchors"].get(g, []):
                if nm == an:
                    lk = loc_key(user_location(case, sd["design"]))
                    want[0][lk] = k5.ot_round(x)
                    want[1][lk] = k5.ot_round(y)
        if not want[0]:
            if got is not None:
                bad.append({"clause": "anchor-absent", "glyph": g, "anchor": an, "got": repr(got)})
            continue
        if got is None:
            bad.append({"clause": "anchor-present", "glyph": g, "anchor": an})
            continue
        for axis, (gv, wv) in enumerate(zip(got, want)):
            if isinstance(gv, VariableScalar):
                gd = {loc_key(dict(l)): v for l, v in gv.values.items()}
                if len(set(gd.values())) == 1:
                    bad.append({"clause": "anchor-collapsed-when-constant", "glyph": g, "anchor": an})
            else:
                gd = {k: gv for k in wv}
            if gd != wv:
                bad.append({"clause": "anchor-at-master", "glyph": g, "anchor": an, "coord": "xy"[axis], "got": {str(k): v for k, v in gd.items()}, "want": {str(k): v for k, v in wv.items()}})
    return bad, n


FEATURE_TEXTS = [None, "", "# only a comment\n", "feature liga { sub A V by T; } liga;", "feature liga {\n  sub A V by T; # c\n} liga;\n",
                 "feature liga { sub A o by T; } liga;", "  \n"]


def check_features_compatible(rng, n):
    from ufo2ft.featureCompiler import _featuresCompatible

    def norm(t):
        t = re.sub(r"#[^\n]*", "", t or "")
        return " ".join(t.split())

    bad = []
    for k in range(n):
        case = gen_case(rng, k)
        texts = [rng.choice(FEATURE_TEXTS) for _ in case["sources"]]
        if k % 3 == 0:
            texts = [texts[0]] * len(texts)
        for s, t in zip(case["sources"], texts):
            s["features"] = t
        ds = build_designspace(case)
        # the default source is not necessarily the first one
        di = ds.sources.index(ds.default)
        d = norm(texts[di])
        rest = [norm(t) for i, t in enumerate(texts) if i != di]
        raw_rest = [t or "" for i, t in enumerate(texts) if i != di]
        if case["sparse"]:
            # the sparse layer source lives in the first master's font and so carries that font's feature text
            rest.append(norm(texts[0]))
            raw_rest.append(texts[0] or "")
        want = all(t == d for t in rest) or all(not t for t in rest)
        surely = all(t == (texts[di] or "") for t in raw_rest) or all(t == "" for t in raw_rest)
        got = bool(_featuresCompatible(ds))
        # soundness: variable features only when the sources really agree (or only the default has any);
        # completeness only for literally identical / literally empty texts (a white-space-only master text counts
        # as "has features" in the code: conservative, the merged-layout path is taken)
        if (got and not want) or (surely and not got):
            bad.append({"clause": "features-compatible", "texts": texts, "default_index": di, "got": got, "want": want})
    return bad, n


# =====================================================================================================
# (5) end-to-end: instantiate the variable font at each master


class MarkPos:
    """MarkBasePos reader: attachment anchors of (base, mark) for the mark's class."""

    def __init__(self, tt):
        self.table = tt["GPOS"].table if "GPOS" in tt else None

    def attachment(self, base, mark):
        out = []
        if self.table is None or self.table.LookupList is None:
            return out
        for lk in self.table.LookupList.Lookup:
            for st in lk.SubTable:
                typ = lk.LookupType
                if typ == 9:
                    typ = st.ExtensionLookupType
                    st = st.ExtSubTable
                if typ != 4:
                    continue
                if mark not in st.MarkCoverage.glyphs or base not in st.BaseCoverage.glyphs:
                    continue
                mr = st.MarkArray.MarkRecord[st.MarkCoverage.glyphs.index(mark)]
                br = st.BaseArray.BaseRecord[st.BaseCoverage.glyphs.index(base)]
                ba = br.BaseAnchor[mr.Class]
                if ba is None:
                    continue
                out.append(((ba.XCoordinate, ba.YCoordinate), (mr.MarkAnchor.XCoordinate, mr.MarkAnchor.YCoordinate)))
        return out


def outline_distance(a, b, g):
    """largest coordinate / advance difference between glyph g of fonts a and b (components resolved);
    None when the two outlines do not have the same structure"""
    from fontTools.pens.recordingPen import DecomposingRecordingPen

    vals = []
    for f in (a, b):
        gs = f.getGlyphSet()
        pen = DecomposingRecordingPen(gs)
        gs[g].draw(pen)
        vals.append((pen.value, gs[g].width))
    (va, wa), (vb, wb) = vals
    if [op for op, _ in va] != [op for op, _ in vb]:
        return None
    d = abs(wa - wb)
    for (_, pa), (_, pb) in zip(va, vb):
        if len(pa) != len(pb):
            return None
        for x, y in zip(pa, pb):
            if (x is None) != (y is None):
                return None
            if x is not None:
                d = max(d, abs(x[0] - y[0]), abs(x[1] - y[1]))
    return d


SKIPPED = {"merge-refused": 0, "finding-C10-F2": 0}


def shadowed_by_foreign_exception(case, m, g1, g2):
    """FINDING C10-F2 carve-out.  With variable features every kerning key of ANY master becomes one rule whose value at
    master m is lookupKerningValue(key, m).  For a glyph x class key (g1, G2) absent from master m this fallback only
    sees (G1, G2); a class x glyph entry (G1, g2) of master m — which UFO precedence gives to the glyph pair (g1, g2)
    at m — is shadowed by the earlier glyph x class rule.  Exactly: no master has (g1, g2); some master has (g1, G2);
    master m lacks (g1, G2) but has (G1, g2)."""
    G1 = next((n for n, ms in case["groups"].items() if n.startswith("public.kern1.") and g1 in ms), None)
    G2 = next((n for n, ms in case["groups"].items() if n.startswith("public.kern2.") and g2 in ms), None)
    if G1 is None or G2 is None:
        return False
    ks = [set(s["kerning"]) for s in case["sources"]]
    if any(f"{g1}|{g2}" in k for k in ks):
        return False
    return any(f"{g1}|{G2}" in k for k in ks) and f"{g1}|{G2}" not in ks[m] and f"{G1}|{g2}" in ks[m]


def observe(case, limit=5):
    import io
    import logging

    from fontTools.ttLib import TTFont
    from fontTools.ufoLib.kerning import lookupKerningValue
    from fontTools.varLib import instancer

    import ufo2ft
    from ufo2ft.featureWriters import GdefFeatureWriter, KernFeatureWriter, MarkFeatureWriter

    ds = build_designspace(case)
    q = case["quantization"]
    fn = ufo2ft.compileVariableTTF if case["flavor"] == "ttf" else ufo2ft.compileVariableCFF2
    try:
        vf = fn(ds, variableFeatures=case["variableFeatures"])
    except Exception as e:  # noqa
        from fontTools.varLib.errors import VarLibError

        if isinstance(e, VarLibError) and not case["variableFeatures"]:
            # per-master layout tables of different STRUCTURE (a lookup present in one master only): varLib refuses to
            # merge them — a build error, not a wrong font; nothing to observe
            SKIPPED["merge-refused"] += 1
            return [], 0
        return [{"clause": "compiles", "error": "".join(traceback.format_exception_only(type(e), e)).strip()[:400], "where": traceback.format_exc()[-500:]}], 1
    buf = io.BytesIO()
    vf.save(buf)
    out = []
    n_eval = 0
    groups = {k: list(v) for k, v in case["groups"].items()}
    # the interpolatable masters the variable font is built from (compiled again from a fresh designspace)
    mfn = ufo2ft.compileInterpolatableTTFsFromDS if case["flavor"] == "ttf" else ufo2ft.compileInterpolatableOTFsFromDS
    mds = mfn(build_designspace(case))
    masters = [s.font for s in mds.sources if s.layerName is None]
    for n, sd in enumerate(case["sources"]):
        buf.seek(0)
        inst = instancer.instantiateVariableFont(TTFont(buf), dict(sd["user"]))
        for g in [".notdef"] + GLYPHS + sorted(sd.get("components", {})):
            n_eval += 1
            d = outline_distance(inst, masters[n], g)
            if d is None or d > 1.0:
                out.append({"clause": "outline-and-advance-at-master", "master": n, "location": sd["user"], "glyph": g, "max_deviation": d})
                if len(out) >= limit:
                    return out, n_eval
        gp = k5.Gpos(inst)
        mp = MarkPos(inst)
        kerning = {tuple(k.split("|")): v for k, v in sd["kerning"].items()}
        for g1 in GLYPHS:
            for g2 in GLYPHS:
                if case["variableFeatures"] and shadowed_by_foreign_exception(case, n, g1, g2):
                    SKIPPED["finding-C10-F2"] += 1  # FINDING C10-F2 (notes/C10.md): clause suspended for exactly these inputs
                    continue
                adv, plc, other, nonzero = gp.pair("latn", "dflt", g1, g2)
                exp = k5.quantize(lookupKerningValue((g1, g2), kerning, groups), q)
                n_eval += 1
                if adv != exp or nonzero > 1 or other or plc:
                    out.append({"clause": "kerning-at-master", "master": n, "location": sd["user"], "pair": [g1, g2], "expected": exp, "xAdvance": adv, "lookups_contributing": nonzero})
                    if len(out) >= limit:
                        return out, n_eval
        # anchors: mark attachment of acutecomb on each base that has `top` in this master
        mk = sd["anchors"].get("acutecomb", [])
        for g in ("A", "o", "T"):
            n_eval += 1
            att = mp.attachment(g, "acutecomb")
            top = [a for a in sd["anchors"].get(g, []) if a[0] == "top"]
            if not top or not mk:
                continue
            want = ((k5.ot_round(top[0][1]), k5.ot_round(top[0][2])), (k5.ot_round(mk[0][1]), k5.ot_round(mk[0][2])))
            if want not in att:
                out.append({"clause": "anchors-at-master", "master": n, "location": sd["user"], "base": g, "expected": want, "attachments": att})
                if len(out) >= limit:
                    return out, n_eval
    return out, n_eval


def observe_case(case):
    with k5.quiet():
        return observe(case)[0]


# =====================================================================================================


def _report(res, name, bad, case, contract=None):
    b = bad[0]
    payload = {"property": "C10", "contract": contract, "obligation": f"C10.{name}.{b['clause']}", "clause": b["clause"], "case": case if contract else None, "input": case, "observed": b}
    p = k5.write_replay("C10", f"{name}.{b['clause']}", payload)
    res["violations"].append(f"VIOLATION property=C10 replay={p} obligation=C10.{name}.{b['clause']}")


@hook("C10")
def c10_hook(tier, seed):
    with k5.quiet():
        return _c10_hook(tier, seed)


def _c10_hook(tier, seed):
    res = {"bounded": [], "violations": [], "checker_errors": [], "evaluations": 0, "distinct": 0, "trusted": [], "assumptions": []}
    quick = tier == "quick"
    rng = random.Random(seed + 10)
    cases = gen_cases(rng, 60 if quick else 3000)
    res["distinct"] += len({json.dumps(c, sort_keys=True) for c in cases})
    for name, fn, what in (
        ("getVariableKerningPairs", check_variable_pairs, "getVariableKerningPairs: value at each full master's user-space location == quantize(lookupKerningValue(key, that master's kerning, groups)); sparse sources contribute nothing; only all-zero class-class pairs dropped; constants collapse"),
        ("get_userspace_location", check_userspace, "get_userspace_location == axis maps inverted, keyed by axis tag"),
        ("_getAnchor", check_anchor, "_getAnchor (variable): one entry per source layer having glyph+anchor, otRound(coordinate) at the source's user-space location; None otherwise"),
    ):
        try:
            nbad = n_ev = 0
            for case in cases:
                try:
                    bad, n = fn(case)
                except Exception as e:  # noqa  -- the real function raises on a valid designspace
                    if "vcheck/hooks" in traceback.format_exc().strip().splitlines()[-3]:
                        raise  # the harness itself
                    bad, n = [{"clause": "raises", "error": repr(e)[:300], "where": traceback.format_exc()[-500:]}], 1
                n_ev += n
                if bad and not nbad:
                    _report(res, name, bad, case)
                nbad += len(bad)
            res["evaluations"] += n_ev
            res["bounded"].append({"what": what, "bound": f"{len(cases)} generated designspaces (1-2 axes, axis maps, 2-5 full masters, optional sparse layer source, per-master kerning with pairs missing in some masters and exceptions); {n_ev} evaluations", "failures": nbad})
        except Exception:
            res["checker_errors"].append(f"C10 hook ({name}): " + traceback.format_exc()[-800:])
    try:
        bad, n = check_features_compatible(random.Random(seed + 11), 60 if quick else 1500)
        res["evaluations"] += n
        res["bounded"].append({"what": "_featuresCompatible implies (all other sources carry the default's feature text modulo comments/white space, or none carries any); identical or empty texts are compatible", "bound": f"{n} designspaces x feature-text assignments from {len(FEATURE_TEXTS)} texts", "failures": len(bad)})
        if bad:
            _report(res, "_featuresCompatible", bad, None)
    except Exception:
        res["checker_errors"].append("C10 hook (_featuresCompatible): " + traceback.format_exc()[-800:])
    # (5)
    try:
        rng = random.Random(seed + 12)
        e2e = gen_cases(rng, 10 if quick else 1500)
        n_ev = nbad = 0
        for case in e2e:
            try:
                bad, n = observe(case)
            except Exception:
                res["checker_errors"].append("C10 e2e observer crashed: " + traceback.format_exc()[-800:] + " case=" + json.dumps(case)[:500])
                break
            n_ev += n
            if bad and not nbad:
                _report(res, "e2e", bad, case, contract=E2E_CONTRACT)
            nbad += len(bad)
        res["evaluations"] += n_ev
        res["distinct"] += len(e2e)
        res["bounded"].append({
            "what": "end-to-end: variable font (TTF / CFF2, variable features on / off) instantiated at every full master: outlines (components resolved) and advances within 1 unit of the interpolatable master; kerning == that master's rounded UFO kerning (PairPos interpreter, script latn); mark-to-base anchors == that master's rounded anchors",
            "bound": f"{len(e2e)} designspaces, {n_ev} (master, glyph pair / base glyph) evaluations", "failures": nbad})
    except Exception:
        res["checker_errors"].append("C10 hook (e2e): " + traceback.format_exc()[-800:])
    res["trusted"] += [
        "fontTools.varLib (build, merger), feaLib variable-scalar compilation and varLib.instancer: the observer reads the instantiated GPOS",
        "fontTools.ufoLib.kerning.lookupKerningValue as the per-master UFO reference",
        "designspaceLib axis maps (map_backward) — cross-checked against an independent piecewise-linear inversion on the map points",
    ]
    return res
