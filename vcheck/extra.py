"""Property-specific additions to the generic contract check: bounded stand-ins,
conformance of trusted clauses, exhaustive finite-domain obligations.  Each hook returns a
dict merged into the evidence (keys: obligations, discharged, bounded, trusted, violations,
known, checker_errors, evaluations, distinct, explanation, assumptions)."""
HOOKS = {}


def hook(pid):
    def deco(f):
        HOOKS.setdefault(pid, []).append(f)
        return f

    return deco


def run(pid, tier, seed):
    _load(pid)
    out = {}
    for f in HOOKS.get(pid, []):
        r = f(tier, seed) or {}
        for k, v in r.items():
            if isinstance(v, list):
                out.setdefault(k, []).extend(v)
            elif isinstance(v, (int, float)):
                out[k] = out.get(k, 0) + v
            else:
                out[k] = (out.get(k, "") + " " + v).strip()
    return out


def _load(pid=None):
    """Import the hook module(s) of one property only (vcheck/hooks/<pid>.py and <pid>_*.py): a slow or broken
    hook file of another property must not affect this check."""
    import importlib
    import pkgutil

    import vcheck.hooks as H

    for m in pkgutil.iter_modules(H.__path__):
        if pid is None or m.name == pid.lower() or m.name.startswith(pid.lower() + "_"):
            importlib.import_module("vcheck.hooks." + m.name)
