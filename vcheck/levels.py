"""Level category claimed per property (must agree with MANIFEST.json)."""
LEVEL = {}
for _p in ("C03", "C04", "C05", "C06", "C07", "C11", "C13", "C14", "C15", "C16", "C17", "C18", "C20"):
    LEVEL[_p] = "proof"
for _p in ("C01", "C02", "C08", "C09", "C10", "C12", "C19"):
    LEVEL[_p] = "other"
