"""Level category per property: taken from /verif/claims/<id>.json (the same source MANIFEST.json is generated from)."""
import glob
import json
import os

_ROOT = os.path.dirname(os.path.dirname(os.path.abspath(__file__)))
LEVEL = {}
for _f in glob.glob(os.path.join(_ROOT, "claims", "C*.json")):
    try:
        with open(_f) as _fh:
            LEVEL[os.path.basename(_f)[:-5]] = json.load(_fh).get("category", "other")
    except Exception:
        pass
