"""python -m vcheck <property-id> [--tier quick|thorough] | replay <file>

Per-property driver: extract the real functions, generate obligations against the sidecar
contracts, discharge them with the solver portfolio, run the guards (canaries, vacuity,
CPython cross-check), search/replay real failing inputs for anything undischarged, decide
(DESIGN 1.8) and write /verif/evidence/<id>.json.
"""
from __future__ import annotations

import argparse
import importlib
import json
import os
import pkgutil
import random
import sys
import time
import traceback

ROOT = os.path.dirname(os.path.dirname(os.path.abspath(__file__)))
sys.path.insert(0, ROOT)
# The registered commands verify /repo. For testing the machinery against a scratch worktree (seeded
# changes), VERIF_REPO=<worktree> makes both the extractor and the imported `ufo2ft` come from there.
if os.environ.get("VERIF_REPO"):
    sys.path.insert(0, os.path.join(os.environ["VERIF_REPO"], "Lib"))

import warnings  # noqa: E402

warnings.filterwarnings("ignore")

from pyvc import api, rt  # noqa: E402
from pyvc.core import ContractMisfit, Unsupported  # noqa: E402
from pyvc.extract import load_function  # noqa: E402
from pyvc.solve import discharge  # noqa: E402
from pyvc.symex import Executor  # noqa: E402

LEVELS = {}
LOAD_ERRORS = {}
OUT = os.environ.get("VERIF_OUT", os.path.join(ROOT, "out"))
EVID = os.environ.get("VERIF_EVIDENCE", os.path.join(ROOT, "evidence"))


def load_all_contracts():
    import contracts

    for m in pkgutil.iter_modules(contracts.__path__):
        try:
            importlib.import_module("contracts." + m.name)
        except Exception:  # a broken sidecar file must not take the other properties' checks down
            LOAD_ERRORS[m.name] = traceback.format_exc()
            print(f"warning: contracts/{m.name}.py failed to import:\n{LOAD_ERRORS[m.name][-600:]}", file=sys.stderr)


def known_findings():
    p = os.path.join(ROOT, "known_findings.json")
    if not os.path.exists(p):
        return []
    with open(p) as f:
        return json.load(f).get("findings", [])


def finding_for(pid, oblig_name, clause=None, case=None):
    for f in known_findings():
        if f.get("status", "open") != "open":
            continue
        if pid not in f.get("properties", [f.get("property")]):
            continue
        pats = f.get("obligations", [])
        if any(oblig_name and (oblig_name == p or (p.endswith("*") and oblig_name.startswith(p[:-1]))) for p in pats):
            return f
        if clause and clause in f.get("clauses", []):
            if "case_filter" in f and case is not None:
                try:
                    if not eval(f["case_filter"], {"case": case}):
                        continue
                except Exception:
                    continue
            return f
    return None


def gen_obligations(c, pid):
    src = load_function(c.target)
    ex = Executor(c, src)
    ex.label_prefix = f"{pid}."
    ex.fn_name = c.target.split(":")[1] + ("#" + c.name if c.name else "")
    obs = ex.run()
    return src, ex, obs


def lemma_obligations(lm, pid):
    import z3

    from pyvc.core import Obligation, State, Val

    dummy = api.FnContract(target="lemma:" + lm.name, props=[], params={})
    ex = Executor(dummy, None)
    ex.spec_mode = True
    ex.fn_name = lm.name
    ex.label_prefix = f"{pid}."
    if getattr(lm, "module", None):
        ex.module = sys.modules[lm.module]
    st = State()
    for n, t in lm.vars.items():
        st.env[n] = Val(t, z3.Const(n, t.sort()))
    for h in lm.hyps:
        st.assume(_zb(ex.clause(h, st)))
    ex.oblige(st, z3.BoolVal(False), "cover", "hyps-satisfiable", None, expect_fail=True)
    for nm, cl in lm.concl.items():
        ex.oblige(st, ex.clause(cl, st), "lemma", nm, None, info={"clause": cl})
    for nm, cl in lm.canaries.items():
        ex.oblige(st, ex.clause(cl, st), "canary", nm, None, expect_fail=True, info={"clause": cl})
    return ex.obligations


def _zb(x):
    import z3

    return z3.BoolVal(x) if isinstance(x, bool) else x


def runtime_search(c, n_cases, seed, stop_on_fail=True):
    """Run the real function on generated inputs, evaluating the contract natively."""
    if c.runtime is None:
        return {"cases": 0, "ok": 0, "skipped": 0, "fails": [], "distinct": 0}
    rng = random.Random(seed)
    res = {"cases": 0, "ok": 0, "skipped": 0, "fails": [], "samples": [], "distinct": 0}
    seen = set()
    for desc in c.runtime.gen(rng, n_cases):
        res["cases"] += 1
        key = json.dumps(desc, sort_keys=True, default=str)
        if key not in seen:
            seen.add(key)
        try:
            args = c.runtime.build(desc)
            r = rt.run_case(c, args, c.runtime.call)
        except Exception as e:  # noqa
            r = {"status": "error", "detail": traceback.format_exc()[-1500:]}
        if r["status"] == "ok":
            res["ok"] += 1
            if len(res["samples"]) < 3:
                res["samples"].append(desc)
        elif r["status"] == "skip":
            res["skipped"] += 1
        elif r["status"] == "fail":
            res["fails"].append({"case": desc, **r})
            if stop_on_fail and len(res["fails"]) >= 3:
                break
        else:
            res.setdefault("errors", []).append({"case": desc, **r})
        if res["cases"] >= n_cases:
            break
    res["distinct"] = len(seen)
    return res


def write_replay(pid, name, payload):
    d = os.path.join(OUT, pid, "replay")
    os.makedirs(d, exist_ok=True)
    fn = "".join(ch if ch.isalnum() or ch in "._-@#" else "_" for ch in name) + ".json"
    p = os.path.join(d, fn)
    with open(p, "w") as f:
        json.dump(payload, f, indent=1, default=str)
    return p


def replay(path):
    load_all_contracts()
    with open(path) as f:
        pl = json.load(f)
    print(json.dumps({k: pl[k] for k in pl if k != "solver_output"}, indent=1)[:3000])
    if pl.get("case") is None:
        print("no concrete input in this replay file (no-failing-input-found); solver output:")
        print(pl.get("solver_output", "")[:3000])
        return 0
    c = api.CONTRACTS[pl["contract"]]
    args = c.runtime.build(pl["case"])
    r = rt.run_case(c, args, c.runtime.call)
    print("replay result:", r)
    return 1 if r["status"] == "fail" else 0


def check_property(pid, tier, seed):
    t0 = time.time()
    if tier == "thorough":
        # thorough tier: hypotheses-only vacuity probe for EVERY discharged obligation (report-only; the quick tier
        # probes the (Seq String) files only). Measured once on all 20 properties with the verdict switch on
        # (PYVC_PROBE_ALL=1 PYVC_VACUITY_STRICT=1, 2026-10-02): 0 vacuous proofs except three `raises` obligations whose
        # goal is literally `false` (an exception path that the preconditions make infeasible), for which "hypotheses
        # unsat" IS the proof.
        os.environ.setdefault("PYVC_PROBE_ALL", "1")
    load_all_contracts()
    from vcheck import extra  # property-specific bounded stand-ins / conformance

    cs = [c for c in api.CONTRACTS.values() if pid in c.props]
    lms = [l for l in api.LEMMAS.values() if pid in l.props]
    outdir = os.path.join(OUT, pid, "smt")
    if os.path.isdir(outdir):
        for f in os.listdir(outdir):
            os.unlink(os.path.join(outdir, f))
    all_obs = []
    per_contract = {}
    functions = []
    undecided = []
    assumptions = set()
    dropped = []
    for c in cs:
        try:
            src, ex, obs = gen_obligations(c, pid)
        except (Unsupported, ContractMisfit) as e:
            undecided.append({"contract": c.key, "reason": f"{type(e).__name__}: {e}"})
            per_contract[c.key] = []
            continue
        except Exception as e:  # noqa  -- engine limitation on this source: undecided, never a pass
            undecided.append({"contract": c.key, "reason": f"internal {type(e).__name__}: {e} @ {traceback.format_exc().strip().splitlines()[-3].strip()}"})
            per_contract[c.key] = []
            continue
        functions.append({"contract": c.key, "file": src.file.replace("/repo/", ""), "lines": list(src.lines), "sha256": src.sha256, "obligations": len(obs), "param_defaults_fixed": ex.param_defaults})
        per_contract[c.key] = obs
        assumptions |= ex.assumptions_used
        dropped += [f"{c.key}: {d}" for d in ex.dropped]
        all_obs += [(c.key, o) for o in obs]
    for lm in lms:
        try:
            obs = lemma_obligations(lm, pid)
        except (Unsupported, ContractMisfit) as e:
            undecided.append({"contract": "lemma:" + lm.name, "reason": f"{type(e).__name__}: {e}"})
            continue
        functions.append({"contract": "lemma:" + lm.name, "obligations": len(obs)})
        all_obs += [("lemma:" + lm.name, o) for o in obs]
    timeout = 10.0 if tier == "quick" else 60.0
    results = discharge([o for _, o in all_obs], outdir, timeout=timeout, jobs=int(os.environ.get("VERIF_JOBS", "16")))
    by_solver = {}
    solver_time = 0.0
    for r in results:
        solver_time += r.time_s
        if r.status == "proved" and not r.expect_fail:
            by_solver[r.solver] = by_solver.get(r.solver, 0) + 1
    real = [(k, r) for (k, _), r in zip(all_obs, results) if not r.expect_fail]
    guards = [(k, r) for (k, _), r in zip(all_obs, results) if r.expect_fail]
    bad = [(k, r) for k, r in real if not r.ok]
    # a canary clause is instantiated once per return path; it must fail to prove on AT LEAST ONE of them
    # (on some paths it can be legitimately true); covers (requires-satisfiable) must each fail.
    groups = {}
    for k, r in guards:
        base = r.name.split("@L")[0] if r.kind == "canary" else r.name
        groups.setdefault((k, base), []).append(r)
    checker_errors = [
        f"canary/cover obligation {base} was PROVED on every path (vacuous hypotheses or unsound encoding)"
        for (k, base), rs in groups.items() if all(not r.ok for r in rs)
    ]
    checker_errors += [f"{r.name}: {r.model}" for k, r in real if r.status == "error"]

    # run-time cross-check on the real code (bounded; also the refutation engine)
    n_rt = 60 if tier == "quick" else 1500
    rt_total = {"cases": 0, "ok": 0, "fails": 0, "distinct": 0}
    rt_samples = []
    rt_fail = {}
    for c in cs:
        if c.runtime is None:
            continue
        try:
            rr = runtime_search(c, n_rt, seed)
        except Exception:
            checker_errors.append(f"run-time harness of {c.key} crashed: {traceback.format_exc()[-800:]}")
            continue
        rt_total["cases"] += rr["cases"]
        rt_total["ok"] += rr["ok"]
        rt_total["distinct"] += rr["distinct"]
        rt_total["fails"] += len(rr["fails"])
        rt_samples += [{"contract": c.key, "case": s} for s in rr["samples"][:1]]
        if rr["cases"] > 0 and rr["ok"] == 0 and not rr["fails"] and not rr.get("errors"):
            checker_errors.append(f"run-time harness of {c.key}: all {rr['cases']} generated cases were skipped (a requires clause is false or raises on every case)")
        if rr.get("errors"):
            checker_errors.append(f"run-time harness error in {c.key}: {rr['errors'][0]['detail'][-600:]}")
        if rr["fails"]:
            rt_fail[c.key] = rr["fails"]

    # bounded stand-ins / conformance / extra deductive parts registered for this property
    extra_res = extra.run(pid, tier, seed) if hasattr(extra, "run") else {}
    for e in extra_res.get("checker_errors", []):
        checker_errors.append(e)

    # ---- decide -------------------------------------------------------------------------------
    lines = []
    violations = []
    known = []
    undecided_obs = []
    handled_rt = set()
    for k, r in bad:
        kf = finding_for(pid, r.name)
        fails = rt_fail.get(k, [])
        # match a run-time failure to this obligation's clause when possible
        if fails:
            f0 = fails[0]
            kf2 = finding_for(pid, r.name, f0.get("clause"), f0.get("case"))
            if kf or kf2:
                known.append((kf or kf2, r.name))
                handled_rt.add(k)
                continue
            p = write_replay(pid, r.name, {"property": pid, "contract": k, "obligation": r.name, "clause": r.info.get("clause"), "case": f0["case"], "observed": f0, "solver_status": r.status, "solver_output": r.model, "smt_file": r.smt_file})
            violations.append(f"VIOLATION property={pid} replay={p} obligation={r.name}")
            handled_rt.add(k)
            continue
        if kf:
            known.append((kf, r.name))
            continue
        if r.status == "refuted" and r.kind in ("post", "frame", "lemma", "commute", "raises", "pre@callsite"):
            p = write_replay(pid, r.name, {"property": pid, "contract": k, "obligation": r.name, "clause": r.info.get("clause"), "case": None, "solver_status": r.status, "solver_output": r.model, "smt_file": r.smt_file})
            violations.append(f"VIOLATION property={pid} replay={p} obligation={r.name} no-failing-input-found")
            continue
        undecided_obs.append(r)
    for k, fails in rt_fail.items():
        if k in handled_rt:
            continue
        for f0 in fails[:1]:
            kf = finding_for(pid, None, f0.get("clause"), f0.get("case"))
            if kf:
                known.append((kf, f"runtime:{k}:{f0.get('clause')}"))
                continue
            p = write_replay(pid, f"runtime.{k}.{f0.get('clause')}", {"property": pid, "contract": k, "obligation": f"{pid}.{k.split(':')[-1]}.{f0.get('clause')}", "clause": f0.get("clause"), "case": f0["case"], "observed": f0})
            violations.append(f"VIOLATION property={pid} replay={p} obligation={pid}.{k.split(':')[-1]}.{f0.get('clause')}")
    for v in extra_res.get("violations", []):
        violations.append(v)
    for kf, what in extra_res.get("known", []):
        known.append((kf, what))

    n_ob = len(real)
    n_dis = sum(1 for _, r in real if r.ok)
    exit_code = 0
    seen_kf = set()
    for kf, what in known:
        if kf["id"] in seen_kf:
            continue
        seen_kf.add(kf["id"])
        lines.append(f"KNOWN-FINDING: property={pid} {kf['id']} {kf['what']}")
    # findings that the checks carve out of their scope (recorded, not re-detected) are listed on every run
    for kf in known_findings():
        if kf.get("status", "open") == "open" and pid in kf.get("properties", [kf.get("property")]) and kf["id"] not in seen_kf:
            seen_kf.add(kf["id"])
            lines.insert(0, f"KNOWN-FINDING: property={pid} {kf['id']} {kf['what']}")
    if violations:
        exit_code = 1
        lines += violations[:12]
        if len(violations) > 12:
            lines.append(f"... and {len(violations) - 12} more violations (all replay files are under out/{pid}/replay)")
    elif checker_errors:
        exit_code = 3
        lines += ["CHECKER-ERROR " + e for e in checker_errors]
    elif undecided or undecided_obs:
        exit_code = 2
        for u in undecided:
            lines.append(f"UNDECIDED property={pid} contract={u['contract']} reason={u['reason']}")
        for r in undecided_obs:
            lines.append(f"UNDECIDED property={pid} obligation={r.name} reason=solver:{r.status} attempts={r.attempts}")
    if LOAD_ERRORS.get(pid.lower()):
        exit_code = 3
        lines.append(f"CHECKER-ERROR contracts/{pid.lower()}.py failed to import: {LOAD_ERRORS[pid.lower()][-300:]}")
    if not cs and not lms and not extra_res:
        exit_code = 3
        lines.append(f"CHECKER-ERROR no contracts registered for {pid} (zero obligations)")
    if n_ob == 0 and (cs or lms) and not violations and not undecided:
        exit_code = max(exit_code, 3)
        lines.append("CHECKER-ERROR zero obligations generated")
    if violations:
        exit_code = 1
        for u in undecided:
            lines.append(f"UNDECIDED property={pid} contract={u['contract']} reason={u['reason']}")
        # obligations that were discharged on the unchanged tree and are now refuted / unknown, but whose kind (loop invariant,
        # hint) does not decide a verdict on its own: listed next to the violation so the failed proof step is visible
        for r in undecided_obs[:8]:
            lines.append(f"UNDECIDED property={pid} obligation={r.name} reason=solver:{r.status} attempts={r.attempts}")

    # ---- evidence -----------------------------------------------------------------------------
    from vcheck.levels import LEVEL

    level = LEVEL.get(pid, "proof")
    samples = []
    for (k, o), r in list(zip(all_obs, results))[:400]:
        if r.kind in ("post", "inv.step", "lemma", "frame", "commute") and len(samples) < 6:
            samples.append({"obligation": r.name, "status": r.status, "solver": r.solver, "time_s": round(r.time_s, 3), "smt_file": (r.smt_file or "").replace(ROOT + "/", ""), "clause": r.info.get("clause")})
    samples += rt_samples[:3]
    _tot = n_ob + extra_res.get("obligations", 0)
    _dis = n_dis + extra_res.get("discharged", 0)
    known_hits = sum(1 for kf, what in known if not str(what).startswith(("runtime:", "observer:")))
    # on a run that ends with exit 0 every undischarged obligation is one attributed to a recorded finding
    known_obs = (_tot - _dis) if exit_code == 0 else min(known_hits, _tot - _dis)
    cov = {
        # obligations that fail ONLY because of a recorded known finding are reported separately: the proof claim
        # is about every other obligation (the findings themselves are listed with KNOWN-FINDING lines)
        "obligations": n_ob + extra_res.get("obligations", 0) - known_obs,
        "obligations_generated_total": n_ob + extra_res.get("obligations", 0),
        "discharged": n_dis + extra_res.get("discharged", 0),
        "obligations_attributed_to_known_findings": known_obs,
        "checker_cmd": f"python -m vcheck {pid} --tier {tier}  (pyvc VC generator over /repo's AST; solvers: z3-new 5.1.0, /usr/bin/cvc5 1.0.3, /usr/bin/z3 4.8.12 on SMT-LIB2 files under out/{pid}/smt)",
        "trusted_base": sorted(assumptions) + extra_res.get("trusted", []),
        "functions_under_contract": functions,
        "by_backend": by_solver,
        # obligations that needed more than the first (3 s) solver round or more than 2 s: the ones to watch for
        # verdict flips under load (a flip is exit 2 = undecided, never a violation)
        "slow_obligations": sorted(
            [{"obligation": r.name, "solver": r.solver, "time_s": round(r.time_s, 2), "attempts": len(getattr(r, "attempts", None) or [])}
             for _k, r in real if r.ok and (r.time_s > 2.0 or len(getattr(r, "attempts", None) or []) > 1)],
            key=lambda d: -d["time_s"])[:25],
        "confirmed_by_two_configs": sum(1 for _k, r in real if r.ok and len(getattr(r, "confirmed_by", None) or []) >= 2),
        "discharged_on_risky_pattern_files": sum(1 for _k, r in real if r.ok and getattr(r, "risky_pattern", False)),
        "solver_disagreements": [r.name for _k, r in real if getattr(r, "disagree", None)],
        # proofs on files with (Seq String) + quantifiers that only z3 configurations found (z3's sequence solver has
        # answered `unsat` wrongly on such files; see docs/PYVC.md "Known solver unsoundness")
        "z3_only_on_seq_string_files": sum(1 for _k, r in real if r.ok and getattr(r, "seq_string", False)
                                           and not any(str(c).startswith("cvc5") for c in (getattr(r, "confirmed_by", None) or [r.solver]))),
        "discharged_on_seq_string_files": sum(1 for _k, r in real if r.ok and getattr(r, "seq_string", False)),
        # hypotheses-only re-run of the prover on (Seq String) files: `unsat` there means the proof is vacuous for that solver --
        # a genuinely infeasible path the quantifier-free pruner could not cut, or the known z3 defect; counted, reported, and
        # turned into `unknown` only under PYVC_VACUITY_STRICT=1
        "vacuity_probe": {"probed": sum(1 for _k, r in real if getattr(r, "vacuity_probe", None) is not None),
                          "vacuous_uncertified": sum(1 for _k, r in real if r.ok and getattr(r, "vacuous", False)),
                          "examples": [r.name for _k, r in real if r.ok and getattr(r, "vacuous", False)][:10]},
        "solver_time_s": round(solver_time, 2),
        "guards": {"canaries_and_covers": len(guards), "groups": len(groups), "failed_to_prove_as_required": sum(1 for rs in groups.values() if any(r.ok for r in rs)), "canary_sat": sum(1 for _, r in guards if r.status == "refuted")},
        "runtime_crosscheck": {"label": "bounded", **rt_total},
        "bounded": extra_res.get("bounded", []),
        "extraction_drops": dropped[:50],
        "samples": samples or [{"note": "no obligations"}],
        "evaluations": rt_total["cases"] + extra_res.get("evaluations", 0),
        "distinct_nontrivial": rt_total["distinct"] + extra_res.get("distinct", 0),
        "rule": "run-time cross-check cases: generated inputs for the real functions, distinct by JSON description; obligations are counted separately",
        "explanation": extra_res.get("explanation", "") or f"contract-based deductive verification: {n_dis}/{n_ob} obligations discharged from the current /repo source; see functions_under_contract and trusted_base",
        "undecided": [u for u in undecided] + [r.name for r in undecided_obs],
    }
    cov_confirmed = sum(1 for _k, r in real if r.ok and len(getattr(r, "confirmed_by", None) or []) >= 2)
    cov_discharged = sum(1 for _k, r in real if r.ok)
    cov_vacuous = sum(1 for _k, r in real if r.ok and getattr(r, "vacuous", False))
    cov_z3only = sum(1 for _k, r in real if r.ok and getattr(r, "seq_string", False)
                     and not any(str(c).startswith("cvc5") for c in (getattr(r, "confirmed_by", None) or [r.solver])))
    ev = {
        "property_id": pid,
        "tier": tier,
        "seed": seed,
        "level": level,
        "coverage": cov,
        "assumptions": sorted(assumptions) + extra_res.get("assumptions", []) + [
            "floats are treated as mathematical reals",
            "termination is not proved (partial correctness)",
            "spec functions terminate (structural recursion on an int argument)",
            "SMT solver soundness: z3 4.8.12 and z3 5.1.0 answered `unsat` on satisfiable files of this engine's shape (Seq-sorted datatype fields / "
            "seq.extract under quantifiers; regression files in selftest/solver_regress). Mitigations in force: after an `unsat` the other solver "
            "configurations are asked and a `sat` from any of them blocks the discharge (verdict disagree = undecided); on files with seq.extract "
            "under a quantifier a z3 `unsat` needs a second opinion; every contract carries canaries that must fail to prove. "
            f"{cov_confirmed} of {cov_discharged} deductive obligations of this run have two or more independent `unsat` answers; the others rest on one solver configuration; "
            f"{cov_z3only} obligations on files with (Seq String) + quantifiers were closed by z3 configurations only (no cvc5 agreement): they assume z3's sequence solver; "
            f"{cov_vacuous} discharged obligations have hypotheses that the proving solver alone declares unsatisfiable and that no second solver certified (infeasible path or solver defect)",
        ],
        "wall_s": round(time.time() - t0, 2),
        "violations": len(violations),
    }
    os.makedirs(EVID, exist_ok=True)
    with open(os.path.join(EVID, f"{pid}.json"), "w") as f:
        json.dump(ev, f, indent=1, default=str)
    for l in lines:
        print(l)
    print(f"{pid}: obligations={cov['obligations']} discharged={cov['discharged']} known-finding-sites={known_obs} guards={len(guards)} runtime_cases={rt_total['cases']} violations={len(violations)} exit={exit_code} wall={ev['wall_s']}s")
    if os.environ.get("VERIF_VERBOSE"):
        for (k, o), r in zip(all_obs, results):
            print("   ", "ok " if r.ok else "BAD", r.name, r.status, r.solver, round(r.time_s, 2))
    return exit_code


GATE_DEFAULT = "strict"  # the engine must pass its own self-test suites (cached per content hash) before any property is checked


def engine_gate(force=False):
    """Self-test gate of the verification engine itself: before any property is checked, the engine (pyvc/*.py, incl.
    frames and orderfree) must pass its own regression suites -- small programs with TRUE clauses that must be
    discharged, FALSE twins that must not, CPython differential runs and the recorded wrong-`unsat` solver files.
    The result is cached per content hash of the engine + suites (out/.selftest-<hash>.ok), so it runs once per
    engine version. A failing gate is a checker error (exit 3): nothing such an engine 'proves' is believed."""
    import fcntl
    import hashlib
    import subprocess

    h = hashlib.sha256()
    for d in ("pyvc", "selftest", os.path.join("selftest", "frames_cases")):
        dd = os.path.join(ROOT, d)
        if not os.path.isdir(dd):
            continue
        for dp, _dn, fns in sorted(os.walk(dd)):
            if "__pycache__" in dp:
                continue
            for fn in sorted(fns):
                if fn.endswith((".py", ".smt2", ".txt")):
                    with open(os.path.join(dp, fn), "rb") as f:
                        h.update(fn.encode() + b"\0" + f.read())
    out_root = os.path.join(ROOT, "out")
    os.makedirs(out_root, exist_ok=True)
    marker = os.path.join(out_root, f".selftest-{h.hexdigest()[:16]}.ok")
    if os.path.exists(marker) and not force:
        return 0
    if os.environ.get("VERIF_SKIP_SELFTEST") == "1" and not force:
        return 0
    with open(os.path.join(out_root, ".selftest.lock"), "w") as lk:
        fcntl.flock(lk, fcntl.LOCK_EX)
        if os.path.exists(marker) and not force:
            return 0
        suites = [m for m in ("selftest.run", "selftest.orderfree_run", "selftest.frames_run")
                  if os.path.exists(os.path.join(ROOT, *m.split(".")) + ".py")]
        env = dict(os.environ, PYTHONHASHSEED="0", VERIF_OUT=os.path.join(out_root, "selftest"))
        for m in suites:
            t0 = time.time()
            r = subprocess.run([sys.executable, "-W", "ignore", "-m", m], cwd=ROOT, env=env, capture_output=True, text=True, timeout=1200)
            tail = (r.stdout or "").strip().splitlines()[-1:] or [""]
            print(f"ENGINE-SELFTEST {m}: exit={r.returncode} {round(time.time() - t0, 1)}s {tail[0][:160]}")
            if r.returncode != 0:
                bad = [l for l in (r.stdout or "").splitlines() if l.startswith(("FAIL", "UNEXPECTED", "UNSOUND"))][:10]
                for l in bad:
                    print("  " + l[:200])
                print(f"CHECKER-ERROR engine self-test {m} failed: the verification engine does not pass its own regression suite")
                return 3
        with open(marker, "w") as f:
            f.write(time.strftime("%Y-%m-%dT%H:%M:%S") + " " + " ".join(suites) + "\n")
    return 0


def main():
    ap = argparse.ArgumentParser()
    ap.add_argument("what")
    ap.add_argument("arg", nargs="?")
    ap.add_argument("--tier", default=os.environ.get("VERIF_TIER", "quick"))
    a = ap.parse_args()
    seed = int(os.environ.get("VERIF_SEED", "0"))
    # watchdog: a check that does not finish is a checker error, never a silent hang
    import threading

    def _alarm():
        sys.stdout.write(f"CHECKER-ERROR watchdog: {a.what} did not finish within the time limit\n")
        sys.stdout.flush()
        os._exit(3)

    # a thread, not SIGALRM: native solver calls release the GIL but do not run Python signal handlers
    _wd = threading.Timer(int(os.environ.get("VERIF_WATCHDOG_S", "1500" if a.tier == "quick" else "5400")), _alarm)
    _wd.daemon = True
    _wd.start()
    if a.what == "replay":
        sys.exit(replay(a.arg))
    if a.what == "selftest":
        sys.exit(engine_gate(force=True))
    # While the engine is under development the gate is advisory (VERIF_GATE=advisory); the registered checks run strict.
    if os.environ.get("VERIF_GATE", GATE_DEFAULT) != "off":
        g = engine_gate()
        if g != 0 and os.environ.get("VERIF_GATE", GATE_DEFAULT) == "strict":
            sys.exit(g)
    try:
        code = check_property(a.what, a.tier, seed)
    except Exception:
        traceback.print_exc()
        print("CHECKER-ERROR crash")
        code = 3
    sys.exit(code)


if __name__ == "__main__":
    main()
