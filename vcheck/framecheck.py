"""Shared driver for the frame obligations (pyvc.frames) used by C07 / C08 / C14 / C19."""
from __future__ import annotations

import ast
import concurrent.futures as cf
import json
import os
import sys
import time

ROOT = os.path.dirname(os.path.dirname(os.path.abspath(__file__)))
REPO = os.environ.get("VERIF_REPO", "/repo")


def _src_line(site):
    p = os.path.join(REPO, site[0])
    try:
        with open(p, encoding="utf-8") as f:
            lines = f.read().splitlines()
        return lines[site[1] - 1].strip()
    except Exception:
        return "?"


def load_known(pid):
    p = os.path.join(ROOT, "known_findings.json")
    with open(p) as f:
        data = json.load(f)
    return [k for k in data.get("findings", []) if pid in k.get("properties", [k.get("property")]) and k.get("status", "open") == "open"]


def site_matches(entry_site, file, func, code):
    return entry_site.get("file") == file and entry_site.get("func") in func and entry_site.get("code") == code


def _inplace_guard():
    """Syntactic obligation behind 'inplace is False everywhere': no code in Lib/ufo2ft binds the name
    `inplace` (variable, attribute or keyword) to anything but a forwarded `inplace` / a default False."""
    bad = []
    n = 0
    base = os.path.join(REPO, "Lib", "ufo2ft")
    for dp, _dn, fns in os.walk(base):
        for fn in fns:
            if not fn.endswith(".py"):
                continue
            p = os.path.join(dp, fn)
            with open(p, encoding="utf-8") as f:
                tree = ast.parse(f.read())

            def ok(v):
                if isinstance(v, ast.Constant) and v.value is False:
                    return True
                if isinstance(v, ast.Name) and v.id == "inplace":
                    return True
                if isinstance(v, ast.Attribute) and v.attr == "inplace":
                    return True
                return False

            for node in ast.walk(tree):
                if isinstance(node, ast.keyword) and node.arg == "inplace":
                    n += 1
                    if not ok(node.value):
                        bad.append(f"{os.path.relpath(p, REPO)}:{node.value.lineno} keyword inplace={ast.unparse(node.value)}")
                elif isinstance(node, (ast.Assign, ast.AnnAssign)):
                    tgts = node.targets if isinstance(node, ast.Assign) else [node.target]
                    for t in tgts:
                        nm = t.id if isinstance(t, ast.Name) else t.attr if isinstance(t, ast.Attribute) else None
                        if nm == "inplace" and node.value is not None:
                            n += 1
                            if not ok(node.value):
                                bad.append(f"{os.path.relpath(p, REPO)}:{node.lineno} inplace = {ast.unparse(node.value)}")
                elif isinstance(node, ast.arguments):
                    names = node.posonlyargs + node.args
                    for a, d in zip(names[len(names) - len(node.defaults):], node.defaults):
                        if a.arg == "inplace":
                            n += 1
                            if not ok(d):
                                bad.append(f"{os.path.relpath(p, REPO)}:{d.lineno} default inplace={ast.unparse(d)}")
                    for a, d in zip(node.kwonlyargs, node.kw_defaults):
                        if a.arg == "inplace" and d is not None:
                            n += 1
                            if not ok(d):
                                bad.append(f"{os.path.relpath(p, REPO)}:{d.lineno} default inplace={ast.unparse(d)}")
    return n, bad


def analyse_root(spec):
    """Run the analysis for one root in a subprocess-friendly way. spec: dict(name, kind, cuts)."""
    import warnings

    warnings.filterwarnings("ignore")
    sys.path.insert(0, ROOT)
    if os.environ.get("VERIF_REPO"):
        sys.path.insert(0, os.path.join(os.environ["VERIF_REPO"], "Lib"))
    from pyvc.frames import Analysis

    t0 = time.time()
    A = Analysis()
    # cut points are given by (file, func-substring, code text): resolve to line numbers in the current source
    for c in spec.get("cuts", []):
        p = os.path.join(REPO, c["file"])
        with open(p, encoding="utf-8") as f:
            for i, line in enumerate(f.read().splitlines(), 1):
                if line.strip() == c["code"]:
                    A.cuts.add((c["file"], i))
    import importlib

    try:
        from fontTools.designspaceLib import DesignSpaceDocument as _DS
    except Exception:  # pragma: no cover
        _DS = None
    if spec["kind"] == "compile":
        import inspect

        import ufo2ft

        fn = getattr(ufo2ft, spec["name"])
        # input domain of the public function, from its signature: `designSpaceDoc` is a DesignSpaceDocument whose sources
        # carry UFO fonts; `ufo` / `ufos` is a UFO font / a list of UFO fonts
        first = next(iter(inspect.signature(fn).parameters), "")
        if _DS is not None:
            A.source_model("designspace" if first.lower().startswith("designspace") else "ufo", (_DS,))
        A.add_root(fn, [{A.SRC}], {})
    elif spec["kind"] == "filter":
        mod = importlib.import_module(spec["module"])
        klass = getattr(mod, spec["name"])
        inst = A.new_instance(klass)
        if _DS is not None:
            A.source_model("ufo", (_DS,))  # a filter is called with a UFO font and a glyph set
            A.src_not[A.GS] = (_DS,)
        A.add_root(klass.__call__, [{inst}, {A.SRC}, {A.GS}], {})
        init = klass.__init__
        A.add_root(init, [{inst}], {})
    elif spec["kind"] == "function":
        mod = importlib.import_module(spec["module"])
        o = mod
        for part in spec["name"].split("."):
            o = getattr(o, part)
        pos = [{A.SRC} if a == "SRC" else {A.GS} if a == "GS" else set() for a in spec.get("args", ["SRC"])]
        if spec.get("self_class"):
            klass = getattr(mod, spec["self_class"])
            pos = [{A.new_instance(klass)}] + pos
        A.add_root(o, pos, {})
    elif spec["kind"] == "pipeline":
        # a constructor-like first call on the sources, then method calls on what it returned:
        #   {"kind": "pipeline", "name": .., "source": "designspace" | "ufo",
        #    "first": {"module": .., "name": "Cls.factory", "args": ["SRC"]},
        #    "then": [{"method": "m", "args": ["SRC"]}, ..]}
        # The analysis is run twice: once with the first call only (to obtain the abstract objects it returns), then with
        # the method roots added on exactly those objects.
        if _DS is not None:
            A.source_model(spec.get("source", "designspace"), (_DS,))

        def lookup(modname, dotted):
            o = importlib.import_module(modname)
            for part in dotted.split("."):
                o = getattr(o, part)
            return o

        def argsets(names):
            return [{A.SRC} if a == "SRC" else {A.GS} if a == "GS" else set() for a in names]

        f0 = spec["first"]
        owner = lookup(f0["module"], f0["name"].rsplit(".", 1)[0]) if "." in f0["name"] else None
        fn0 = lookup(f0["module"], f0["name"])
        pos0 = argsets(f0.get("args", ["SRC"]))
        if owner is not None and isinstance(owner, type) and isinstance(owner.__dict__.get(f0["name"].rsplit(".", 1)[1]), classmethod):
            pos0 = [A.wrap_py(owner)] + pos0
            fn0 = fn0.__func__
        A.add_root(fn0, pos0, {})
        A.solve()
        fn0f = A.func_of(fn0)
        results = set()
        for ck, c in A.ctxs.items():
            if c.func is fn0f:
                results |= A.R[c.key]
        results = {o for o in results if o.kind == "inst"}
        for st in spec.get("then", []):
            for o in sorted(results, key=lambda x: x.label):
                k, v = A.class_attr(o.py, st["method"])
                if k is not None:
                    A.add_root(v, [{o}] + argsets(st.get("args", [])), {})
    init_sites = set()
    if spec["kind"] == "filter":
        # phase 1: construction only, to tell construction-time writes of `self` from call-time ones
        A0 = Analysis()
        A0.add_root(klass.__init__, [{A0.new_instance(klass)}], {})
        A0.solve()
        init_sites = set(A0.sites)
    A.solve()
    self_writes = sorted({(st[0], st[1], what, _src_line(st)) for (st, what), targets in A.sites.items()
                          if (st, what) not in init_sites and any("@root" in t for t in targets) and what.startswith((".", "setattr", "del ."))})
    sites = []
    for (st, what), targets in sorted(A.sites.items()):
        sites.append({"file": st[0], "line": st[1], "what": what, "touches": sorted(targets)})
    alarms = []
    for a in A.alarms.values():
        alarms.append({"file": a.site[0], "line": a.site[1], "what": a.what, "func": a.ctx[0], "code": _src_line(a.site)})
    # a run that did not converge, fell back from pruning, or met a construct it does not model is no proof:
    # each such condition is reported as an undischarged obligation of the root
    for (st, reason), fn in sorted(A.unsupported.items()):
        alarms.append({"file": st[0], "line": st[1], "what": "unsupported construct: " + reason, "func": fn, "code": _src_line(st)})
    if not getattr(A, "converged", True):
        alarms.append({"file": "<analysis>", "line": 0, "what": f"no fixpoint within {A.rounds} rounds", "func": spec["name"], "code": "?"})
    gl = []
    for a in A.globals_mut.values():
        gl.append({"file": a.site[0], "line": a.site[1], "what": a.what, "func": a.ctx[0], "target": a.target, "code": _src_line(a.site)})
    funcs = sorted({k[0] for k in A.ctxs})
    return {
        "root": spec["name"], "sites": sites, "alarms": alarms, "globals": gl, "functions": funcs, "rounds": A.rounds,
        "restarts": getattr(A, "restarts", 0), "contexts": len(A.ctxs), "unknown_calls": sorted(A.unknown_calls),
        "self_writes": [list(x) for x in self_writes], "trusted_fresh": sorted(A.trusted_fresh), "wall_s": round(time.time() - t0, 2), "cut_hits": sorted(A.cut_hits),
    }


def run_roots(specs, jobs=None):
    out = []
    if jobs is None:
        try:
            jobs = int(os.environ.get("VERIF_JOBS", "8"))
        except ValueError:
            jobs = 8
    with cf.ProcessPoolExecutor(max_workers=max(1, min(jobs, len(specs)))) as pool:
        for r in pool.map(analyse_root, specs):
            out.append(r)
    return out
