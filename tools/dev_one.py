"""dev helper: python tools/dev_one.py <contract-key-substring> [timeout]  -- generate + discharge one contract, verbose."""
import os
import sys
import traceback

ROOT = os.path.dirname(os.path.dirname(os.path.abspath(__file__)))
sys.path.insert(0, ROOT)
if os.environ.get("VERIF_REPO"):
    sys.path.insert(0, os.path.join(os.environ["VERIF_REPO"], "Lib"))
import warnings

warnings.filterwarnings("ignore")
from vcheck.__main__ import gen_obligations, lemma_obligations, load_all_contracts  # noqa: E402
from pyvc import api  # noqa: E402
from pyvc.solve import discharge  # noqa: E402

load_all_contracts()
pat = sys.argv[1]
tmo = float(sys.argv[2]) if len(sys.argv) > 2 else 10.0
for k, c in list(api.CONTRACTS.items()):
    if pat not in k:
        continue
    print("==", k)
    try:
        src, ex, obs = gen_obligations(c, "DEV")
    except Exception:
        traceback.print_exc()
        continue
    res = discharge(obs, "/tmp/devone/smt", timeout=tmo, jobs=8)
    for r in res:
        print("   ", "ok " if r.ok else "BAD", r.name, r.status, r.solver, round(r.time_s, 2))
for k, l in api.LEMMAS.items():
    if pat not in k:
        continue
    print("== lemma", k)
    try:
        obs = lemma_obligations(l, "DEV")
    except Exception:
        traceback.print_exc()
        continue
    res = discharge(obs, "/tmp/devone/smt", timeout=tmo, jobs=8)
    for r in res:
        print("   ", "ok " if r.ok else "BAD", r.name, r.status, r.solver, round(r.time_s, 2))
