#!/bin/sh
# usage: tools/seedrun.sh <seed-dir-name e.g. C04-2> [property-id]  -- run a check against a seeded change in a scratch worktree
S=$1; P=${2:-${S%%-*}}; WT=/tmp/seedrun/$S
mkdir -p /tmp/seedrun
[ -d "$WT" ] || git -C /repo worktree add -q --detach "$WT" HEAD
git -C "$WT" checkout -q -- . && git -C "$WT" apply /verif/seeded/$S/patch.diff || { echo "apply failed"; exit 9; }
cd /verif && VERIF_REPO=$WT VERIF_OUT=/tmp/seedrun/out-$S VERIF_EVIDENCE=/tmp/seedrun/ev-$S ./check $P; RC=$?
git -C "$WT" checkout -q -- .
echo "seed $S property $P exit=$RC"
exit $RC
