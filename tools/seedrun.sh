#!/bin/sh
# usage: tools/seedrun.sh <seed-dir-name e.g. C04-2> [property-id] [extra ./check args]
# Runs a check against a seeded change in a fresh scratch worktree of /repo's HEAD (outside /repo and /verif),
# which is removed again afterwards together with the outputs of the run.
S=$1; P=${2:-${S%%-*}}; shift; [ $# -gt 0 ] && shift
WT=/tmp/seedrun/$S.$$
mkdir -p /tmp/seedrun
git -C /repo worktree add -q --detach "$WT" HEAD || { echo "worktree failed"; exit 9; }
cleanup() { git -C /repo worktree remove --force "$WT" 2>/dev/null; rm -rf "/tmp/seedrun/out-$S.$$" "/tmp/seedrun/ev-$S.$$"; }
trap cleanup EXIT INT TERM
git -C "$WT" apply /verif/seeded/$S/patch.diff || { echo "apply failed"; exit 9; }
cd /verif && VERIF_REPO=$WT VERIF_OUT=/tmp/seedrun/out-$S.$$ VERIF_EVIDENCE=/tmp/seedrun/ev-$S.$$ ./check $P "$@"; RC=$?
if [ -n "$SEEDRUN_KEEP" ]; then mkdir -p "$SEEDRUN_KEEP"; cp -r /tmp/seedrun/out-$S.$$/$P/replay "$SEEDRUN_KEEP/" 2>/dev/null; fi
echo "seed $S property $P exit=$RC"
exit $RC
