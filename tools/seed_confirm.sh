#!/bin/sh
# usage: seed_confirm.sh C03 1   -- confirm a sub-agent's change in its scratch worktree, then keep it under /verif/seeded
P=$1; K=$2; WT=/tmp/wt/$P; SD=/tmp/seeds/$P/$K
[ -d "$WT" ] || git -C /repo worktree add -q --detach "$WT" HEAD
cd "$WT" || exit 9
git checkout -q -- . ; git status --short | grep -v '^??' && { echo "worktree dirty"; exit 9; }
PYTHONPATH=$WT/Lib /venv/bin/python "$SD/demo.py" >/tmp/seeds/$P/$K.pre.log 2>&1; PRE=$?
git apply "$SD/patch.diff" || { echo "patch does not apply"; exit 9; }
PYTHONPATH=$WT/Lib /venv/bin/python -m pytest -q -p no:cacheprovider -n 8 tests >/tmp/seeds/$P/$K.tests.log 2>&1; TESTS=$?
PYTHONPATH=$WT/Lib /venv/bin/python "$SD/demo.py" >/tmp/seeds/$P/$K.post.log 2>&1; POST=$?
git checkout -q -- .
echo "$P/$K: demo-pristine=$PRE tests-with-change=$TESTS ($(tail -1 /tmp/seeds/$P/$K.tests.log)) demo-with-change=$POST"
if [ $PRE -eq 0 ] && [ $TESTS -eq 0 ] && [ $POST -ne 0 ]; then
  D=/verif/seeded/$P-$K; mkdir -p $D; cp "$SD/patch.diff" "$SD/demo.py" $D/; cp "$SD/notes.md" $D/notes.md 2>/dev/null
  echo CONFIRMED
else echo REJECTED; fi
