#!/bin/sh
# run every seeded change against its property's check (4 at a time); results in out/seedall.txt
cd "$(dirname "$0")/.."
mkdir -p out
ls seeded | xargs -P 4 -I{} sh -c 'VERIF_JOBS=4 tools/seedrun.sh {} > /tmp/seedall.{}.log 2>&1; rc=$?; ob=$(grep -m1 "^VIOLATION" /tmp/seedall.{}.log | sed "s/.*obligation=//" | cut -c1-110); echo "{} exit=$rc $ob"' | sort > out/seedall.txt
cat out/seedall.txt
