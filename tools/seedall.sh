#!/bin/sh
# run every seeded change against its property's check (P at a time, default 4); logs in out/seedall/<seed>.log,
# summary in out/seedall.txt; then tools/mkseeds.py turns the logs into docs/SEEDS.md and seeded/*/meta.json
cd "$(dirname "$0")/.."
P=${1:-4}
mkdir -p out/seedall
ls seeded | xargs -P "$P" -I{} sh -c 'VERIF_JOBS=${SEED_JOBS:-4} VERIF_WATCHDOG_S=3600 tools/seedrun.sh {} > out/seedall/{}.log 2>&1; rc=$?; ob=$(grep -m1 "^VIOLATION" out/seedall/{}.log | sed "s/.*obligation=//" | cut -c1-110); echo "{} exit=$rc $ob"' | sort > out/seedall.txt
cat out/seedall.txt
