#!/usr/bin/env python3
"""Regenerate /verif/MANIFEST.json from the table below (kept in one place so it stays valid)."""
import json
import os
import sys

ROOT = os.path.dirname(os.path.dirname(os.path.abspath(__file__)))
sys.path.insert(0, ROOT)
from tools.claims import CLAIMS, NOT_APPLICABLE  # noqa: E402

BASE_OFF = "cd /repo && /venv/bin/python -m pytest -ra -q -p no:cacheprovider --timeout=900 --continue-on-collection-errors"

m = {
    "version": 1,
    "setup_cmd": "sh ./setup.sh",
    "hooks": {
        "guard": "UFO2FT_VERIF",
        "enable": "none needed: contracts are sidecar files under /verif/contracts; no hook was added to /repo (the guard name is reserved and unused)",
        "baseline_off_cmd": BASE_OFF,
        "source_commits": [],
        "add_only": True,
    },
    "engines": [
        {
            "name": "pyvc",
            "path": "pyvc/",
            "serves_properties": sorted(CLAIMS),
            "kind_free_text": "contract-based deductive verifier built here: VC generator over the Python AST of the real /repo functions (re-read on every run), sidecar contracts, SMT-LIB2 obligations discharged by z3 5.1 / cvc5 1.0.3 / z3 4.8.12 processes; run-time clause interpreter for cross-check and replay",
        }
    ],
    "checks": [],
    "not_applicable": [{"property_id": k, "reason": v} for k, v in sorted(NOT_APPLICABLE.items())],
    "notes": "See DESIGN.md. Exit codes: 0 held / 1 VIOLATION (replay file) / 2 UNDECIDED (solver unknown, solver disagreement, contract misfit; never reported as violation) / 3 checker error. "
             "Known findings and repaired defects: known_findings.json (open findings print KNOWN-FINDING lines; 'fixed:' entries name the unguarded fix: commits in /repo: "
             + ", ".join(sorted({w for e in json.load(open(os.path.join(ROOT, "known_findings.json"))).get("fixed", []) for w in e.split()[2:3]})) + "). No guarded hooks were added to /repo.",
}
for pid in sorted(CLAIMS):
    c = CLAIMS[pid]
    m["checks"].append(
        {
            "property_id": pid,
            "quick_cmd": f"./check {pid} --tier quick",
            "thorough_cmd": f"./check {pid} --tier thorough",
            "evidence_file": f"evidence/{pid}.json",
            "replay_cmd_template": "./check replay {path}",
            "engine": "pyvc",
            "level_claimed": {"category": c["category"], "text": c["text"], "design_ref": c.get("design_ref", "DESIGN.md §3 " + pid)},
            "level_note": c["note"],
            "technique": c["technique"],
        }
    )
with open(os.path.join(ROOT, "MANIFEST.json"), "w") as f:
    json.dump(m, f, indent=1)
print("MANIFEST.json written:", len(m["checks"]), "checks,", len(m["not_applicable"]), "not applicable")
