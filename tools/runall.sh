#!/bin/sh
# usage: tools/runall.sh [tier]  -- run every claimed check, print one line each
cd "$(dirname "$0")/.."
T=${1:-quick}
for f in claims/C*.json; do p=$(basename $f .json); s=$(date +%s); ./check $p --tier $T > /tmp/runall.$p.log 2>&1; rc=$?; e=$(date +%s); echo "$p exit=$rc $((e-s))s $(tail -1 /tmp/runall.$p.log | cut -c1-150)"; done
