"""What MANIFEST.json claims: one JSON file per claimed property under /verif/claims/ (category, technique,
text, note); every property without a file is listed as not_applicable with the reason in NOT_APPLICABLE_REASONS
(or the default 'pending' text)."""
import glob
import json
import os

ROOT = os.path.dirname(os.path.dirname(os.path.abspath(__file__)))
TECH = "contract-based deductive verification (pyvc: AST->SMT VCs of the real functions, z3/cvc5)"
CLAIMS = {}
for f in sorted(glob.glob(os.path.join(ROOT, "claims", "C*.json"))):
    with open(f) as fh:
        c = json.load(fh)
    c.setdefault("technique", TECH)
    CLAIMS[os.path.basename(f)[:-5]] = c

_PENDING = "contracts for this property are not yet built in this snapshot of /verif (work in progress; see DESIGN.md section 3 for the plan)"
NOT_APPLICABLE_REASONS = {}
NOT_APPLICABLE = {f"C{i:02d}": NOT_APPLICABLE_REASONS.get(f"C{i:02d}", _PENDING) for i in range(1, 21) if f"C{i:02d}" not in CLAIMS}
