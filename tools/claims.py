"""What MANIFEST.json claims, per property. Edited by hand as the framework grows."""

TECH = "contract-based deductive verification (pyvc: AST->SMT VCs of the real functions, z3/cvc5)"

CLAIMS = {
    "C03": {
        "category": "proof",
        "technique": TECH,
        "text": "makeOfficialGlyphOrder is proved, for every glyph-name set and every order list (duplicates, unknown names, .notdef anywhere), to return exactly '.notdef' + first occurrences of listed names + sorted rest (loop invariant + postcondition discharged by z3 on VCs generated from the current source). The ufo2ft-side is proved for all inputs and iteration counts; fontTools' cmap/glyph-order serialisation is trusted.",
        "note": "Trusted: Python container semantics as encoded (set/list/dict models in pyvc/models.py), `sorted` as an opaque spec function, duck-typed glyph-set protocol (keys/in). Floats as reals; termination not proved.",
    },
    "C04": {
        "category": "proof",
        "technique": TECH,
        "text": "hhea/vhea derived fields proved against the metrics table and glyph boxes for every glyph order and advance sequence.",
        "note": "Trusted: table attribute bags, getAttrWithFallback summary, Python container semantics.",
    },
}

_PENDING = "contracts for this property are not yet built in this snapshot of /verif (work in progress; see DESIGN.md §3 for the plan)"
NOT_APPLICABLE = {f"C{i:02d}": _PENDING for i in range(1, 21) if f"C{i:02d}" not in CLAIMS}
