#!/bin/sh
# usage: tools/seed_ingest.sh C05 3
# Takes what a sub-agent left in its scratch worktree /tmp/wt-<P>/seed (patch.diff regenerated from the worktree's own diff),
# removes that worktree, confirms the change independently (tools/seed_confirm.sh: demo passes on a pristine worktree, the full
# suite passes with the change, the demo fails with it) and, if confirmed, runs the property's check against it (tools/seedrun.sh).
P=$1; K=$2
cd "$(dirname "$0")/.."
mkdir -p /tmp/seeds/$P/$K out/seedall
cp /tmp/wt-$P/seed/* /tmp/seeds/$P/$K/ 2>/dev/null
git -C /tmp/wt-$P diff -- Lib > /tmp/seeds/$P/$K/patch.diff
git -C /repo worktree remove --force /tmp/wt-$P
[ -s /tmp/seeds/$P/$K/patch.diff ] || { echo "$P-$K: empty patch"; exit 9; }
tools/seed_confirm.sh $P $K | tail -2
git -C /repo worktree remove --force /tmp/wt/$P 2>/dev/null
[ -d seeded/$P-$K ] || exit 8
VERIF_JOBS=${SEED_JOBS:-4} VERIF_WATCHDOG_S=3600 tools/seedrun.sh $P-$K > out/seedall/$P-$K.log 2>&1
echo "$P-$K check exit=$?"
grep "^VIOLATION" out/seedall/$P-$K.log | sed 's/replay=[^ ]*//' | cut -c1-220 | head -4
grep "^UNDECIDED" out/seedall/$P-$K.log | cut -c1-260 | head -3
