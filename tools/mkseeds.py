#!/usr/bin/env python3
"""docs/SEEDS.md and seeded/*/meta.json (caught_by, check_exit) from the logs of tools/seedall.sh (out/seedall/*.log)."""
import glob
import json
import os
import re

R = os.path.dirname(os.path.dirname(os.path.abspath(__file__)))
rows = []
for d in sorted(glob.glob(os.path.join(R, "seeded", "C??-?"))):
    sid = os.path.basename(d)
    log = os.path.join(R, "out", "seedall", sid + ".log")
    if not os.path.exists(log):
        rows.append((sid, "not run", [], 0, 0))
        continue
    txt = open(log, errors="replace").read()
    m = re.search(r"seed \S+ property \S+ exit=(\d+)", txt)
    rc = int(m.group(1)) if m else None
    obs = []
    for line in txt.splitlines():
        if line.startswith("VIOLATION"):
            mm = re.search(r"obligation=(\S+)", line)
            ob = mm.group(1) if mm else "?"
            kind = " (solver, no input)" if line.rstrip().endswith("no-failing-input-found") else ""
            obs.append(ob + kind)
    und = len(re.findall(r"^UNDECIDED", txt, re.M))
    rows.append((sid, rc, obs, und, len(obs)))
    mp = os.path.join(d, "meta.json")
    try:
        meta = json.load(open(mp))
    except Exception:
        meta = {}
    meta["check_exit"] = rc
    meta["caught_by"] = obs[:6]
    meta["undecided_obligations_on_seeded_tree"] = und
    json.dump(meta, open(mp, "w"), indent=1)
head = open(os.path.join(R, "docs", "SEEDS.md")).read().split("\n| seed |")[0].rstrip() + "\n"
out = [head, "", "| seed | exit | first obligations reported (of n) | undecided on the seeded tree |", "|---|---|---|---|"]
for sid, rc, obs, und, n in rows:
    first = "; ".join(f"`{o}`" for o in obs[:2])
    out.append(f"| {sid} | {rc} | {first} ({n}) | {und} |")
caught = sum(1 for r in rows if r[1] == 1)
out.append("")
out.append(f"{caught} of {len(rows)} seeded changes are reported as violations (exit 1) by the check of their property; "
           "`(solver, no input)` marks a violation established by a failed obligation / counter-model without a replayed input "
           "(`no-failing-input-found`). Undecided obligations on a seeded tree are contracts that no longer fit the rewritten code; "
           "they never decide a verdict on their own.")
open(os.path.join(R, "docs", "SEEDS.md"), "w").write("\n".join(out) + "\n")
print(f"{caught}/{len(rows)} caught")
