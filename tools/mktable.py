#!/usr/bin/env python3
"""docs/TABLE.md: one row per property from claims/*.json and the evidence of the last run (numbers only; the
words are in claims and notes)."""
import glob
import json
import os

R = os.path.dirname(os.path.dirname(os.path.abspath(__file__)))
kf = json.load(open(os.path.join(R, "known_findings.json")))
rows = ["| | level | obligations discharged / generated | by back end | functions under contract | ≥ 2 independent `unsat` | z3-only on (Seq String) files | run-time cases (bounded) | bounded parts | open findings | quick wall |",
        "|---|---|---|---|---|---|---|---|---|---|---|"]
tot = {"ob": 0, "dis": 0, "fn": 0}
for f in sorted(glob.glob(os.path.join(R, "claims", "C??.json"))):
    pid = os.path.basename(f)[:-5]
    cl = json.load(open(f))
    try:
        ev = json.load(open(os.path.join(R, "evidence", pid + ".json")))
    except Exception:
        ev = {"coverage": {}}
    c = ev.get("coverage", {})
    fns = c.get("functions_under_contract", [])
    nfn = len({x.get("contract", str(x)).split("#")[0] if isinstance(x, dict) else str(x) for x in fns})
    be = ", ".join(f"{k} {v}" for k, v in sorted((c.get("by_backend") or {}).items(), key=lambda kv: -kv[1]))
    other = (c.get("discharged", 0) or 0) - sum((c.get("by_backend") or {}).values())
    if other > 0:
        kind = {"C07": "frame analysis", "C08": "frame analysis + order obligations", "C14": "frame analysis", "C19": "frame analysis",
                "C12": "syntactic / enumerated"}.get(pid, "syntactic / enumerated (hook)")
        be += f"; {kind} {other}"
    open_f = [k["id"] for k in kf["findings"] if pid in k.get("properties", []) and k.get("status", "open") == "open"]
    rows.append(f"| {pid} | {cl['category']} | {c.get('discharged', '?')} / {c.get('obligations', '?')} | {be} | {nfn} ({len(fns)} contracts) | "
                f"{c.get('confirmed_by_two_configs', '?')} | {c.get('z3_only_on_seq_string_files', '?')} | {(c.get('runtime_crosscheck') or {}).get('cases', 0)} | "
                f"{len(c.get('bounded', []))} | {' '.join(open_f) or '–'} | {ev.get('wall_s', '?')} s ({ev.get('tier', '?')}) |")
    tot["ob"] += c.get("obligations", 0) or 0
    tot["dis"] += c.get("discharged", 0) or 0
    tot["fn"] += len(fns)
rows.append(f"| all | | {tot['dis']} / {tot['ob']} | | {tot['fn']} contracts | | | | | | |")
open(os.path.join(R, "docs", "TABLE.md"), "w").write("\n".join(rows) + "\n")
print("\n".join(rows[-3:]))
