"""Reproducer: PropagateAnchorsIFilter writes anchors into the SOURCE glyphs when it is the first modifying filter of an
interpolatable build (the instantiator's source layers are still the caller's glyph objects)."""
import sys, warnings, logging
warnings.filterwarnings("ignore"); logging.disable(logging.CRITICAL)
import ufoLib2
from fontTools.designspaceLib import DesignSpaceDocument, AxisDescriptor, SourceDescriptor
import ufo2ft

def make_ufo(weight):
    f = ufoLib2.Font()
    f.info.familyName = "T"; f.info.styleName = "W%d" % weight
    f.info.unitsPerEm = 1000; f.info.ascender = 800; f.info.descender = -200; f.info.xHeight = 500; f.info.capHeight = 700
    def sq(g, x0, y0, x1, y1):
        p = g.getPen(); p.moveTo((x0, y0)); p.lineTo((x1, y0)); p.lineTo((x1, y1)); p.lineTo((x0, y1)); p.closePath()
    g = f.newGlyph(".notdef"); g.width = 500
    g = f.newGlyph("a"); g.width = 500 + weight // 10; g.unicodes = [0x61]; sq(g, 50, 0, 400 + weight // 10, 500)
    g.appendAnchor({"name": "top", "x": 250, "y": 520})
    g = f.newGlyph("acutecomb"); g.width = 0; g.unicodes = [0x301]; sq(g, -50, 550, 50, 700)
    g.appendAnchor({"name": "_top", "x": 0, "y": 520})
    g = f.newGlyph("aacute"); g.width = 500 + weight // 10; g.unicodes = [0xE1]
    sq(g, 0, -100, 20, -80)  # a mixed glyph: one contour AND components
    p = g.getPen(); p.addComponent("a", (1, 0, 0, 1, 0, 0)); p.addComponent("acutecomb", (1, 0, 0, 1, 250, 0))
    g = f.newGlyph("aacute.alt"); g.width = 500 + weight // 10
    p = g.getPen(); p.addComponent("aacute", (1, 0, 0, 1, 0, 0))
    f.lib["com.github.googlei18n.ufo2ft.filters"] = [{"name": "propagateAnchors", "pre": True}]
    return f

def make_ds():
    ds = DesignSpaceDocument()
    ax = AxisDescriptor(); ax.name = "Weight"; ax.tag = "wght"; ax.minimum = 400; ax.default = 400; ax.maximum = 700
    ds.addAxis(ax)
    for w in (400, 700):
        s = SourceDescriptor(); s.font = make_ufo(w); s.location = {"Weight": w}; s.name = "m%d" % w; s.familyName = "T"; s.styleName = "W%d" % w
        ds.addSource(s)
    return ds

fn = sys.argv[1] if len(sys.argv) > 1 else "compileInterpolatableTTFsFromDS"
ds = make_ds()
before = [[(a.name, a.x, a.y) for a in s.font["aacute"].anchors] for s in ds.sources]
try:
    r = getattr(ufo2ft, fn)(ds)
    ok = "returned"
except Exception as e:
    ok = "raised %s: %s" % (type(e).__name__, e)
after = [[(a.name, a.x, a.y) for a in s.font["aacute"].anchors] for s in ds.sources]
print(fn, ok)
print("source glyph 'aacute' anchors before:", before)
print("source glyph 'aacute' anchors after: ", after)
print("SOURCE MODIFIED" if before != after else "source unchanged")
