"""Reproducer: compileInterpolatableTTFsFromDS / compileInterpolatableOTFsFromDS (inplace=False) write `doc.default` on the
CALLER'S DesignSpaceDocument: they hand the caller's document to Instantiator.from_designspace / getDefaultMasterFont, which call
DesignSpaceDocument.findDefault(), and that method assigns self.default (fontTools: "This function updates the document's
default value"). A document read from a file already has .default set by the reader, so only documents built in memory (or
whose .default was never computed) show the change; DesignSpaceDocument.asdict() differs before / after."""
import logging, warnings
warnings.filterwarnings("ignore"); logging.disable(logging.CRITICAL)
import ufoLib2
from fontTools.designspaceLib import AxisDescriptor, DesignSpaceDocument, SourceDescriptor
import ufo2ft


def ufo(w):
    f = ufoLib2.Font()
    f.info.familyName, f.info.styleName = "T", "W%d" % w
    f.info.unitsPerEm, f.info.ascender, f.info.descender, f.info.xHeight, f.info.capHeight = 1000, 800, -200, 500, 700
    g = f.newGlyph(".notdef"); g.width = 500
    g = f.newGlyph("a"); g.width = 500 + w // 10; g.unicodes = [0x61]
    p = g.getPen(); p.moveTo((50, 0)); p.lineTo((400 + w // 10, 0)); p.lineTo((400 + w // 10, 500)); p.lineTo((50, 500)); p.closePath()
    return f


def doc():
    ds = DesignSpaceDocument()
    ax = AxisDescriptor(); ax.name, ax.tag, ax.minimum, ax.default, ax.maximum = "Weight", "wght", 400, 400, 700
    ds.addAxis(ax)
    for w in (400, 700):
        s = SourceDescriptor(); s.font = ufo(w); s.location = {"Weight": w}; s.name = "m%d" % w; s.familyName, s.styleName = "T", "W%d" % w
        ds.addSource(s)
    return ds


for fn in ("compileInterpolatableTTFsFromDS", "compileInterpolatableOTFsFromDS", "compileVariableTTF"):
    ds = doc()
    before = ds.default
    getattr(ufo2ft, fn)(ds)
    after = ds.default
    print(fn, "doc.default before:", before, "after:", getattr(after, "name", after), "->", "DOCUMENT MODIFIED" if before is not after else "unchanged")
