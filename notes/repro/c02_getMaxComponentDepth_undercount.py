import warnings; warnings.filterwarnings("ignore")
import ufoLib2, logging, sys
from ufo2ft import compileTTF
from ufo2ft.util import getMaxComponentDepth
from ufoLib2.objects import Component
logging.disable(logging.CRITICAL)
def mk(order, a_comps):
    f = ufoLib2.Font()
    f.info.unitsPerEm=1000; f.info.ascender=800; f.info.descender=-200; f.info.familyName="T"; f.info.styleName="R"
    for n in order:
        f.newGlyph(n).width=500
    p=f["E"].getPen(); p.moveTo((0,0)); p.lineTo((100,0)); p.lineTo((100,100)); p.closePath()
    f["D"].components.append(Component("E", (1,0,0,1,0,0)))
    f["B"].components.append(Component("D", (1,0,0,1,10,0)))
    for b,dx in a_comps: f["A"].components.append(Component(b, (1,0,0,1,dx,0)))
    f.lib["public.glyphOrder"]=list(order)
    return f
def run(a_comps):
    f=mk(["A","B","D","E"], a_comps)
    gs={g.name:g for g in f}
    print("A components", [b for b,_ in a_comps], "getMaxComponentDepth:", {n:getMaxComponentDepth(gs[n],gs) for n in gs})
    font=compileTTF(f)
    print("  compiled: maxp.maxComponentDepth =", font["maxp"].maxComponentDepth, "; order of insertion into glyf:", list(font["glyf"].glyphs))
    from fontTools.pens.hashPointPen import HashPointPen
    hp=HashPointPen(font["hmtx"]["A"][0], font.getGlyphSet()); font["glyf"]["A"].drawPoints(hp, font["glyf"])
    f["A"].lib["public.truetype.instructions"]={"formatVersion":"1","id":hp.hash,"assembly":"PUSHB[ ] 0\nPOP[ ]"}
    try:
        font2=compileTTF(f); print("  with instructions on A: compiled, A has a program:", hasattr(font2["glyf"]["A"],"program"))
    except Exception as e:
        print("  with instructions on A: compileTTF raises", type(e).__name__, e)
run([("D",20),("B",30)])   # D visited first: the memo skips D under B
run([("B",30),("D",20)])   # B first: correct depth
