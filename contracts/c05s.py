"""C05 — script split (round 3): partitionByScript under contract (safety, part-of, non-empty script sets);
mergeScripts written with ghost unions but NOT registered (26 of 31 obligations; see the comment at the contract)."""
from pyvc.api import BOOL, CLASSES, CONTRACTS, INT, REAL, STR, Const, Dict, List, Loop, Map, Named, Opt, Ref, Runtime, Set, Tuple, TupleOf, Union, cls, contract, lemma, specfn, trusted

from . import c05, c05b  # noqa: F401

_KP_MOD = "ufo2ft.featureWriters.kernFeatureWriter"

_FG, _SG = "pair.firstGlyphs", "pair.secondGlyphs"


def _kp_new_frozen(ex, st, args, kwargs, node):
    """the dataclass-generated constructor of KerningPair (a FROZEN dataclass: fields are set once, by object.__setattr__ in
    the generated __init__, and never again).  The model allocates a fresh object (born now, hence distinct from every existing
    object and from every object made earlier) and states its field values as facts about that object instead of as heap
    stores: existing objects are untouched by construction, which is what a generator function (no `modifies` allowed) needs
    for its frame.  (Same library behaviour as c05._kp_new_obj, which uses stores.)"""
    from pyvc.core import lift

    names = ["side1", "side2", "value"]
    bound = dict(zip(names, args))
    bound.update(kwargs)
    o = ex.new_object(st, "KPairT")
    cs = CLASSES["KPairT"]
    for n in names:
        v = ex.deopt(bound[n], st, node)  # (an Optional argument must be present: obligation)
        st.assume(lift(ex.read_field(st, o, n)) == lift(v, cs.fields[n]))
    return o


@specfn(BOOL, g=STR, side=c05.SIDE_T)
def k5_in_side(g, side):
    """g is a glyph of the side (a class: one of its members; a single glyph: that glyph)"""
    return (g in side) if isinstance(side, tuple) else (g == side)


@specfn(BOOL, g1=STR, g2=STR, glyphScripts=Dict(STR, Set(STR)), opaque=True)
def k5_dirs_compatible(g1, g2, glyphScripts):
    """(run-time clauses only) the two glyphs can meet in one run: some horizontal direction of a script of g1 equals one of g2,
    or one of the two is direction-neutral (`Auto`: common / inherited script).  Computed independently of the code under
    contract: fontTools' script direction on the glyph's scripts, with Zyyy / Zinh (or no known script) as neutral."""
    from fontTools import unicodedata as ftud

    def dirs(g):
        scripts = glyphScripts.get(g) or {"Zyyy"}
        if scripts & {"Zyyy", "Zinh"}:
            return {"Auto"}
        return {ftud.script_horizontal_direction(s, "LTR") for s in scripts}

    d1, d2 = dirs(g1), dirs(g2)
    return "Auto" in d1 or "Auto" in d2 or bool(d1 & d2)


# a yielded pair q is a PART of the input pair: same value, each side of the same kind (a class stays a class, a glyph stays
# that glyph) and made of glyphs of the input side only
_PARTOF = ("({q}.value == pair.value"
           " and isinstance({q}.side1, tuple) == isinstance(pair.side1, tuple) and isinstance({q}.side2, tuple) == isinstance(pair.side2, tuple)"
           " and (all(k5_in_side(x, pair.side1) for x in {q}.side1) if isinstance({q}.side1, tuple) else {q}.side1 == pair.side1)"
           " and (all(k5_in_side(x, pair.side2) for x in {q}.side2) if isinstance({q}.side2, tuple) else {q}.side2 == pair.side2))")


def _dir_inv(k):
    """safety invariants about side{k}Directions: every glyph in a direction's set has its resolved scripts recorded; for a
    single-glyph side every direction's set is that glyph alone (element-wise: set equalities under a quantifier are avoided)"""
    D = f"side{k}Directions"
    side = f"pair.side{k}"
    return {
        f"members.{k}": f"all(all(g in resolvedScripts and k5_in_side(g, {side}) for g in {D}[d]) for d in set({D}))",
        f"nonempty.{k}": f"all({D}[d] != set() for d in set({D}))",
        f"single.{k}": f"implies(not isinstance({side}, tuple), all({side} in {D}[d] and all(g == {side} for g in {D}[d]) for d in set({D})))",
    }


def _part_loops():
    this = lambda k: {f"this.{k}": f"glyph in resolvedScripts and k5_in_side(glyph, pair.side{k})"}
    res = {"scripts": "all(resolvedScripts[g] != set() for g in set(resolvedScripts))"}
    both = {**_dir_inv(1), **_dir_inv(2), **res}
    out = {"out": "all(" + _PARTOF.format(q="__yield__[n][1]") + " for n in range(len(__yield__)))",
           "out-scripts": "all(__yield__[n][0] != set() for n in range(len(__yield__)))"}
    gen = "for direction in (script_direction(script) for script in sorted(scripts))"
    return {
        "for glyph in pair.firstGlyphs": Loop(index="i1", invariants={**_dir_inv(1), **res}),
        gen + "#1": Loop(index="j1", invariants={**_dir_inv(1), **res, **this(1)}),
        "for glyph in pair.secondGlyphs": Loop(index="i2", invariants=both),
        gen + "#2": Loop(index="j2", invariants={**both, **this(2)}),
        "for glyph in localSide1": Loop(index="q1", invariants={"some.1": "implies(q1 >= 1, side1Scripts != set())"}),
        "for glyph in localSide2": Loop(index="q2", invariants={"some.2": "implies(q2 >= 1, side2Scripts != set())"}),
        "for (side1Direction, side2Direction) in itertools.product(side1Directions, side2Directions)": Loop(index="p", invariants={**both, **out}),
    }


contract(
    f"{_KP_MOD}:partitionByScript",
    props=["C05"],
    params={"pair": Ref("KPairT"), "glyphScripts": Dict(STR, Set(STR))},
    returns=List(Tuple(Set(STR), Ref("KPairT"))),
    models={f"{_KP_MOD}.KerningPair": _kp_new_frozen},
    sorted_axioms=True,
    # every glyph known to glyphScripts has at least one script (setContext builds the map with setdefault(g, set()).add(script))
    requires=["all(glyphScripts[g] != set() for g in set(glyphScripts))"],
    ensures={
        "part": "all(" + _PARTOF.format(q="result[n][1]") + " for n in range(len(result)))",
        # every yielded script set is non-empty (splitKerning keys its buckets by them; mergeScripts raises AssertionError for an
        # empty key)
        "scripts-non-empty": "all(result[n][0] != set() for n in range(len(result)))",
    },
    # run-time only (bounded): nothing compatible is lost - every glyph pair of the input whose glyphs can meet in one run (same
    # direction, or one of them neutral) is covered by a yielded pair
    bounded_ensures={
        "covers": "all(all(implies(k5_dirs_compatible(g1, g2, glyphScripts), any(g1 in result[n][1].firstGlyphs and g2 in result[n][1].secondGlyphs for n in range(len(result)))) for g2 in pair.secondGlyphs) for g1 in pair.firstGlyphs)",
    },
    canaries={"empty": "len(result) == 0", "at-most-one": "len(result) <= 1"},
    locals={"side1Directions": Dict(STR, Set(STR)), "side2Directions": Dict(STR, Set(STR)), "resolvedScripts": Dict(STR, Set(STR)),
            "side1Scripts": Set(STR), "side2Scripts": Set(STR), "scripts": Set(STR)},
    loops=_part_loops(),
)


_PART_SCRIPTS = {"A": ["Latn"], "B": ["Latn"], "alpha": ["Grek"], "alef": ["Arab"], "beh": ["Arab"], "comma": ["Zyyy"], "grave": ["Zinh"],
                 "dual": ["Latn", "Grek"], "mixed": ["Arab", "Zyyy"], "ka": ["Deva"], "he": ["Hebr"]}


def _part_cases(rng, n):
    glyphs = sorted(_PART_SCRIPTS) + ["unencoded", "other"]
    out = []
    for k in range(n):
        def side():
            return rng.choice(glyphs) if rng.random() < 0.4 else sorted(rng.sample(glyphs, rng.randint(1, 5)))

        known = [g for g in sorted(_PART_SCRIPTS) if rng.random() < 0.85]
        out.append({"side1": side(), "side2": side(), "value": rng.choice([-40, 0, 12.5, 7]), "known": known})
    return out


def _part_build(d):
    from ufo2ft.featureWriters.kernFeatureWriter import KerningPair

    def side(x):
        return tuple(x) if isinstance(x, list) else x

    class CopyablePair(KerningPair):
        """(see c05._split_build: the run-time interpreter snapshots arguments; an immutable value is its own copy)"""

        __slots__ = ()

        def __deepcopy__(self, memo):
            return self

    return {"pair": CopyablePair(side(d["side1"]), side(d["side2"]), d["value"]), "glyphScripts": {g: set(_PART_SCRIPTS[g]) for g in d["known"]}}


CONTRACTS[f"{_KP_MOD}:partitionByScript"].runtime = Runtime(_part_cases, _part_build, call=lambda fn, a: fn(a["pair"], a["glyphScripts"]))


def _link(L, U):
    """every member of the ghost union U is in one of the sets of the list L"""
    return f"all(any(x in {L}[m] for m in range(len({L}))) for x in {U})"


def _merge_loops():
    """coverage: every script of every input key is in one of the sets, through all the merging passes (the sets only ever grow
    together); in the re-assignment loop this is what makes the `Shouldn't happen` branch unreachable for a non-empty key.
    Ghost unions (US of `sets`, UR of `result`, US1 of the sets of the pass being consumed) keep the coverage statement free of
    quantifier alternation; the only exists-under-forall facts are the links list <-> union."""
    def cov(*unions):
        return "all(all(" + " or ".join(f"x in {u}" for u in unions) + " for x in set(K)) for K in set(kerningPerScript))"

    keys = "all(tuple(sorted(sets[k])) in result for k in range(len(sets)))"
    return {
        "while merged": Loop(invariants={"cov": cov("US"), "link.sets": _link("sets", "US")}),
        "while sets": Loop(invariants={"cov": cov("US", "UR"), "link.sets": _link("sets", "US"), "link.result": _link("result", "UR")}),
        "for scripts in rest": Loop(index="j", invariants={
            "link.sets": _link("sets", "US"),
            "done": "all(all(x in common or x in US for x in rest[m]) for m in range(j))",
            "grows": "all(x in common for x in c0)",
        }),
        "for (scripts, pairs) in kerningPerScript.items()": Loop(index="a", seq="IT", locals={"result": BUCKETS}, invariants={
            "keys": keys,
            "seen-non-empty": "all(len(IT[k]) > 0 for k in range(a))",
        }),
        "for scripts2 in sets": Loop(index="b", locals={"result": BUCKETS}, invariants={
            "keys": keys,
            "miss": "all((sets[k] & set(scripts)) == set() for k in range(b))",
        }),
    }


_MERGE_GHOST = {
    "result = []": ["UR = set()"],
    "common, rest = (sets[0], sets[1:])": ["c0 = common | set()"],
    "sets = []": ["US1 = US | set()", "US = set()"],
    "sets.append(scripts)": ["US = US | scripts"],
    "result.append(common)": ["UR = UR | common"],
    "sets = result": ["US = UR | set()"],
}


SETS = List(Set(STR))
BUCKETS = Dict(List(STR), List(Ref("KPairT")))  # (tuple(sorted(..)) is typed as a list by the engine)
# NOT REGISTERED (props=[]): 26 of 31 obligations discharge -- no IndexError at `sets[0]`, no KeyError at
# `result[tuple(sorted(scripts2))]`, every invariant of the re-assignment loops, the union bookkeeping of the merging passes,
# and the direction "returns normally => no key is empty" of the AssertionError characterisation.  Open (all solvers time out,
# also at 40 s): the exists-under-forall link "x in the ghost union => x in sets[m] for some m" across `sets.append(scripts)`
# (the witness index lives in the appended list, no term of which occurs in the goal) and, depending on it, the coverage step of
# `while sets` and "AssertionError => some key is empty"; the two initial facts drown in the lambda/exists facts of the
# filtered comprehension at L965, which stay on the path of every later obligation.  See notes/C05.md (round 3).
contract(
    f"{_KP_MOD}:mergeScripts",
    props=[],
    params={"kerningPerScript": BUCKETS},
    returns=BUCKETS,
    raises={"AssertionError": "any(len(K) == 0 for K in set(kerningPerScript))"},
    ensures={"t": "True"},
    canaries={"empty": "len(result) == 0"},
    locals={"sets": SETS, "merged": BOOL, "common": Set(STR), "rest": SETS, "result": SETS, "result@L984": BUCKETS, "result@L988": BUCKETS},
    comp_positions=True,
    ghost_vars={"US": (Set(STR), "{x for K in kerningPerScript for x in K}"), "UR": (Set(STR), "set()"), "US1": (Set(STR), "set()"), "c0": (Set(STR), "set()")},
    ghost=_MERGE_GHOST,
    loops=_merge_loops(),
)


# ---- probe (round 3, NOT registered): the alternative writer's partition_by_direction ---------------------------------------
# Blocker: `itertools.product(sorted(side1Directions), sorted(side2Directions))` sorts Direction members with the enum's own
# `__lt__` (by member name): the engine has no order on an Enum type (`sorted(): no order on Enum[Direction]`), and without the
# sorted axioms the product's keys are not known to be keys of the dicts (KeyError obligations).  Request 23 in notes/C05.requests.md.
from pyvc.api import Enum  # noqa: E402

_DIR = Enum("ufo2ft.featureWriters.kernFeatureWriter2:Direction")
contract(
    f"{_KP_MOD}2:partition_by_direction",
    name="probe",
    props=[],
    params={"pair": Ref("KPairT"), "glyph_bidi": Dict(STR, Set(_DIR)), "glyph_direction": Dict(STR, Set(_DIR))},
    returns=List(Tuple(_DIR, Ref("KPairT"))),
    models={f"{_KP_MOD}2.KerningPair": _kp_new_frozen},
    sorted_axioms=True,
    ensures={"t": "True"},
    canaries={"empty": "len(result) == 0"},
    locals={"side1Bidis": Dict(_DIR, Set(STR)), "side2Bidis": Dict(_DIR, Set(STR)), "side1Directions": Dict(_DIR, Set(STR)), "side2Directions": Dict(_DIR, Set(STR))},
)
