"""C05 — script split: partitionByScript / splitKerning / mergeScripts (probing)."""
from pyvc.api import BOOL, CLASSES, CONTRACTS, INT, REAL, STR, Const, Dict, List, Loop, Map, Named, Opt, Ref, Runtime, Set, Tuple, TupleOf, Union, cls, contract, lemma, specfn, trusted

from . import c05, c05b  # noqa: F401

_KP_MOD = "ufo2ft.featureWriters.kernFeatureWriter"

_FG, _SG = "pair.firstGlyphs", "pair.secondGlyphs"


def _dir_inv(k):
    """safety invariants about side{k}Directions: every glyph in a direction's set has its resolved scripts recorded; for a
    single-glyph side every direction's set is that glyph alone (element-wise: set equalities under a quantifier are avoided)"""
    D = f"side{k}Directions"
    side = f"pair.side{k}"
    return {
        f"members.{k}": f"all(all(g in resolvedScripts for g in {D}[d]) for d in set({D}))",
        f"single.{k}": f"implies(not isinstance({side}, tuple), all({side} in {D}[d] and all(g == {side} for g in {D}[d]) for d in set({D})))",
    }


def _part_loops():
    this = lambda k: {f"this.{k}": f"glyph in resolvedScripts and implies(not isinstance(pair.side{k}, tuple), glyph == pair.side{k})"}
    gen = "for direction in (script_direction(script) for script in sorted(scripts))"
    return {
        "for glyph in pair.firstGlyphs": Loop(index="i1", invariants=_dir_inv(1)),
        gen + "#1": Loop(index="j1", invariants={**_dir_inv(1), **this(1)}),
        "for glyph in pair.secondGlyphs": Loop(index="i2", invariants={**_dir_inv(1), **_dir_inv(2)}),
        gen + "#2": Loop(index="j2", invariants={**_dir_inv(1), **_dir_inv(2), **this(2)}),
    }


contract(
    f"{_KP_MOD}:partitionByScript",
    props=["C05"],
    params={"pair": Ref("KPairT"), "glyphScripts": Dict(STR, Set(STR))},
    returns=List(Tuple(Set(STR), Ref("KPairT"))),
    models={f"{_KP_MOD}.KerningPair": c05._kp_new_obj},
    sorted_axioms=True,
    # every glyph known to glyphScripts has at least one script (setContext builds the map with setdefault(g, set()).add(script))
    requires=["all(glyphScripts[g] != set() for g in set(glyphScripts))"],
    ensures={"t": "True"},
    canaries={"empty": "len(result) == 0"},
    locals={"side1Directions": Dict(STR, Set(STR)), "side2Directions": Dict(STR, Set(STR)), "resolvedScripts": Dict(STR, Set(STR)),
            "side1Scripts": Set(STR), "side2Scripts": Set(STR), "scripts": Set(STR)},
    loops=_part_loops(),
)


SETS = List(Set(STR))
BUCKETS = Dict(TupleOf(STR), List(Ref("KPairT")))
contract(
    f"{_KP_MOD}:mergeScripts",
    props=["C05"],
    params={"kerningPerScript": BUCKETS},
    returns=BUCKETS,
    sorted_axioms=True,
    raises={"AssertionError": "any(len(K) == 0 for K in set(kerningPerScript))"},
    ensures={"t": "True"},
    canaries={"empty": "len(result) == 0"},
    locals={"sets": SETS, "merged": BOOL, "common": Set(STR), "rest": SETS, "result": BUCKETS},
    loops={
        "while merged": Loop(locals={"result": SETS}),
        "while sets": Loop(locals={"result": SETS}),
        "for scripts in rest": Loop(index="j"),
        "for (scripts, pairs) in kerningPerScript.items()": Loop(index="a", locals={"result": BUCKETS}),
        "for scripts2 in sets": Loop(index="b", locals={"result": BUCKETS}),
    },
)
