"""C05 — script split: partitionByScript / splitKerning / mergeScripts (probing)."""
from pyvc.api import BOOL, CLASSES, CONTRACTS, INT, REAL, STR, Const, Dict, List, Loop, Map, Named, Opt, Ref, Runtime, Set, Tuple, TupleOf, Union, cls, contract, lemma, specfn, trusted

from . import c05, c05b  # noqa: F401

_KP_MOD = "ufo2ft.featureWriters.kernFeatureWriter"

_FG, _SG = "pair.firstGlyphs", "pair.secondGlyphs"


def _dir_inv(k, n):
    """invariants about side{k}Directions after the first n glyphs of that side (G = the side's glyph tuple): every direction's
    set is non-empty and holds only glyphs of the side that have their resolved scripts recorded; for a single-glyph side
    every set is that glyph alone"""
    G = _FG if k == 1 else _SG
    D = f"side{k}Directions"
    side = f"pair.side{k}"
    return {
        f"resolved.{k}": f"all({G}[m] in resolvedScripts for m in range({n}))",
        f"members.{k}": f"all({D}[d] != set() and all(g in resolvedScripts and any({G}[m] == g for m in range({n})) for g in {D}[d]) for d in set({D}))",
        f"single.{k}": f"implies(not isinstance({side}, tuple), all({D}[d] == {{{side}}} for d in set({D})))",
    }


def _part_loops():
    one = _dir_inv(1, "i")
    one_inner = {**_dir_inv(1, "i"), "this": "glyph == " + _FG + "[i] and glyph in resolvedScripts"}
    two = {**_dir_inv(1, "len(" + _FG + ")"), **_dir_inv(2, "i2")}
    two_inner = {**_dir_inv(1, "len(" + _FG + ")"), **_dir_inv(2, "i2"), "this": "glyph == " + _SG + "[i2] and glyph in resolvedScripts"}
    # inside the inner loops the current glyph may already be a member: the membership bound is i + 1 there
    one_inner.update({k: v.replace("range(i)", "range(i + 1)") for k, v in _dir_inv(1, "i").items() if k.startswith(("members", "resolved"))})
    two_inner.update({k: v.replace("range(i2)", "range(i2 + 1)") for k, v in _dir_inv(2, "i2").items() if k.startswith(("members", "resolved"))})
    gen = "for direction in (script_direction(script) for script in sorted(scripts))"
    return {
        "for glyph in pair.firstGlyphs": Loop(index="i", invariants=one),
        gen + "#1": Loop(index="j", invariants=one_inner),
        "for glyph in pair.secondGlyphs": Loop(index="i2", invariants=two),
        gen + "#2": Loop(index="j2", invariants=two_inner),
    }


contract(
    f"{_KP_MOD}:partitionByScript",
    props=["C05"],
    params={"pair": Ref("KPairT"), "glyphScripts": Dict(STR, Set(STR))},
    returns=List(Tuple(Set(STR), Ref("KPairT"))),
    models={f"{_KP_MOD}.KerningPair": c05._kp_new_obj},
    sorted_axioms=True,
    # every glyph known to glyphScripts has at least one script (setContext builds the map with setdefault(g, set()).add(script))
    requires=["all(glyphScripts[g] != set() for g in set(glyphScripts))"],
    ensures={"t": "True"},
    canaries={"empty": "len(result) == 0"},
    locals={"side1Directions": Dict(STR, Set(STR)), "side2Directions": Dict(STR, Set(STR)), "resolvedScripts": Dict(STR, Set(STR)),
            "side1Scripts": Set(STR), "side2Scripts": Set(STR), "scripts": Set(STR)},
    loops=_part_loops(),
)


SETS = List(Set(STR))
BUCKETS = Dict(TupleOf(STR), List(Ref("KPairT")))
contract(
    f"{_KP_MOD}:mergeScripts",
    props=["C05"],
    params={"kerningPerScript": BUCKETS},
    returns=BUCKETS,
    sorted_axioms=True,
    raises={"AssertionError": "any(len(K) == 0 for K in set(kerningPerScript))"},
    ensures={"t": "True"},
    canaries={"empty": "len(result) == 0"},
    locals={"sets": SETS, "merged": BOOL, "common": Set(STR), "rest": SETS, "result": BUCKETS},
    loops={
        "while merged": Loop(locals={"result": SETS}),
        "while sets": Loop(locals={"result": SETS}),
        "for scripts in rest": Loop(index="j"),
        "for (scripts, pairs) in kerningPerScript.items()": Loop(index="a", locals={"result": BUCKETS}),
        "for scripts2 in sets": Loop(index="b", locals={"result": BUCKETS}),
    },
)
