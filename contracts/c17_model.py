"""Shared vocabulary of C17 / C18 / C20: feaLib AST objects as the feature-writer contracts see them.

Everything here is an ASSUMED model of a *library* (fontTools.feaLib.ast, Python builtins) or Python-semantics glue:

  * `c17_Node`    one heap class for every feaLib AST node; `kind` is the Python class name (type(n).__name__),
                  the other fields are the attributes the feaLib constructors store (same names).
  * `c17_FeaFile` a FeatureFile: `statements`, plus the abstract field `featureTags` = {s.name | s in statements,
                  s a FeatureBlock}, a DEFINED set term over the heap.
  * `fea_shim(...)` a stand-in for the module global `ast` of the writer modules (`ufo2ft.featureWriters.ast`
                  re-exports every feaLib class).  Class attributes resolve to constructor / isinstance models that are
                  private to these contracts (no global registration, so other properties' models are never shadowed).
  * `ISINSTANCE`  isinstance(n, K) for a node n  <=>  n.kind is K or a feaLib subclass of K (subclass table read from
                  the installed fontTools); every other value is delegated to the engine's builtin model.
  * `NAMESPACE`   types.SimpleNamespace(**kw): a fresh attribute bag holding kw.

The constructor model ("keyword/positional argument p is stored as attribute p, blocks start with statements == []")
is checked against the installed feaLib by the bounded conformance part of vcheck/hooks/c17.py.
"""
from __future__ import annotations

import inspect
import types

import z3
from fontTools.feaLib import ast as _fea

from pyvc import models as _models
from pyvc import ty as T
from pyvc.api import BOOL, CLASSES, INT, STR, Dict, List, Opt, Ref, Set, Tuple, cls, trusted
from pyvc.core import PYOBJ, Unsupported, Val, lift
from pyvc.exprs import bool_val, z_or
from pyvc.ops import is_const
from pyvc.rt import Proxy
from pyvc.symex import FuncRef

NODE = "c17_Node"
FEAFILE = "c17_FeaFile"
NS = "c17_NS"

FEA_CLASSES = {n: c for n, c in vars(_fea).items() if inspect.isclass(c) and c.__module__ == _fea.__name__}


def kinds_of(pycls):
    """names of the feaLib classes that are `pycls` or a subclass of it"""
    return sorted(n for n, c in FEA_CLASSES.items() if issubclass(c, pycls))


# ---- run-time side: abstract views of real feaLib objects ---------------------------------------------------------


def raw(o):
    return object.__getattribute__(o, "_obj") if isinstance(o, Proxy) else o


def is_node(o):
    return isinstance(o, (_fea.Element, _fea.FeatureFile)) or type(o).__name__ in FEA_CLASSES


def P(o):
    """wrap real feaLib nodes (recursively through containers) so that clauses can read the abstract fields"""
    if isinstance(o, Proxy) or o is None:
        return o
    if isinstance(o, _fea.FeatureFile):
        return Proxy(o, CLASSES[FEAFILE])
    if is_node(o):
        return Proxy(o, CLASSES[NODE])
    if isinstance(o, tuple):
        return tuple(P(x) for x in o)
    if isinstance(o, list):
        return [P(x) for x in o]
    if isinstance(o, dict):
        return {k: P(v) for k, v in o.items()}
    if isinstance(o, types.SimpleNamespace):
        return Proxy(o, CLASSES[NS])
    return o


def feature_tags(feaFile):
    """reference implementation (independent of ufo2ft): tags of the top-level feature blocks"""
    return {s.name for s in raw(feaFile).statements if isinstance(s, _fea.FeatureBlock)}


_NODE_VIEWS = {
    "kind": lambda o: type(o).__name__,
    "statements": lambda o: [P(s) for s in o.statements],
    "text": lambda o: o.text,
    "lookup": lambda o: P(o.lookup),
    "glyphs_names": lambda o: [g if isinstance(g, str) else g.asFea() for g in o.glyphs],
}

cls(
    NODE,
    fields={
        "kind": STR,
        "name": STR,
        "statements": List(Ref(NODE)),
        "text": STR,
        "script": STR,
        "language": STR,
        "include_default": BOOL,
        "required": BOOL,
        "value": INT,
        "lookup": Ref(NODE),
        "use_extension": BOOL,
        "glyph": STR,
    },
    dynamic=True,
    views=_NODE_VIEWS,
    notes="feaLib AST node: kind = type(n).__name__, other fields = the attributes stored by the feaLib constructors (assumed)",
)


def _tags_of(stm, kind, name):
    """{name[s] | s in stm, kind[s] == 'FeatureBlock'} as a set term: the DEFINITION of the abstract field featureTags"""
    t = z3.Const("c17_ft_t", z3.StringSort())
    i = z3.Int("c17_ft_i")
    return z3.Lambda([t], z3.Exists([i], z3.And(i >= 0, i < z3.Length(stm), z3.Select(kind, stm[i]) == z3.StringVal("FeatureBlock"), z3.Select(name, stm[i]) == t)))


def _feature_tags_derived(ex, st, self):
    """featureTags = the tags of the top-level feature blocks, as a defined set term (the native view below is the same definition)"""
    stm = ex.read_field(st, self, "statements").term
    return Val(Set(STR), _tags_of(stm, ex.field_array(st, NODE, "kind"), ex.field_array(st, NODE, "name")))


cls(
    FEAFILE,
    fields={"statements": List(Ref(NODE))},
    derived={"featureTags": _feature_tags_derived},
    views={"statements": lambda o: [P(s) for s in o.statements], "featureTags": feature_tags},
    notes="feaLib FeatureFile: statements; featureTags = {s.name | s top-level FeatureBlock} (derived from the heap)",
)

cls(
    NS,
    dynamic=True,
    views={
        "todo": lambda o: set(o.todo),
        "existingFeatures": lambda o: set(o.existingFeatures),
        "insertComments": lambda o: P(o.insertComments),
        "feaFile": lambda o: P(o.feaFile),
        "gdefTableBlock": lambda o: P(o.gdefTableBlock),
    },
    notes="types.SimpleNamespace attribute bag (the writers' `context`)",
)


# ---- isinstance on nodes -------------------------------------------------------------------------------------------


def _class_names(k):
    ks = k.py if k.is_py and isinstance(k.py, tuple) else (k,)
    names = set()
    for kk in ks:
        o = kk.py if isinstance(kk, Val) else kk
        o = o.obj if isinstance(o, FuncRef) else o
        if not inspect.isclass(o):
            raise Unsupported("isinstance with a non-class")
        real = FEA_CLASSES.get(o.__name__)
        if real is None:
            return None
        names |= set(kinds_of(real))
    return names


@trusted("c17.isinstance", "isinstance(n, K) for a feaLib node n: type(n).__name__ names K or a feaLib subclass of K (subclass table of the installed fontTools); other values: the engine's builtin isinstance model")
def _isinstance(ex, st, args, kwargs, node):
    v, k = args
    if isinstance(v.ty, T.Opt) and isinstance(v.ty.inner, T.Ref) and v.ty.inner.cls == NODE:
        names = _class_names(k)
        s = v.ty.sort()
        kind = ex.read_field(st, Val(v.ty.inner, s.val(v.term)), "kind")
        return bool_val(z3.And(s.is_some(v.term), z_or(*[kind.term == z3.StringVal(n) for n in sorted(names or ())])))
    if isinstance(v.ty, T.Ref) and v.ty.cls == NODE:
        names = _class_names(k)
        if names is None:
            return Val.const(False)
        kind = ex.read_field(st, v, "kind")
        return bool_val(z_or(*[kind.term == z3.StringVal(n) for n in sorted(names)]))
    return _models.BUILTIN_MODELS["builtins.isinstance"].model(ex, st, args, kwargs, node)


ISINSTANCE = Val.obj(FuncRef(None, "c17.isinstance"))


# ---- SimpleNamespace -------------------------------------------------------------------------------------------------


@trusted("c17.SimpleNamespace", "types.SimpleNamespace(**kw) is a fresh object whose attributes are exactly kw")
def _namespace(ex, st, args, kwargs, node):
    if args:
        raise Unsupported("SimpleNamespace with positional arguments", node)
    o = ex.new_object(st, NS)
    for k, v in kwargs.items():
        if v.is_py and v.py is None:
            ft = CLASSES[NS].fields.get(k)
            if isinstance(ft, T.Opt):
                ex.write_field(st, o, k, v, node)
            continue  # attribute holding None: not read by any clause
        ex.write_field(st, o, k, v, node)
    return o


NAMESPACE = Val.obj(FuncRef(None, "c17.SimpleNamespace"))


# ---- constructors of feaLib nodes -------------------------------------------------------------------------------------

_BLOCKS = set(kinds_of(_fea.Block))


def _ctor_model(name):
    real = FEA_CLASSES[name]
    sig = inspect.signature(real.__init__)
    pnames = [p for p in sig.parameters if p != "self"]
    defaults = {p: sig.parameters[p].default for p in pnames if sig.parameters[p].default is not inspect.Parameter.empty}

    def ctor(ex, st, args, kwargs, node):
        if len(args) > len(pnames):
            raise Unsupported(f"{name}: constructor arity", node)
        bound = dict(zip(pnames, args))
        for k, v in kwargs.items():
            if k not in pnames or k in bound:
                raise Unsupported(f"{name}: constructor keyword {k}", node)
            bound[k] = v
        o = ex.new_object(st, NODE)
        ex.write_field(st, o, "kind", Val.const(name), node)
        if name in _BLOCKS:
            ex.write_field(st, o, "statements", Val(List(Ref(NODE)), z3.Empty(List(Ref(NODE)).sort())), node)
        for p in pnames:
            if p == "location":
                continue
            if p in bound:
                v = bound[p]
            elif p in defaults:
                v = Val.const(defaults[p])
            else:
                raise Unsupported(f"{name}: missing constructor argument {p}", node)
            if v.is_py and v.py is None:
                ft = CLASSES[NODE].fields.get(p)
                if isinstance(ft, T.Opt):
                    ex.write_field(st, o, p, v, node)
                continue  # attribute holding None: left unset in the model (never read by a clause)
            if v.is_py and v.ty is PYOBJ and isinstance(v.py, (list, tuple)) and not v.py:
                continue  # empty container of unknown element type
            ex.write_field(st, o, p, v, node)
        return o

    return ctor


def fea_shim(**extra):
    """A module object standing in for the writers' global `ast`: every feaLib class name resolves to a private
    constructor model; `extra` adds further attributes (real ufo2ft functions -> their contracts, or private summaries)."""
    m = types.ModuleType("c17shim")
    for name in FEA_CLASSES:
        k = type(name, (), {"__module__": "c17shim"})
        setattr(m, name, k)
        q = f"c17shim.{name}"
        from pyvc.api import TRUSTED, Trusted

        if q not in TRUSTED:
            TRUSTED[q] = Trusted(q, _ctor_model(name), f"feaLib {name}(...) stores each constructor argument under the attribute of the same name" + ("; statements == []" if name in _BLOCKS else ""))
    for k, v in extra.items():
        setattr(m, k, v)
    return Val.obj(m)


def shim_function(name, clause):
    """A python function object `c17shim.<name>` whose calls resolve to the trusted/summary model registered under that name."""

    def deco(model):
        def f(*a, **k):  # never executed
            raise RuntimeError("model only")

        f.__module__ = "c17shim"
        f.__qualname__ = name
        f.__name__ = name
        trusted(f"c17shim.{name}", clause)(model)
        return f

    return deco


def assume_clause(ex, st, env, src):
    """assume a clause (text) over the given extra bindings in state st"""
    sub = st.copy()
    sub.pc = st.pc
    sub.env = dict(env)
    save = ex.spec_mode
    try:
        g = ex.clause(src, sub)
    finally:
        ex.spec_mode = save
    st.assume(g if not isinstance(g, bool) else z3.BoolVal(g))


class NativeVal(Val):
    """a per-contract global that is a model in the logic and an ordinary callable for the run-time interpreter (rt puts the
    contract's `globals` into the clause environment, where they would otherwise shadow the builtin of the same name)"""

    __slots__ = ("native",)

    def __call__(self, *a, **k):
        return self.native(*a, **k)


def native_global(val, fn):
    v = NativeVal(val.ty, val.term, val.py, val.is_py, val.meta)
    v.native = fn
    return v


# `fresh(x)` is a spec form of the engine (x not allocated in the pre-state); natively every object a clause can name existed
NATIVE_FRESH = lambda x: False  # noqa: E731

# ids of a statement list: in the logic the list of references itself, natively the list of id()s (survives the deep copy
# that the run-time interpreter takes of old(...) values)
CLASSES[NODE].derived["stmt_ids"] = lambda ex, st, self: ex.read_field(st, self, "statements")
CLASSES[NODE].views["stmt_ids"] = lambda o: [id(s) for s in o.statements]
CLASSES[FEAFILE].derived["stmt_ids"] = lambda ex, st, self: ex.read_field(st, self, "statements")
CLASSES[FEAFILE].views["stmt_ids"] = lambda o: [id(s) for s in o.statements]


# ---- the PRE-state of the AST (for postconditions and loop invariants that quantify over nodes) --------------------------------
# `old(e)` cannot mention a quantifier-bound variable and deep-copies object lists at run time, so the pre-state value of a field is
# offered as a derived field `<field>0`: in the logic it reads the heap array of the pre-state (the executor's `old_state` while a
# postcondition is evaluated, else the initial array `H0_<class>_<field>` of the function being verified); natively it reads the
# snapshot that `snapshot()` stored on the real objects before the call.


def pre_array(ex, cname, fname, ty):
    arr = ex.old_state.heap.get((cname, fname)) if ex.old_state is not None else None
    return arr if arr is not None else z3.Const(f"H0_{cname}_{fname}", z3.ArraySort(T.RefSort, ty.sort()))


def pre_field(cname, fname, ty):
    return lambda ex, st, self: Val(ty, z3.Select(pre_array(ex, cname, fname, ty), lift(self)))


def _snap(attr):
    return lambda o: P(getattr(o, "_c17_pre", {}).get(attr, getattr(o, attr, None)))


def _walk(o, out):
    for s in getattr(o, "statements", ()) or ():
        if not any(s is x for x in out):
            out.append(s)
            _walk(s, out)
    return out


PRE_IDS = set()


def snapshot(feaFile, extra=()):
    """record the pre-state of a real feature file (call it in a Runtime `build`): statements of the file and of every block, names, texts,
    feature tags; `extra` = further nodes handed to the function (generated blocks).  Returns feaFile."""
    nodes = _walk(feaFile, []) + [x for x in extra if x is not None]
    for x in list(nodes):
        _walk(x, nodes)
    PRE_IDS.clear()
    PRE_IDS.update(id(x) for x in nodes)
    PRE_IDS.add(id(feaFile))
    for x in nodes + [feaFile]:
        pre = {}
        for a in ("statements", "name", "text"):
            if hasattr(x, a):
                v = getattr(x, a)
                pre[a] = list(v) if isinstance(v, list) else v
        x._c17_pre = pre
    feaFile._c17_pre["featureTags"] = feature_tags(feaFile)
    feaFile._c17_universe = list(nodes)
    return feaFile


# natively: a node is fresh when it was not part of the snapshot
NATIVE_FRESH_SNAPSHOT = lambda x: id(raw(x)) not in PRE_IDS  # noqa: E731
NATIVE_ALLOCATED = lambda x: True  # noqa: E731

_NODES = List(Ref(NODE))
CLASSES[NODE].derived["statements0"] = pre_field(NODE, "statements", _NODES)
CLASSES[NODE].views["statements0"] = _snap("statements")
CLASSES[FEAFILE].derived["statements0"] = pre_field(FEAFILE, "statements", _NODES)
CLASSES[FEAFILE].views["statements0"] = _snap("statements")
for _f in ("kind", "name", "text"):
    CLASSES[NODE].derived[_f + "0"] = pre_field(NODE, _f, STR)
CLASSES[NODE].views["kind0"] = lambda o: type(o).__name__
CLASSES[NODE].views["name0"] = _snap("name")
CLASSES[NODE].views["text0"] = _snap("text")


def _feature_tags0(ex, st, self):
    stm = z3.Select(pre_array(ex, FEAFILE, "statements", _NODES), lift(self))
    return Val(Set(STR), _tags_of(stm, pre_array(ex, NODE, "kind", STR), pre_array(ex, NODE, "name", STR)))


CLASSES[FEAFILE].derived["featureTags0"] = _feature_tags0
CLASSES[FEAFILE].views["featureTags0"] = lambda o: getattr(o, "_c17_pre", {}).get("featureTags", feature_tags(o))
# every node reference (frame clauses quantify over it); natively: every node of the snapshot plus what is reachable now
CLASSES[FEAFILE].derived["universe"] = lambda ex, st, self: Val(Set(Ref(NODE)), z3.K(T.RefSort, z3.BoolVal(True)))
CLASSES[FEAFILE].views["universe"] = lambda o: [P(x) for x in _walk(o, list(getattr(o, "_c17_universe", ())))]
