"""C18 — CursFeatureWriter._makeCursiveFeature: which lookups the `curs` feature gets and for which glyphs (the LTR / RTL split).

The four data getters of the base writer enter as UNCONSTRAINED values (nothing is assumed about them): the code-point map, the compiled GSUB table
and the extra substitutions are opaque objects, the ordered glyph set is an arbitrary dict of glyphs.  `util.classifyGlyphs` (ufo2ft code, under
contract work by C05: contracts/util_classify.py, not registered yet) and `util.unicodeScriptDirection` enter as NAMED functions of their
arguments (`c18_classify`, `c18_direction`): the clauses say WHICH arguments the writer passes (the seeded defect C18-1 drops `extras`).
"""
import z3

from pyvc.api import BOOL, CLASSES, CONTRACTS, INT, STR, Dict, List, Loop, Opt, Ref, Runtime, Set, Tuple, cls, contract, specfn, SPECFNS
from pyvc.core import Val, fresh
from pyvc.symex import FuncRef

from . import c17_model as M
from . import c18curs as C
from . import c18gdef as G
from .c17_model import NODE

CMAP = Dict(INT, STR)
cls("c18_GSUB", fields={}, notes="a compiled GSUB table (opaque)")
cls("c18_Extras", fields={}, notes="the compiler's extra substitutions (opaque; None without a compiler)")


@specfn(Opt(STR), opaque=True, uv=INT)
def c18_direction(uv):
    """ufo2ft.util.unicodeScriptDirection(uv): 'LTR', 'RTL' or None"""
    from ufo2ft.util import unicodeScriptDirection

    return unicodeScriptDirection(uv)


@specfn(Dict(STR, Set(STR)), opaque=True, cmap=CMAP, gsub=Opt(Ref("c18_GSUB")), extras=Opt(Ref("c18_Extras")))
def c18_classify(cmap, gsub, extras):
    """ufo2ft.util.classifyGlyphs(unicodeScriptDirection, cmap, gsub, extras): direction -> glyph names (named function of its arguments)"""
    from ufo2ft.util import classifyGlyphs, unicodeScriptDirection

    return classifyGlyphs(unicodeScriptDirection, cmap, M.raw(gsub), M.raw(extras) if extras is not None else None)


@M.shim_function("c18_direction", "util.unicodeScriptDirection(uv) is the named function c18_direction(uv) (nothing else assumed)")
def _direction(ex, st, args, kwargs, node):
    return ex.apply_spec(SPECFNS["c18_direction"], list(args), st, node)


@M.shim_function("c18_classify", "util.classifyGlyphs(unicodeScriptDirection, cmap, gsub, extras) is the named function c18_classify(cmap, gsub, extras) "
                  "(extras = None when the argument is omitted; nothing else assumed: summary of ufo2ft code until contracts/util_classify.py is registered)")
def _classify(ex, st, args, kwargs, node):
    f, cmap, gsub = args[:3]
    og = Opt(Ref("c18_GSUB"))
    gsub = Val(og, og.sort().some(gsub.term))  # (the named function takes an optional table so that a ghost can hold "none yet")
    extras = args[3] if len(args) > 3 else Val(Opt(Ref("c18_Extras")), Opt(Ref("c18_Extras")).sort().nil)
    return ex.apply_spec(SPECFNS["c18_classify"], [cmap, gsub, extras], st, node)


@specfn(Opt(Ref("c18_Extras")), opaque=True, self=Ref("c18_CW"))
def c18_extras(self):
    """what self.extraSubstitutions() returns (the compiler's extra substitutions, None without a compiler) — a NAME for that value, nothing is assumed
    about it; it lets the postcondition say that THIS value is what the writer hands to classifyGlyphs"""
    return M.raw(self).extraSubstitutions()


def _extras(ex, st, self, args, kwargs, node):
    return ex.apply_spec(SPECFNS["c18_extras"], [self], st, node)


def _fresh_of(t, tag):
    def f(ex, st, self, args, kwargs, node):
        return Val(t, fresh(t, tag))
    return f


def _mcl_glue(ex, st, self, args, kwargs, node):
    """glue, not a model: `self._makeCursiveLookup(<generator of glyphs>, ..)` — the generator is materialised as the list the callee iterates, then the
    CONTRACT of the real function is applied"""
    from pyvc import models as _models

    ex.assumptions_used.discard("c18_CW._makeCursiveLookup")
    a0 = _models.materialize(ex, args[0])
    return ex.call_contract(CONTRACTS[C.MCL + "#c18_CW"], [self, a0] + list(args[1:]), kwargs, st, node, implicit=1)


CLASSES["c18_CW"].methods.update({
    "_makeCursiveLookup": _mcl_glue,
    "makeUnicodeToGlyphNameMapping": _fresh_of(CMAP, "cmap"),
    "compileGSUB": _fresh_of(Ref("c18_GSUB"), "gsub"),
    "extraSubstitutions": _extras,
    "getOrderedGlyphSet": _fresh_of(G.GLYPHS, "glyphset"),
})

MCF = "ufo2ft.featureWriters.cursFeatureWriter:CursFeatureWriter._makeCursiveFeature"
_LOOP = "for (entryName, exitName) in cursiveAnchorsPairs"
_LK = "lookups[k]"
_IS_LOOKUP = (f"(allocated({_LK}) and {_LK}.kind == 'LookupBlock' and len({_LK}.statements) >= 2 and {_LK}.statements[0].kind == 'LookupFlagStatement'"
              f" and ({_LK}.statements[0].value == 8 or {_LK}.statements[0].value == 9))")
contract(
    MCF,
    props=["C18"],
    params={"self": Ref("c18_CW")},
    returns=Opt(Ref(NODE)),
    globals={"ast": M.fea_shim(), "isinstance": M.ISINSTANCE,
             "unicodeScriptDirection": M.native_global(Val.obj(FuncRef(_direction, "c17shim.c18_direction")), None),
             "classifyGlyphs": M.native_global(Val.obj(FuncRef(_classify, "c17shim.c18_classify")), None)},
    requires=["not self.context.isVariable"],
    calls={C.GCP: C.GCP + "#only", C.MCL: C.MCL + "#c18_CW"},
    merge_branches=False,
    locals={"lookups": List(Ref(NODE)), "dirGlyphs": Dict(STR, Set(STR)), "shouldSplit": BOOL, "LTRlookup": Opt(Ref(NODE)), "RTLlookup": Opt(Ref(NODE)), "lookup": Opt(Ref(NODE)),
            "gc": CMAP, "gg": Opt(Ref("c18_GSUB")), "gd": Dict(STR, Set(STR)), "gsplit": BOOL},
    modifies=["c17_Node.kind", "c17_Node.glyph", "c17_Node.glyphclass", "c17_Node.entryAnchor", "c17_Node.exitAnchor", "c17_Node.statements", "c17_Node.value", "c17_Node.name",
              C.NAMESET + ".elems"],
    # ghosts: the code-point map and the GSUB table the writer obtained, the classification it computed, its split decision
    ghost_vars={"gc": (CMAP, "{}"), "gg": (Opt(Ref("c18_GSUB")), "None"), "gd": (Dict(STR, Set(STR)), "{}"), "gsplit": (BOOL, "False"), "classified": (BOOL, "False")},
    ghost={"cmap = self.makeUnicodeToGlyphNameMapping()": ["gc = cmap"], "gsub = self.compileGSUB()": ["gg = gsub"],
           "shouldSplit = 'LTR' in dirGlyphs": ["gd = dirGlyphs", "gsplit = shouldSplit", "classified = True"]},
    ensures={
        # the glyphs are classified with the compiler's extra substitutions (seeded defect C18-1 drops them), only when some code point is LTR
        "classified-with-extras": "implies(classified, gd == c18_classify(gc, gg, c18_extras(self)) and gsplit == ('LTR' in gd) and any(c18_direction(uv) == 'LTR' for uv in gc))",
        "no-split-without-ltr-code-points": "implies(not classified, not gsplit)",
        # the feature: a `curs` block of lookups, each a LookupFlag (IgnoreMarks, with or without RightToLeft) followed by cursive records
        "feature": "implies(result is not None, result.kind == 'FeatureBlock' and result.name == 'curs' and len(result.statements) >= 1)",
    },
    canaries={"never-none": "result is not None", "always-split": "gsplit"},
    # (no invariant about the lookups collected so far: `_makeCursiveLookup` declares the node fields it writes per class, so facts about earlier lookups do
    # not survive the next call — what each lookup is, is `_makeCursiveLookup`'s own contract; which glyphs go into which half is observed end to end)
    loops={_LOOP: Loop(index="i", invariants={})},
)
