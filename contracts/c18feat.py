"""C18 — CursFeatureWriter._makeCursiveFeature: which lookups the `curs` feature gets and for which glyphs (the LTR / RTL split).

The four data getters of the base writer enter as UNCONSTRAINED values (nothing is assumed about them): the code-point map, the compiled GSUB table
and the extra substitutions are opaque objects, the ordered glyph set is an arbitrary dict of glyphs.  `util.classifyGlyphs` (ufo2ft code, under
contract work by C05: contracts/util_classify.py, not registered yet) and `util.unicodeScriptDirection` enter as NAMED functions of their
arguments (`c18_classify`, `c18_direction`): the clauses say WHICH arguments the writer passes (the seeded defect C18-1 drops `extras`).
"""
import z3

from pyvc.api import BOOL, CLASSES, CONTRACTS, INT, STR, Dict, List, Loop, Opt, Ref, Runtime, Set, Tuple, cls, contract, specfn, SPECFNS
from pyvc.core import Val, fresh
from pyvc.symex import FuncRef

from . import c17_model as M
from . import c18curs as C
from . import c18gdef as G
from .c17_model import NODE

CMAP = Dict(INT, STR)
cls("c18_GSUB", fields={}, notes="a compiled GSUB table (opaque)")
cls("c18_Extras", fields={}, notes="the compiler's extra substitutions (opaque; None without a compiler)")


@specfn(Opt(STR), opaque=True, uv=INT)
def c18_direction(uv):
    """ufo2ft.util.unicodeScriptDirection(uv): 'LTR', 'RTL' or None"""
    from ufo2ft.util import unicodeScriptDirection

    return unicodeScriptDirection(uv)


@specfn(Dict(STR, Set(STR)), opaque=True, cmap=CMAP, gsub=Ref("c18_GSUB"), extras=Opt(Ref("c18_Extras")))
def c18_classify(cmap, gsub, extras):
    """ufo2ft.util.classifyGlyphs(unicodeScriptDirection, cmap, gsub, extras): direction -> glyph names (named function of its arguments)"""
    from ufo2ft.util import classifyGlyphs, unicodeScriptDirection

    return classifyGlyphs(unicodeScriptDirection, cmap, M.raw(gsub), M.raw(extras) if extras is not None else None)


def _direction(ex, st, args, kwargs, node):
    return ex.apply_spec(SPECFNS["c18_direction"], list(args), st, node)


def _classify(ex, st, args, kwargs, node):
    f, cmap, gsub = args[:3]
    extras = args[3] if len(args) > 3 else Val(Opt(Ref("c18_Extras")), Opt(Ref("c18_Extras")).sort().nil)
    return ex.apply_spec(SPECFNS["c18_classify"], [cmap, gsub, extras], st, node)


def _fresh_of(t, tag):
    def f(ex, st, self, args, kwargs, node):
        return fresh(t, tag)
    return f


CLASSES["c18_CW"].methods.update({
    "makeUnicodeToGlyphNameMapping": _fresh_of(CMAP, "cmap"),
    "compileGSUB": _fresh_of(Ref("c18_GSUB"), "gsub"),
    "extraSubstitutions": _fresh_of(Opt(Ref("c18_Extras")), "extras"),
    "getOrderedGlyphSet": _fresh_of(G.GLYPHS, "glyphset"),
})

MCF = "ufo2ft.featureWriters.cursFeatureWriter:CursFeatureWriter._makeCursiveFeature"
contract(
    MCF,
    props=[],
    params={"self": Ref("c18_CW")},
    returns=Opt(Ref(NODE)),
    globals={"ast": M.fea_shim(), "isinstance": M.ISINSTANCE,
             "unicodeScriptDirection": M.native_global(Val.obj(FuncRef(_direction, "c17shim.c18_direction")), None),
             "classifyGlyphs": M.native_global(Val.obj(FuncRef(_classify, "c17shim.c18_classify")), None)},
    requires=["not self.context.isVariable"],
    ensures={"t": "True"},
    loops={"for (entryName, exitName) in cursiveAnchorsPairs": Loop(index="i", invariants={})},
)
