"""A Python `set` of str as a heap object, for contracts on functions that fill a local set with `S.update(<generator>)`.

The engine models builtin sets as VALUES and `S.update(<generator>)` by first materialising the generator as a list (`comp!N` with three
quantified facts, then `lambda x. seq.contains(comp, unit x)`); those facts stay on the path and make later obligations flip between
milliseconds and time-out with the symbol numbering (notes/C06.requests.md R13).  A contract can instead bind the global `set` to
`NAMESET_CTOR`: `set()` then creates an object of class `PySetStr` whose only field `elems` is the set value, and

    S.update(<generator>)   ==   S.elems |= {<elt> for ... in ... if ...}      (the engine's image-set comprehension: no sequence)

which is the Python semantics of set.update over an iterable.  `x in S`, iteration, truthiness and `S.add(x)` read / write `elems`.
Everything here is ASSUMED library semantics (Python's set), listed in the evidence of the contracts that use it.
"""
import ast

import z3

from pyvc.api import STR, Set, cls, trusted
from pyvc.core import Unsupported, Val, fresh_name, lift
from pyvc.symex import FuncRef

NAMESET = "PySetStr"
SET_STR = Set(STR)


def _elems(ex, st, self):
    return lift(ex.read_field(st, self, "elems"))


def _contains(ex, st, self, x):
    return z3.Select(_elems(ex, st, self), lift(x, STR))


def _truth(ex, st, self):
    return _elems(ex, st, self) != z3.K(z3.StringSort(), z3.BoolVal(False))


def _iter(ex, st, self, node):
    from pyvc.stmts import IterInfo

    return IterInfo("set", set_term=_elems(ex, st, self), elem=STR)


def _update(ex, st, self, args, kwargs, node):
    if len(args) != 1 or kwargs:
        raise Unsupported("set.update arity", node)
    (g,) = args
    cur = _elems(ex, st, self)
    if g.is_py and isinstance(g.py, tuple) and len(g.py) == 3 and g.py[0] == "genexp":
        _, gnode, gst = g.py
        comp = ast.copy_location(ast.SetComp(elt=gnode.elt, generators=gnode.generators), gnode)
        ast.fix_missing_locations(comp)
        add = ex.eval(comp, gst)  # the image set {elt | passing members / positions of the source}
        # two theorems about the source LIST that the solvers do not find by themselves (the engine's comprehension ranges over the members
        # of the list, clauses talk about positions): every position holds a member, every member sits at some position
        src = ex.eval(gnode.generators[0].iter, gst)
        if not src.is_py and src.ty.name().startswith("List["):
            L = lift(src)
            key = ("c06sets-positions", L.get_id())
            if key not in st.ghost:
                st.ghost[key] = L
                i = z3.Int(fresh_name("mi"))
                x = z3.Const(fresh_name("px"), src.ty.elem.sort())
                pos = z3.Function(fresh_name("seqpos"), src.ty.elem.sort(), z3.IntSort())
                st.assume(z3.ForAll([i], z3.Implies(z3.And(0 <= i, i < z3.Length(L)), z3.Contains(L, z3.Unit(L[i])))))
                st.assume(z3.ForAll([x], z3.Implies(z3.Contains(L, z3.Unit(x)), z3.And(0 <= pos(x), pos(x) < z3.Length(L), L[pos(x)] == x))))
    elif isinstance(g.ty, type(SET_STR)):
        add = g
    else:
        raise Unsupported(f"PySetStr.update({g.ty})", node)
    a = lift(add, SET_STR)
    if z3.is_quantifier(a) and a.is_lambda():
        # the union as a NEW set constant defined pointwise (x in S' <=> x in S or x in the image); the same set as `S | image`, written
        # without an array lambda (z3 5.1 does not get through `select(union(S, lambda ...), x)` reliably, the older z3 does)
        x = z3.Const(fresh_name("ux"), z3.StringSort())
        new = z3.Const(fresh_name("elems"), SET_STR.sort())
        member = z3.substitute_vars(a.body(), x)
        st.assume(z3.ForAll([x], z3.Select(new, x) == z3.Or(z3.Select(cur, x), member)))
    else:
        new = z3.SetUnion(cur, a)
    ex.write_field(st, self, "elems", Val(SET_STR, new), node)
    return Val.const(None)


_update.modifies = [NAMESET + ".elems"]


def _add(ex, st, self, args, kwargs, node):
    (x,) = args
    ex.write_field(st, self, "elems", Val(SET_STR, z3.Store(_elems(ex, st, self), lift(x, STR), z3.BoolVal(True))), node)
    return Val.const(None)


_add.modifies = [NAMESET + ".elems"]

cls(NAMESET, fields={"elems": SET_STR}, contains=_contains, truth=_truth, iter=_iter, methods={"update": _update, "add": _add},
    notes="a Python set of str as a heap object: `in`, iteration, truthiness, add, update(<generator>) == union with the image set (python set semantics)")


@trusted("c06sets.set", "set() is a new empty set (as a PySetStr object)")
def _ctor(ex, st, args, kwargs, node):
    if args or kwargs:
        raise Unsupported("set(<iterable>) under the PySetStr binding", node)
    o = ex.new_object(st, NAMESET)
    ex.write_field(st, o, "elems", Val(SET_STR, z3.K(z3.StringSort(), z3.BoolVal(False))), node)
    return o


class _NativeSet(Val):
    """the contract-local global `set`: a model in the logic, the builtin for the run-time interpreter"""

    __slots__ = ()

    def __call__(self, *a, **k):
        return set(*a, **k)


_v = Val.obj(FuncRef(None, "c06sets.set"))
NAMESET_CTOR = _NativeSet(_v.ty, _v.term, _v.py, _v.is_py, _v.meta)
