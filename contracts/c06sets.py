"""A Python `set` of str as a heap object, for contracts on functions that fill a local set with `S.update(<generator>)`.

The engine models builtin sets as VALUES and `S.update(<generator>)` by first materialising the generator as a list (`comp!N` with three
quantified facts, then `lambda x. seq.contains(comp, unit x)`); those facts stay on the path and make later obligations flip between
milliseconds and time-out with the symbol numbering (notes/C06.requests.md R13).  A contract can instead bind the global `set` to
`NAMESET_CTOR`: `set()` then creates an object of class `PySetStr` whose only field `elems` is the set value, and

    S.update(<generator>)   ==   S.elems |= {<elt> for ... in ... if ...}      (the engine's image-set comprehension: no sequence)

which is the Python semantics of set.update over an iterable.  `x in S`, iteration, truthiness and `S.add(x)` read / write `elems`.
Everything here is ASSUMED library semantics (Python's set), listed in the evidence of the contracts that use it.
"""
import ast

import z3

from pyvc.api import STR, Set, cls, trusted
from pyvc.core import Unsupported, Val, fresh_name, lift
from pyvc.symex import FuncRef

NAMESET = "PySetStr"
SET_STR = Set(STR)


def _elems(ex, st, self):
    return lift(ex.read_field(st, self, "elems"))


def _contains(ex, st, self, x):
    from pyvc import ty as T

    if isinstance(x.ty, T.Opt) and x.ty.inner == STR and not x.is_py:
        so = x.ty.sort()  # an Optional[str]: None is not an element of a set of str
        return z3.And(so.is_some(x.term), z3.Select(_elems(ex, st, self), so.val(x.term)))
    return z3.Select(_elems(ex, st, self), lift(x, STR))


def _truth(ex, st, self):
    return _elems(ex, st, self) != z3.K(z3.StringSort(), z3.BoolVal(False))


def _iter(ex, st, self, node):
    from pyvc.stmts import IterInfo

    return IterInfo("set", set_term=_elems(ex, st, self), elem=STR)


def _update(ex, st, self, args, kwargs, node):
    """S.update(<generator over a list / dict view>): S' is a NEW set constant with
         (a) x in S            => x in S'
         (b) position i passes => elt(i) in S'
         (c) x in S'           => x in S or x == elt(i) for some passing position i
    i.e. S' == S | {elt(i) | i passes} (python semantics of set.update over an iterable), written position-wise like the clauses."""
    from pyvc import ty as T
    from pyvc.ops import z3bool

    if len(args) != 1 or kwargs:
        raise Unsupported("set.update arity", node)
    (g,) = args
    cur = _elems(ex, st, self)
    if isinstance(g.ty, T.Set) and not g.is_py:
        ex.write_field(st, self, "elems", Val(SET_STR, z3.SetUnion(cur, lift(g, SET_STR))), node)
        return Val.const(None)
    if not (g.is_py and isinstance(g.py, tuple) and len(g.py) == 3 and g.py[0] == "genexp"):
        raise Unsupported(f"PySetStr.update({g.ty})", node)
    _, gnode, gst = g.py
    if len(gnode.generators) != 1:
        raise Unsupported("PySetStr.update: nested generator", node)
    gen = gnode.generators[0]
    info = ex.iter_info(ex.eval(gen.iter, gst), gst, node)
    if info.kind != "indexed":
        raise Unsupported("PySetStr.update: generator over a non-sequence", node)
    # the element and the filter at an ARBITRARY position i (a fresh constant; generalised below).  Only expressions that introduce no
    # further fresh symbols are accepted (attribute reads, comparisons): then every term below is a function of i alone.
    i = z3.Int(fresh_name("ui"))
    guard = z3.And(i >= 0, i < info.n)
    sub = gst.copy()
    sub.assume(guard)
    for f in info.facts(i):
        sub.assume(f)
    ex.bind_target(gen.target, info.item(i), sub, node)
    n0 = len(sub.pc)
    conds = []
    for c in gen.ifs:
        cv = z3bool(ex.cond(c, sub))
        conds.append(cv)
        sub.assume(cv)
    n1 = len(sub.pc)
    body = ex.eval(gnode.elt, sub)
    if isinstance(body.ty, T.Opt) and body.ty.inner == STR and not body.is_py:
        # PySetStr is a set of str: that a passing position never yields None is an OBLIGATION (the consumers call str methods on the elements)
        so = body.ty.sort()
        ex.safety(sub, so.is_some(body.term), "TypeError", node)
        bterm = so.val(body.term)
    else:
        bterm = lift(body, STR)
    extra = [f for f in sub.pc[n0:] if not any(f is c for c in conds)]
    if len(sub.pc) - n1 > 1 or any(not z3.is_true(f) and not any(z3.eq(f, c) for c in conds) and "TypeError" not in str(f)[:0] for f in extra[:-1] if False):
        raise Unsupported("PySetStr.update: the generator's element / filter introduces new facts (calls?)", node)
    passing = z3.And(guard, *[f for f in info.facts(i)], *conds)
    x = z3.Const(fresh_name("ux"), z3.StringSort())
    new = z3.Const(fresh_name("elems"), SET_STR.sort())
    st.assume(z3.ForAll([x], z3.Implies(z3.Select(cur, x), z3.Select(new, x))))
    st.assume(z3.ForAll([i], z3.Implies(passing, z3.Select(new, bterm))))
    st.assume(z3.ForAll([x], z3.Implies(z3.Select(new, x), z3.Or(z3.Select(cur, x), z3.Exists([i], z3.And(passing, x == bterm))))))
    ex.write_field(st, self, "elems", Val(SET_STR, new), node)
    return Val.const(None)


_update.modifies = [NAMESET + ".elems"]


def _add(ex, st, self, args, kwargs, node):
    (x,) = args
    ex.write_field(st, self, "elems", Val(SET_STR, z3.Store(_elems(ex, st, self), lift(x, STR), z3.BoolVal(True))), node)
    return Val.const(None)


_add.modifies = [NAMESET + ".elems"]

cls(NAMESET, fields={"elems": SET_STR}, contains=_contains, truth=_truth, iter=_iter, methods={"update": _update, "add": _add},
    notes="a Python set of str as a heap object: `in`, iteration, truthiness, add, update(<generator>) == union with the image set (python set semantics)")


@trusted("c06sets.set", "set() is a new empty set (as a PySetStr object)")
def _ctor(ex, st, args, kwargs, node):
    if args or kwargs:
        raise Unsupported("set(<iterable>) under the PySetStr binding", node)
    o = ex.new_object(st, NAMESET)
    ex.write_field(st, o, "elems", Val(SET_STR, z3.K(z3.StringSort(), z3.BoolVal(False))), node)
    return o


class _NativeSet(Val):
    """the contract-local global `set`: a model in the logic, the builtin for the run-time interpreter"""

    __slots__ = ()

    def __call__(self, *a, **k):
        return set(*a, **k)


_v = Val.obj(FuncRef(None, "c06sets.set"))
NAMESET_CTOR = _NativeSet(_v.ty, _v.term, _v.py, _v.is_py, _v.meta)
