"""C02 — TrueType outlines render the source shape; composites stay valid.

Under contract: the TTF pre-processor's default filter list (decision table), the cu2qu error scaling, the options the
glyf compiler hands to fontTools' TTGlyphPointPen and its cubic-in-glyf-v0 guard, and the transform composition of the
component flattener (+ the algebraic lemma that ties the composed 6-tuple to rendering).  cu2qu, the pens, glyf packing
and maxp.recalc are fontTools: trusted, validated by the bounded observers in vcheck/hooks/c02.py.
"""
import z3
from fontTools.misc.fixedTools import otRound  # noqa: F401

from pyvc import ty as T
from pyvc.api import BOOL, CLASSES, CONTRACTS, INT, REAL, STR, Const, Dict, List, Loop, Opt, Ref, Runtime, Set, Tuple, cls, contract, lemma, specfn, trusted
from pyvc.core import PYOBJ, Unsupported, Val, fresh, fresh_name, lift
from pyvc.stmts import IterInfo
from pyvc.symex import FuncRef

from . import rtlib
from .c01 import _no_base_kw, filter_class_refs

# =====================================================================================================
# TTFPreProcessor.initDefaultFilters — decision table over
#   (colour layers present, flattenComponents, removeOverlaps/backend, convertCubics, reverseDirection)
# one contract variant per row; conversionError / allQuadratic / rememberCurveType / self.inplace stay symbolic.

_LEN_LAMBDA = "(lambda g: len(g))"


def _ttf_variant(explode, flatten, overlaps, backend, convert, reverse):
    ens = {}
    n = 0
    if explode:
        ens["explode-first"] = "isinstance(result[0], ExplodeColorLayerGlyphsFilter)"
        n = 1
    # first default filter: decompose MIXED glyphs only (include = glyph has contours) ...
    ens["decompose-mixed"] = (f"isinstance(result[{n}], DecomposeComponentsFilter) and result[{n}].given_include and result[{n}].include == {_LEN_LAMBDA}"
                              f" and not result[{n}].given_exclude and not result[{n}].given_pre")
    dpos = n
    n += 1
    if flatten:
        # ... flattening present iff requested ...
        ens["flatten-iff-requested"] = f"isinstance(result[{n}], FlattenComponentsFilter) and {_no_base_kw(f'result[{n}]')}"
        n += 1
    if overlaps:
        ens["overlaps"] = f"isinstance(result[{n}], RemoveOverlapsFilter) and {_no_base_kw(f'result[{n}]')}" + (
            f" and result[{n}].given_backend and result[{n}].backend == overlapsBackend" if backend else f" and not result[{n}].given_backend")
        n += 1
    if convert:
        # ... then exactly one of: cubic->quadratic conversion (which also reverses iff reverseDirection) ...
        ens["cu2qu"] = (f"isinstance(result[{n}], CubicToQuadraticFilter) and {_no_base_kw(f'result[{n}]')}"
                        f" and result[{n}].given_conversionError and result[{n}].conversionError == conversionError"
                        f" and result[{n}].given_reverseDirection and result[{n}].reverseDirection == {reverse}"
                        f" and result[{n}].given_rememberCurveType and result[{n}].rememberCurveType == (rememberCurveType and self.inplace)"
                        f" and result[{n}].given_allQuadratic and result[{n}].allQuadratic == allQuadratic")
        n += 1
    elif reverse:
        # ... or a plain direction reversal of every glyph with contours ...
        ens["reverse-only"] = (f"isinstance(result[{n}], ReverseContourDirectionFilter) and result[{n}].given_include and result[{n}].include == {_LEN_LAMBDA}"
                               f" and not result[{n}].given_exclude and not result[{n}].given_pre")
        n += 1
    # ... or nothing
    ens["length"] = f"len(result) == {n}"
    ens["one-decompose-no-stray-direction-filter"] = " and ".join(
        [f"not isinstance(result[{k}], DecomposeComponentsFilter)" for k in range(n) if k != dpos]
        + [f"not isinstance(result[{k}], CubicToQuadraticFilter) and not isinstance(result[{k}], ReverseContourDirectionFilter)" for k in range(n - (1 if convert or reverse else 0))]
        + [f"not isinstance(result[{k}], FlattenComponentsFilter)" for k in range(n) if not flatten]
    ) or "True"
    g = filter_class_refs()
    g["_init_explode_color_layer_glyphs_filter"] = Val.obj(FuncRef(None, f"c01.explode_summary.{explode}"))
    contract(
        "ufo2ft.preProcessor:TTFPreProcessor.initDefaultFilters",
        name=f"explode={int(explode)},flatten={int(flatten)},overlaps={int(overlaps)}{'+backend' if backend else ''},convertCubics={int(convert)},reverseDirection={int(reverse)}",
        props=["C02"],
        params={
            "self": Ref("C01_PreProcessor"), "removeOverlaps": Const(overlaps), "overlapsBackend": STR if backend else Const(None),
            "flattenComponents": Const(flatten), "convertCubics": Const(convert), "conversionError": Opt(REAL), "allQuadratic": BOOL,
            "reverseDirection": Const(reverse), "rememberCurveType": BOOL,
        },
        globals=g,
        ensures=ens,
        canaries={"empty": "len(result) == 0"},
    )


for _e in (False, True):
    for _f in (False, True):
        for _o, _b in ((False, False), (True, False), (True, True)):
            for _c in (False, True):
                for _r in (False, True):
                    _ttf_variant(_e, _f, _o, _b, _c, _r)

# =====================================================================================================
# CubicToQuadraticFilter.set_context: absoluteError == (conversionError or 0.001) * unitsPerEm

cls("C02_Info", notes="font.info (read through getAttrWithFallback only)")
cls("C02_Font", fields={"info": Ref("C02_Info")}, views={}, notes="source font")
cls("C02_Cu2QuOptions", fields={"conversionError": Opt(REAL), "reverseDirection": BOOL, "allQuadratic": BOOL, "rememberCurveType": BOOL}, notes="CubicToQuadraticFilter.options")
cls("C02_Ctx", fields={"absoluteError": REAL, "font": Ref("C02_Font")}, dynamic=True, notes="filter context namespace")
cls("C02_Cu2QuFilter", fields={"options": Ref("C02_Cu2QuOptions"), "context": Ref("C02_Ctx")}, notes="CubicToQuadraticFilter instance")


@specfn(REAL, opaque=True, info=Ref("C02_Info"))
def upm_of(info):
    """getAttrWithFallback(info, 'unitsPerEm') — uninterpreted in the logic (same symbol as the code's call)"""
    from ufo2ft.fontInfoData import getAttrWithFallback

    return getAttrWithFallback(info, "unitsPerEm")


@trusted("c02.getAttrWithFallback.unitsPerEm", "getAttrWithFallback(info, 'unitsPerEm') is a function of info (number) [summary; the function is verified under C16]")
def _gawf_upm(ex, st, args, kwargs, node):
    info, attr = args
    if not (attr.is_py and attr.py == "unitsPerEm"):
        raise Unsupported("getAttrWithFallback summary: only unitsPerEm", node)
    f = z3.Function("spec_upm_of", T.RefSort, z3.RealSort())
    return Val(REAL, f(lift(info)))


def _base_set_context(ex, st, self, args, kwargs, node):
    """BaseFilter.set_context(font, glyphSet): self.context = fresh namespace(font=font, glyphSet=glyphSet, modified=set()); returns it"""
    me = st.env["self"]
    ctx = ex.new_object(st, "C02_Ctx")
    ex.write_field(st, ctx, "font", args[0], node)
    ex.write_field(st, me, "context", ctx, node)
    return ctx


cls("C02_SuperFilter", methods={"set_context": _base_set_context},
    notes="super() inside a filter's set_context: BaseFilter.set_context summarised as 'creates the context namespace, stores it in self.context, "
          "returns it' (C14 owns that function; its 8 lines are read by the hook obligation C02.frame.base-set-context)")


@trusted("c02.super_filter", "summary of BaseFilter.set_context (fresh namespace stored in self.context and returned); checked syntactically by hook obligation C02.frame.base-set-context")
def _super_filter(ex, st, args, kwargs, node):
    return ex.new_object(st, "C02_SuperFilter")


contract(
    "ufo2ft.filters.cubicToQuadratic:CubicToQuadraticFilter.set_context",
    props=["C02"],
    params={"self": Ref("C02_Cu2QuFilter"), "font": Ref("C02_Font"), "glyphSet": Ref("C01_GlyphSet")},
    returns=Ref("C02_Ctx"),
    globals={"super": Val.obj(FuncRef(None, "c02.super_filter")), "getAttrWithFallback": Val.obj(FuncRef(None, "c02.getAttrWithFallback.unitsPerEm"))},
    modifies=["C02_Cu2QuFilter.context", "C02_Ctx.absoluteError", "C02_Ctx.font"],
    ensures={
        # the error is RELATIVE to the em: default 1/1000 em
        "absolute-error": "result.absoluteError == (self.options.conversionError if (self.options.conversionError is not None and self.options.conversionError != 0) else 0.001) * upm_of(font.info)",
        "default": "implies(self.options.conversionError is None, result.absoluteError == upm_of(font.info) / 1000)",
        "is-context": "result == self.context",
    },
    canaries={"absolute-is-relative": "result.absoluteError == 0.001"},
)


def _ctx_cases(rng, n):
    out = []
    for k in range(n):
        out.append({"err": [None, 0.001, 0.002, 0.0005, 0, 0.01][k % 6], "upm": [1000, 2048, 16, 250][k % 4], "ufolib": ["ufoLib2", "defcon"][k % 2]})
    return out


def _ctx_build(d):
    from ufo2ft.filters.cubicToQuadratic import CubicToQuadraticFilter
    from ufo2ft.util import _GlyphSet

    f = rtlib.build_ufo({"glyphs": {"a": {"width": 500, "box": [0, 0, 100, 100]}}, "info": {"unitsPerEm": d["upm"]}}, d["ufolib"])
    flt = CubicToQuadraticFilter(conversionError=d["err"]) if d["err"] is not None else CubicToQuadraticFilter()
    return {"self": flt, "font": f, "glyphSet": _GlyphSet.from_layer(f)}


CONTRACTS["ufo2ft.filters.cubicToQuadratic:CubicToQuadraticFilter.set_context"].runtime = Runtime(_ctx_cases, _ctx_build)

# =====================================================================================================
# OutlineTTFCompiler.compileGlyphs: rounding function and the cubic-curves-in-glyf-format-0 guard
#
# Abstractions (stated, TRUSTED): what fontTools' TTGlyphPointPen produces for a source glyph is a function of that glyph —
#   glyph.tt_invalid   : drawing raises NotImplementedError (unsupported curve structure)
#   glyph.tt_contours  : numberOfContours of the produced glyf record
#   glyph.tt_flags     : its flag bytes; each flag byte is modelled as the SET of its bit masks, `f & flagCubic` as the
#                        intersection with {0x80} (faithful for a single-bit mask).
# Function values are tags: otRound = 1, noRound = 0 (the engine cannot merge python-level function values in `a if c else b`).

_FLAG = Set(INT)


def _tt_fn(name, ret):
    return z3.Function("c02_" + name, T.RefSort, ret.sort())


def _derived(name, ret):
    return lambda ex, st, self: Val(ret, _tt_fn(name, ret)(lift(self)))


def _tt_views():
    def record(g):
        from fontTools.pens.ttGlyphPen import TTGlyphPointPen

        pen = TTGlyphPointPen(None)
        try:
            g.drawPoints(pen)
        except NotImplementedError:
            return None
        return pen.glyph(round=lambda v: v)

    def flags(g):
        r = record(g)
        if r is None or r.numberOfContours <= 0:
            return []
        return [{b for b in (1, 2, 4, 8, 16, 32, 64, 128) if f & b} for f in r.flags]

    return {"tt_invalid": lambda g: record(g) is None, "tt_contours": lambda g: (lambda r: 0 if r is None else r.numberOfContours)(record(g)), "tt_flags": flags}


cls("C02_SrcGlyph", fields={"name": STR},
    derived={"tt_invalid": _derived("tt_invalid", BOOL), "tt_contours": _derived("tt_contours", INT), "tt_flags": _derived("tt_flags", List(_FLAG))},
    views=_tt_views(), notes="source glyph as the glyf compiler sees it (see the abstraction note above)")
cls("TTGlyphPointPen", fields={"glyphSet": Dict(STR, Ref("C02_SrcGlyph")), "drawn": Ref("C02_SrcGlyph")}, dynamic=True,
    notes="fontTools TTGlyphPointPen(glyphSet): constructor argument recorded; drawn = glyph drawn into it (ghost)")
cls("C02_TTGlyph", fields={"src": Ref("C02_SrcGlyph"), "empty": BOOL, "round": INT, "dropImpliedOnCurves": BOOL, "penGlyphSet": Dict(STR, Ref("C02_SrcGlyph")),
                           "numberOfContours": INT, "flags": List(_FLAG)},
    notes="glyf record returned by pen.glyph(...): remembers the source glyph, the pen's glyph set and the options it was built with (ghost)")


def _ttpen_init(ex, st, self, args, kwargs, node):
    ex.write_field(st, self, "glyphSet", args[0], node)


def _src_drawPoints(ex, st, self, args, kwargs, node):
    ex.safety(st, z3.Not(_tt_fn("tt_invalid", BOOL)(lift(self))), "NotImplementedError", node)
    ex.write_field(st, args[0], "drawn", self, node)
    return Val.const(None)


_src_drawPoints.modifies = ["TTGlyphPointPen.drawn"]


def new_value_object(ex, st, cname, **fields):
    """A fresh object of an IMMUTABLE class: its fields are never stored to, so instead of heap writes the constructor's
    values are ASSUMED for the fresh reference (initial heap arrays are unconstrained at unallocated references).  This keeps
    value objects (glyf records, Transform tuples) out of the loop havoc and immune to the aliasing of unallocated list elements."""
    r = ex.new_object(st, cname)
    cs = CLASSES[cname]
    known = {}
    for n, v in fields.items():
        arr = ex.field_array(st, cname, n)
        t = lift(v, cs.fields[n])
        st.assume(z3.Select(arr, lift(r)) == t)
        known[n] = Val(cs.fields[n], t)
    # every state that can mention this fresh constant descends from `st` and carries the equations above, so a reader may use
    # the value itself instead of Select(arr, r): the substitution is done here, not left to the (non-linear) arithmetic solver
    _VALUE_OBJECTS[lift(r).get_id()] = (lift(r), cname, known)
    return r


_VALUE_OBJECTS: dict = {}


def value_fields(v, cname):
    """the constructor values of a fresh value object (None if `v` is not syntactically one)"""
    if getattr(v, "term", None) is None:
        return None
    hit = _VALUE_OBJECTS.get(v.term.get_id())
    return hit[2] if hit is not None and hit[1] == cname and hit[0].eq(v.term) else None


def _round_tag(v, node):
    """the `round=` argument of pen.glyph: fontTools' otRound -> 1, noRound -> 0 (the glyf record remembers WHICH function it was built with)"""
    from fontTools.misc import roundTools

    f = getattr(v.py, "obj", None) if v.is_py else None
    if f is roundTools.otRound:
        return Val.const(1)
    if f is roundTools.noRound:
        return Val.const(0)
    raise Unsupported("pen.glyph(round=...) with a function other than fontTools' otRound / noRound", node)


def _ttpen_glyph(ex, st, self, args, kwargs, node):
    src = ex.read_field(st, self, "drawn")
    return new_value_object(
        ex, st, "C02_TTGlyph", src=src, empty=Val.const(False), round=_round_tag(kwargs["round"], node), dropImpliedOnCurves=kwargs.get("dropImpliedOnCurves", Val.const(False)),
        penGlyphSet=ex.read_field(st, self, "glyphSet"), numberOfContours=Val(INT, _tt_fn("tt_contours", INT)(lift(src))),
        flags=Val(List(_FLAG), _tt_fn("tt_flags", List(_FLAG))(lift(src))))


CLASSES["TTGlyphPointPen"].methods.update({"__init__": _ttpen_init, "glyph": _ttpen_glyph})
CLASSES["C02_SrcGlyph"].methods["drawPoints"] = _src_drawPoints


@trusted("c02.empty_glyph", "fontTools.ttLib.tables._g_l_y_f.Glyph(): an empty glyf record")
def _empty_glyph(ex, st, args, kwargs, node):
    return new_value_object(ex, st, "C02_TTGlyph", empty=Val.const(True))


cls("C02_TTCompiler", fields={"allGlyphs": Dict(STR, Ref("C02_SrcGlyph")), "glyphOrder": List(STR), "roundCoordinates": BOOL, "glyphDataFormat": INT, "dropImpliedOnCurves": BOOL},
    repo="ufo2ft.outlineCompiler:OutlineTTFCompiler", notes="OutlineTTFCompiler instance")

_G = "self.allGlyphs[self.glyphOrder[a]]"
_CUBIC = "(not {g}.tt_invalid and {g}.tt_contours > 0 and any(128 in f for f in {g}.tt_flags))"
_RAISES = "self.glyphDataFormat == 0 and any(" + _CUBIC.format(g=_G) + " for a in range(len(self.glyphOrder)))"
_TTC_COMMON = dict(
    params={"self": Ref("C02_TTCompiler")},
    globals={"flagCubic": Val.const({128}), "Glyph": Val.obj(FuncRef(None, "c02.empty_glyph"))},
    requires=["all(n in self.allGlyphs for n in self.glyphOrder)"],
    # rejected exactly when the glyf format cannot hold cubic curves and ANY point of ANY drawable glyph is flagged cubic
    raises={"ValueError": _RAISES},
    locals={"ttGlyphs": Dict(STR, Ref("C02_TTGlyph"))},
    # frame: only the pens created inside the loop are written (declared class-wide: the allocation inside the loop body is not visible
    # to the frame check after the loop cut; callers merely forget more)
    modifies=["TTGlyphPointPen.glyphSet", "TTGlyphPointPen.drawn"],
)
_TTC_INV = {
    # (`round` is assigned once before the loop and never inside it, so its value needs no invariant)
    "no-cubic-so-far": "implies(self.glyphDataFormat == 0, all(not " + _CUBIC.format(g=_G) + " for a in range(i)))",
}

contract(
    "ufo2ft.outlineCompiler:OutlineTTFCompiler.compileGlyphs",
    props=["C02"],
    returns=Dict(STR, Ref("C02_TTGlyph")),
    ensures={
        # every glyph of the order is compiled from ITS source glyph, with a pen over the compiler's glyph set,
        # coordinates rounded by otRound iff roundCoordinates, implied on-curve points dropped iff configured
        "every-glyph": "all(n in result for n in self.glyphOrder)",
        "from-source": "all(implies(not self.allGlyphs[n].tt_invalid, not result[n].empty and result[n].src == self.allGlyphs[n] and result[n].penGlyphSet == self.allGlyphs"
        " and result[n].round == (1 if self.roundCoordinates else 0) and result[n].dropImpliedOnCurves == self.dropImpliedOnCurves) for n in self.glyphOrder)",
        "invalid-curves-skipped": "all(implies(self.allGlyphs[n].tt_invalid, result[n].empty) for n in self.glyphOrder)",
    },
    canaries={"never-rounds": "all(result[n].round == 0 for n in self.glyphOrder) and len(self.glyphOrder) > 0"},
    loops={
        "for name in self.glyphOrder": Loop(
            index="i",
            invariants={
                **_TTC_INV,
                "done": "all(self.glyphOrder[a] in ttGlyphs for a in range(i))",
                "from-source": "all(implies(not " + _G + ".tt_invalid, not ttGlyphs[self.glyphOrder[a]].empty and ttGlyphs[self.glyphOrder[a]].src == " + _G
                + " and ttGlyphs[self.glyphOrder[a]].penGlyphSet == self.allGlyphs and ttGlyphs[self.glyphOrder[a]].round == (1 if self.roundCoordinates else 0)"
                " and ttGlyphs[self.glyphOrder[a]].dropImpliedOnCurves == self.dropImpliedOnCurves) for a in range(i))",
                "invalid": "all(implies(" + _G + ".tt_invalid, ttGlyphs[self.glyphOrder[a]].empty) for a in range(i))",
            },
        )
    },
    **_TTC_COMMON,
)

# the same function once more, restricted to what is observable on REAL objects (cross-checked at run time):
# the guard (raises iff ...) and "one record per glyph"
contract(
    "ufo2ft.outlineCompiler:OutlineTTFCompiler.compileGlyphs",
    name="guard",
    props=["C02"],
    returns=Dict(STR, Ref("C02_TTGlyph")),
    ensures={"every-glyph": "all(n in result for n in self.glyphOrder)"},
    canaries={"never-any": "len(result) == 0"},
    loops={"for name in self.glyphOrder": Loop(index="i", invariants={**_TTC_INV, "done": "all(self.glyphOrder[a] in ttGlyphs for a in range(i))"})},
    **_TTC_COMMON,
)


def _proxy_glyphs(o):
    from pyvc.rt import Proxy

    return {n: Proxy(g, CLASSES["C02_SrcGlyph"]) for n, g in o.allGlyphs.items()}


CLASSES["C02_TTCompiler"].views["allGlyphs"] = _proxy_glyphs


def _ttc_cases(rng, n):
    out = []
    for k in range(n):
        glyphs = {}
        for nm in ["a", "b", "c", "d"][: rng.randint(1, 4)]:
            r = rng.random()
            if r < 0.25:
                glyphs[nm] = {"width": 500}
            elif r < 0.5:
                glyphs[nm] = {"width": 500, "box": [0, 0, 100, 100]}
            else:
                # closed contour with 1..3 cubic segments among lines; the cubic is NOT always the first segment
                pts = []
                nseg = rng.randint(2, 4)
                cubic_at = set(rng.sample(range(nseg), rng.randint(1, min(2, nseg)))) if rng.random() < 0.7 else set()
                x = 0
                for s_ in range(nseg):
                    if s_ in cubic_at:
                        pts += [[x + 10, 50, None], [x + 20, 80, None], [x + 30, 10 * s_, "curve"]]
                    else:
                        pts += [[x + 30, 100 + 10 * s_, "line"]]
                    x += 40
                pts += [[0, -50, "line"]]
                glyphs[nm] = {"width": 600, "contours": [pts]}
        if len(glyphs) > 1 and rng.random() < 0.3:
            names = sorted(glyphs)
            glyphs[names[-1]] = {"width": 500, "components": [[names[0], [1, 0, 0, 1, 10, 0]]]}
        out.append({"glyphs": glyphs, "fmt": k % 2, "round": bool((k // 2) % 2), "ufolib": ["ufoLib2", "defcon"][(k // 4) % 2]})
    return out


def _ttc_build(d):
    from ufo2ft.outlineCompiler import OutlineTTFCompiler

    f = rtlib.build_ufo(d, d["ufolib"])
    return {"self": OutlineTTFCompiler(f, glyphDataFormat=d["fmt"], roundCoordinates=d["round"])}


CONTRACTS["ufo2ft.outlineCompiler:OutlineTTFCompiler.compileGlyphs#guard"].runtime = Runtime(_ttc_cases, _ttc_build, call=lambda fn, a: fn(a["self"]))

# =====================================================================================================
# Affine maps.  fontTools.misc.transform.Transform is an immutable 6-tuple (xx, xy, yx, yy, dx, dy) acting as
#   (x, y) -> (xx*x + yx*y + dx, xy*x + yy*y + dy).
# TRUSTED MODEL (formulas copied from fontTools 4.55 transform.py; bounded conformance in the C15 hook):
#   self.transform(other) = "other first, then self", translate(x, y) = self.transform((1,0,0,1,x,y)),
#   scale(x, y) = self.transform((x,0,0,y,0,0)), transformPoint, transformVector, inverse.

_T6 = ("xx", "xy", "yx", "yy", "dx", "dy")
cls("Transform", fields={k: REAL for k in _T6},
    derived={"canon": lambda ex, st, self: Val(Ref("Transform"), _TFM(*[z3.Select(ex.field_array(st, "Transform", k), lift(self)) for k in _T6]))},
    views={"canon": lambda o: o},  # natively every Transform is a value
    notes="fontTools Transform: immutable value object; `t.canon` = THE value with t's six numbers (`t.canon == t` says t is such a value, "
          "so that `==` on it is the NamedTuple's value equality — see mk_transform)")


def _six(ex, st, v, node=None):
    """six REAL Vals from a Transform reference, a python tuple of Vals/constants, or a Tuple-typed value"""
    if isinstance(v.ty, T.Ref):
        known = value_fields(v, "Transform")
        if known is not None and all(k in known for k in _T6):
            return [known[k] for k in _T6]
        # direct array reads (ex.read_field stringifies the receiver term for its python-level field table: very slow on ite-terms)
        return [Val(REAL, z3.Select(ex.field_array(st, "Transform", k), lift(v))) for k in _T6]
    if v.is_py and isinstance(v.py, (tuple, list)) and len(v.py) == 6:
        return [x if isinstance(x, Val) else Val.const(x) for x in v.py]
    if isinstance(v.ty, T.Tuple) and len(v.ty.items) == 6:
        s = v.ty.sort()
        return [Val(it, s.accessor(0, i)(lift(v))) for i, it in enumerate(v.ty.items)]
    raise Unsupported("Transform argument is not a 6-sequence", node)


def _r(v):
    return lift(v, REAL)


_TFM = z3.Function("c02_tfm", *([z3.RealSort()] * 6), T.RefSort)


def mk_transform(ex, st, six):
    """A Transform VALUE: the reference is a function of the six numbers (`c02_tfm`), so two transforms with the same numbers are the same
    reference and — because the six fields of `c02_tfm(a..f)` are assumed to be a..f — different numbers give different references:
    reference equality IS the NamedTuple's value equality.  (The field arrays of the immutable class are never stored to.)"""
    terms = [z3.simplify(_r(x)) for x in six]
    r = _TFM(*terms)
    known = {}
    for k, t in zip(_T6, terms):
        st.assume(z3.Select(ex.field_array(st, "Transform", k), r) == t)
        known[k] = Val(REAL, t)
    # (a consequence of the six equations by congruence, spelled out: r is THE value with its own six numbers — `r.canon == r`)
    st.assume(_TFM(*[z3.Select(ex.field_array(st, "Transform", k), r) for k in _T6]) == r)
    _VALUE_OBJECTS[r.get_id()] = (r, "Transform", known)
    return Val(Ref("Transform"), r)


@trusted("c02.Transform", "fontTools.misc.transform.Transform(xx, xy, yx, yy, dx, dy): the transform VALUE with these six numbers (see mk_transform)")
def _transform_ctor(ex, st, args, kwargs, node):
    if len(args) != 6 or kwargs:
        raise Unsupported("Transform(...) needs six positional values", node)
    return mk_transform(ex, st, args)


TRANSFORM_VALUE_CTOR = {"Transform": Val.obj(FuncRef(None, "c02.Transform"))}


def _t_init(ex, st, self, args, kwargs, node):
    if len(args) != 6 or kwargs:
        raise Unsupported("Transform(...) needs six positional values", node)
    for k, x in zip(_T6, args):
        st.assume(z3.Select(ex.field_array(st, "Transform", k), lift(self)) == _r(x))


def compose_terms(outer, inner):
    """fontTools `outer.transform(inner)`: xx1.. = inner ('other'), xx2.. = outer ('self')"""
    xx1, xy1, yx1, yy1, dx1, dy1 = inner
    xx2, xy2, yx2, yy2, dx2, dy2 = outer
    return [xx1 * xx2 + xy1 * yx2, xx1 * xy2 + xy1 * yy2, yx1 * xx2 + yy1 * yx2, yx1 * xy2 + yy1 * yy2, xx2 * dx1 + yx2 * dy1 + dx2, xy2 * dx1 + yy2 * dy1 + dy2]


def _t_transform(ex, st, self, args, kwargs, node):
    me = [_r(v) for v in _six(ex, st, self)]
    other = [_r(v) for v in _six(ex, st, args[0], node)]
    return mk_transform(ex, st, [Val(REAL, t) for t in compose_terms(me, other)])


def _t_translate(ex, st, self, args, kwargs, node):
    x = args[0] if args else kwargs.get("x", Val.const(0))
    y = args[1] if len(args) > 1 else kwargs.get("y", Val.const(0))
    me = [_r(v) for v in _six(ex, st, self)]
    one, zero = z3.RealVal(1), z3.RealVal(0)
    return mk_transform(ex, st, [Val(REAL, t) for t in compose_terms(me, [one, zero, zero, one, _r(x), _r(y)])])


def _t_scale(ex, st, self, args, kwargs, node):
    x = args[0] if args else kwargs.get("x", Val.const(1))
    y = args[1] if len(args) > 1 else kwargs.get("y", x)
    me = [_r(v) for v in _six(ex, st, self)]
    zero = z3.RealVal(0)
    return mk_transform(ex, st, [Val(REAL, t) for t in compose_terms(me, [_r(x), zero, zero, _r(y), zero, zero])])


def _t_point(ex, st, self, args, kwargs, node):
    xx, xy, yx, yy, dx, dy = [_r(v) for v in _six(ex, st, self)]
    px, py = [_r(v) for v in ex.unpack(args[0], 2, st, node)]
    return Val(PYOBJ, None, (Val(REAL, xx * px + yx * py + dx), Val(REAL, xy * px + yy * py + dy)), True)


def _t_vector(ex, st, self, args, kwargs, node):
    xx, xy, yx, yy, dx, dy = [_r(v) for v in _six(ex, st, self)]
    px, py = [_r(v) for v in ex.unpack(args[0], 2, st, node)]
    return Val(PYOBJ, None, (Val(REAL, xx * px + yx * py), Val(REAL, xy * px + yy * py)), True)


CLASSES["Transform"].methods.update({"__init__": _t_init, "transform": _t_transform, "translate": _t_translate, "scale": _t_scale,
                                     "transformPoint": _t_point, "transformVector": _t_vector})

# ---- lemma: the composed 6-tuple renders like the nested application (polynomial identity over the reals) ---------
_C = ["cxx", "cxy", "cyx", "cyy", "cdx", "cdy"]
_N = ["nxx", "nxy", "nyx", "nyy", "ndx", "ndy"]


def _ap(t, x, y):
    return (f"({t[0]} * {x} + {t[2]} * {y} + {t[4]})", f"({t[1]} * {x} + {t[3]} * {y} + {t[5]})")


def composed6(c, n):
    """the six terms of c∘n (n first): the SPEC of composition, written from p -> c(n(p))"""
    return [f"({n[0]} * {c[0]} + {n[1]} * {c[2]})", f"({n[0]} * {c[1]} + {n[1]} * {c[3]})", f"({n[2]} * {c[0]} + {n[3]} * {c[2]})",
            f"({n[2]} * {c[1]} + {n[3]} * {c[3]})", f"({c[0]} * {n[4]} + {c[2]} * {n[5]} + {c[4]})", f"({c[1]} * {n[4]} + {c[3]} * {n[5]} + {c[5]})"]



@specfn(REAL, fuel=1, a=REAL, b=REAL, c=REAL, d=REAL)
def dot2(a, b, c, d):
    """a*b + c*d.  The (dead) self-reference makes the engine keep `dot2` as a SYMBOL whose defining equation is
    instantiated at ground applications only: quantified invariants that mention it are free of non-linear arithmetic
    (solvers do not terminate reliably on products under a quantifier), the arithmetic is done once, at the hint."""
    return a * b + c * d if True else dot2(a, b, c, d)


def composed6d(c, n):
    """composed6 written with dot2 (term for term the same polynomials)"""
    return [f"dot2({n[0]}, {c[0]}, {n[1]}, {c[2]})", f"dot2({n[0]}, {c[1]}, {n[1]}, {c[3]})", f"dot2({n[2]}, {c[0]}, {n[3]}, {c[2]})",
            f"dot2({n[2]}, {c[1]}, {n[3]}, {c[3]})", f"(dot2({c[0]}, {n[4]}, {c[2]}, {n[5]}) + {c[4]})", f"(dot2({c[1]}, {n[4]}, {c[3]}, {n[5]}) + {c[5]})"]


_R = composed6(_C, _N)
_inner = _ap(_N, "x", "y")
_nested = _ap(_C, _inner[0], _inner[1])
_flat = _ap(_R, "x", "y")
_transposed = [_R[0], _R[2], _R[1], _R[3], _R[4], _R[5]]
_swapped = composed6(_N, _C)
_l = lemma(
    "C02.flatten_render",
    props=["C02", "C15"],
    vars={**{v: REAL for v in _C + _N}, "x": REAL, "y": REAL},
    hyps=[],
    concl={
        # a point of the nested base, mapped by the flattened transform, lands where the two nested maps put it
        "flattened-equals-nested-x": f"{_flat[0]} == {_nested[0]}",
        "flattened-equals-nested-y": f"{_flat[1]} == {_nested[1]}",
    },
    canaries={
        "transposed-matrix": f"{_ap(_transposed, 'x', 'y')[0]} == {_nested[0]}",
        "swapped-order": f"{_ap(_swapped, 'x', 'y')[0]} == {_nested[0]} and {_ap(_swapped, 'x', 'y')[1]} == {_nested[1]}",
    },
)
_l.module = __name__

# ---- flattenComponents._flattenComponent ----------------------------------------------------------------------------------


_FGC_KEY = "ufo2ft.filters.flattenComponents:_flattenGlyphComponents"


def _comp_fn(name, sort):
    return z3.Function("c02_component_" + name, T.RefSort, sort)


def _comp_field(name, ty):
    return lambda ex, st, self: Val(ty, _comp_fn(name, ty.sort())(lift(self)))


def _comp_six(v):
    return tuple(Val(REAL, _comp_fn("t_" + k, z3.RealSort())(lift(v))) for k in _T6)


def _comp_transformation(ex, st, self):
    six = _comp_six(self)
    if getattr(getattr(ex, "c", None), "key", None) == _FGC_KEY:
        # in _flattenGlyphComponents the attribute is only COMPARED (`!= (comp.baseGlyph, comp.transformation)`) with a (name, Transform) pair:
        # the transform VALUE with these six numbers (for values `==` is the NamedTuple / tuple equality, see mk_transform)
        return mk_transform(ex, st, six)
    return Val(PYOBJ, None, six, True)


# A component's base glyph and transformation are modelled as FUNCTIONS of the component object (immutable): the code under contract never
# assigns them (hook obligation C02.frame.component-attributes); a new component gets them when the pen's addComponent creates it.
cls("C02_Component", fields={},
    derived={"baseGlyph": _comp_field("baseGlyph", STR), **{"t_" + k: _comp_field("t_" + k, REAL) for k in _T6}, "transformation": _comp_transformation},
    views={**{"t_" + k: (lambda i: (lambda o: o.transformation[i]))(i) for i, k in enumerate(_T6)}},
    notes="component: baseGlyph and its 6 transformation numbers (`transformation` is the 6-tuple of them); immutable")
cls("C02_FGlyph", fields={"name": STR, "components": List(Ref("C02_Component")), "ncontours": INT},
    length=lambda ex, st, v: ex.read_field(st, v, "ncontours"), views={"ncontours": lambda o: len(o), "components": lambda o: list(o.components)},
    notes="glyph: name, components, len(glyph) = number of contours")


def _fgs_getitem(ex, st, self, idx, node):
    return ex.getitem(ex.read_field(st, self, "glyphs"), idx, st, node)


def _fgs_contains(ex, st, self, x):
    d = ex.read_field(st, self, "glyphs")
    return z3.Select(d.ty.sort().dom(d.term), lift(x, STR))


cls("C02_FGlyphSet", fields={"glyphs": Dict(STR, Ref("C02_FGlyph"))}, getitem=_fgs_getitem, contains=_fgs_contains,
    # `names`: the key SET (quantifying over it, unlike iterating the dict, brings no key-order facts into the obligation)
    derived={"names": lambda ex, st, self: Val(Set(STR), ex.read_field(st, self, "glyphs").ty.sort().dom(ex.read_field(st, self, "glyphs").term))},
    views={"glyphs": lambda o: dict(o.items()), "names": lambda o: set(o.keys())},
    notes="glyph set: name -> glyph")

contract(
    "ufo2ft.filters.flattenComponents:_isSimpleOrMixed",
    props=["C02", "C15"],
    params={"glyph": Ref("C02_FGlyph")},
    returns=BOOL,
    requires=["glyph.ncontours >= 0"],
    ensures={"def": "result == (len(glyph.components) == 0 or glyph.ncontours > 0)"},
    canaries={"always": "result"},
)

_SOM = "(len({g}.components) == 0 or {g}.ncontours > 0)"
_CLOSED = "all(glyphSet.glyphs[n].ncontours >= 0 and all(c.baseGlyph in glyphSet.glyphs for c in glyphSet.glyphs[n].components) for n in glyphSet.names)"
_PAIR = Tuple(STR, Ref("Transform"))


def _eq6(t, six):
    return " and ".join(f"{t}.{k} == {e}" for k, e in zip(_T6, six))


_CT = [f"component.t_{k}" for k in _T6]


def _flat_render_ok(glyphSet, component, result):
    """run-time clause (bounded): rendering the flattened list equals rendering the component — independent renderer"""
    from vcheck.hooks import c15_render as R

    desc = R.glyphset_to_desc(glyphSet)
    want = R.resolve_component(desc, component.baseGlyph, tuple(component.transformation))
    got = []
    for name, tr in result:
        got += R.resolve_component(desc, name, tuple(tr))
    return R.same_shape(want, got)


contract(
    "ufo2ft.filters.flattenComponents:_flattenComponent",
    props=["C02", "C15"],
    params={"glyphSet": Ref("C02_FGlyphSet"), "component": Ref("C02_Component"), "found_in": Ref("C02_FGlyph")},
    returns=List(_PAIR),
    # input validity: no dangling component reference anywhere in the glyph set (otherwise the function raises ValueError —
    # that branch is exercised by the run-time harness only) and contour counts are counts
    requires=[_CLOSED, "component.baseGlyph in glyphSet.glyphs"],
    globals={"flat_render_ok": _flat_render_ok, **TRANSFORM_VALUE_CTOR},
    ensures={
        # every returned transform is a Transform VALUE (so that callers may compare it with `==`)
        "transform-values": "all(r[1].canon == r[1] for r in result)",
        "non-empty": "len(result) >= 1",
        # a simple or mixed base is kept as it is, with exactly the component's six numbers
        "leaf": "implies(" + _SOM.format(g="glyphSet.glyphs[component.baseGlyph]") + ", len(result) == 1 and result[0][0] == component.baseGlyph and "
        + _eq6("result[0][1]", _CT) + ")",
        # every returned reference points at a simple or mixed glyph of the glyph set: nothing nested is left (depth <= 1)
        "only-leaves": "all(r[0] in glyphSet.glyphs and " + _SOM.format(g="glyphSet.glyphs[r[0]]") + " for r in result)",
    },
    bounded_ensures={"render-preserved": "flat_render_ok(glyphSet, component, result)"},
    canaries={"single": "len(result) == 1"},
    locals={"all_flattened_components": List(_PAIR), "flattened_components": List(_PAIR)},
    ghost_vars={"raw": (List(_PAIR), "[]"), "prev": (List(_PAIR), "[]")},
    ghost={"flattened_components = _flattenComponent(glyphSet, nested, found_in=glyph)": ["raw = flattened_components"],
           "flat_tr = flat_tr.transform((tr.xx, tr.xy, tr.yx, tr.yy, 0, 0))": ["prev = flattened_components"]},
    # the list update `xs[i] = v` is encoded with extract/concat terms; these facts (each proved on its own, then
    # assumed) give the solvers the position-wise view the invariants are written in
    hints={"flat_tr = flat_tr.transform((tr.xx, tr.xy, tr.yx, tr.yy, 0, 0))": [
        # the arithmetic core, free of any sequence reasoning: translate-then-2x2 IS the composition component.T ∘ tr
        _eq6("flat_tr", composed6(_CT, [f"tr.{k}" for k in _T6])),
        # the same six equations through the symbol dot2 (its definition is instantiated here, at ground terms)
        _eq6("flat_tr", composed6d(_CT, [f"tr.{k}" for k in _T6])),
    ], "flattened_components[i] = (name, flat_tr)": [
        "len(flattened_components) == len(prev) and flattened_components[i] == (name, flat_tr)",
        "all(flattened_components[k] == prev[k] for k in range(i))",
        "flat_tr.canon == flat_tr",
    ]},
    alias_ok=("flattened_components", "raw", "prev"),  # `raw` / `prev` are ghost SNAPSHOTS (values) of the list, not second holders of it
    extract_free=True, seq_bridge=True,  # the list update `xs[i] = v` comes with position-wise facts instead of extract/concat terms
    loops={
        "for nested in glyph.components": Loop(
            index="j",
            invariants={"only-leaves": "all(r[0] in glyphSet.glyphs and " + _SOM.format(g="glyphSet.glyphs[r[0]]") + " for r in all_flattened_components)",
                        "transform-values": "all(r[1].canon == r[1] for r in all_flattened_components)",
                        "non-empty": "implies(j > 0, len(all_flattened_components) >= 1)"},
        ),
        "for (i, (name, tr)) in enumerate(flattened_components)": Loop(
            index="k0",
            invariants={
                "len": "len(flattened_components) == len(raw)",
                "transform-values": "all(flattened_components[k][1].canon == flattened_components[k][1] for k in range(k0))",
                # THE composition: entry k becomes (same name, component.T ∘ nested.T) with the exact six terms
                "composed-name": "all(flattened_components[k][0] == raw[k][0] for k in range(k0))",
                **{"composed-" + _k: "all(flattened_components[k][1]." + _k + " == " + _e + " for k in range(k0))"
                   for _k, _e in zip(_T6, composed6d(_CT, [f"raw[k][1].{k}" for k in _T6]))},
                # (the engine iterates the list value as it was at loop entry, i.e. `tr` IS raw[k0][1]; Python reads the live list, which
                #  agrees because only position i — already read — is replaced.  "Positions > k0 are still raw" is therefore not needed.)
            },
        ),
    },
)


def _fgs_view(o):
    from pyvc.rt import Proxy

    return {n: Proxy(g, CLASSES["C02_FGlyph"]) for n, g in o.items()}


CLASSES["C02_FGlyphSet"].views["glyphs"] = _fgs_view


def _flat_cases(rng, n):
    from vcheck.hooks import c15_render as R

    out = []
    for k in range(n):
        desc = R.rand_graph(rng, n_base=2, n_comp=rng.randint(2, 5), depth=4, curves=None, mixed=True)
        comps = [(g, i) for g, d in desc.items() for i in range(len(d["components"]))]
        g, i = rng.choice(comps)
        out.append({"glyphs": desc, "glyph": g, "index": i, "ufolib": ["ufoLib2", "defcon"][k % 2]})
    return out


def _flat_build(d):
    f = rtlib.build_ufo({"glyphs": d["glyphs"]}, d["ufolib"])
    gs = {g.name: g for g in f}
    glyph = gs[d["glyph"]]
    return {"glyphSet": gs, "component": list(glyph.components)[d["index"]], "found_in": glyph}


CONTRACTS["ufo2ft.filters.flattenComponents:_flattenComponent"].runtime = Runtime(_flat_cases, _flat_build)

# =====================================================================================================
# util.getMaxComponentDepth (body of /repo c48a3b0: `visited` is a MEMO name -> height of that composite's own tree; `rec_stack` the names
# of the activations in progress).
#
# Deductive statement (all component graphs that admit a RANK function — rank[base] < rank[glyph] for every present base, i.e. every
# ACYCLIC graph):
#   * EXACT VALUE: result == maxComponentDepth + height(glyph), height(g) = 0 if g has no components, else 1 + max(height(b) for the bases b
#     of g that are in the glyph set) (1 if none is) — the spec function `gheight`, defined by recursion over the components;
#   * MEMO: every entry of `visited` is the height of its glyph — assumed on entry, re-established on exit, entries are only added;
#   * never raises InvalidFontData (so: InvalidFontData  ==>  the graph has a cycle); rec_stack is left as it was found.
# (Before the fix c48a3b0 the function returned the height of the depth-first FIRST-VISIT tree — a sub-composite reached a second time was
#  not descended into again: finding F-C02-1, fixed; the pre-fix body fails `exact-value`, see notes/C02.md.)
# Termination: a recursive activation is only started for a base that is neither on rec_stack (raise) nor in the memo, its name stays on
# rec_stack while it runs and is in the memo afterwards; on ranked glyph sets the rank strictly decreases along the recursion.
# The converse "a reachable cycle ==> InvalidFontData" is a transitive-closure statement: exhaustive enumeration in vcheck/hooks/c02.py.


def _true_heights(gs):
    """run-time view of `rank`: the height of every glyph's component tree (-1 everywhere on a cyclic glyph set: precondition false)"""
    memo, active = {}, set()

    def h(n):
        if n in memo:
            return memo[n]
        if n in active:
            raise ValueError("cycle")
        active.add(n)
        g = gs[n]
        r = 0
        if g.components:
            r = 1 + max([h(c.baseGlyph) for c in g.components if c.baseGlyph in gs] or [0])
        active.discard(n)
        memo[n] = r
        return r

    try:
        return {n: h(n) for n in gs}
    except ValueError:
        return {n: -1 for n in gs}


CLASSES["C02_FGlyphSet"].derived["rank"] = lambda ex, st, self: Val(T.Map(STR, INT), z3.Function("c02_rank", T.RefSort, z3.ArraySort(z3.StringSort(), z3.IntSort()))(lift(self)))
CLASSES["C02_FGlyphSet"].views["rank"] = _true_heights


@specfn(INT, gs=Ref("C02_FGlyphSet"), name=STR, i=INT, h=INT)
def gheight_from(gs, name, i, h):
    """max(h, 1 + height(b) for the bases b of the components i, i+1, .. of glyph `name` that are in the glyph set)"""
    comps = gs.glyphs[name].components
    if i >= len(comps):
        return h
    b = comps[i].baseGlyph
    if b in gs.glyphs:
        return gheight_from(gs, name, i + 1, max(h, 1 + gheight(gs, b)))
    return gheight_from(gs, name, i + 1, h)


@specfn(INT, gs=Ref("C02_FGlyphSet"), name=STR)
def gheight(gs, name):
    """height of the component tree of glyph `name`: 0 without components, else 1 + the largest height of a base that is in the glyph set"""
    if len(gs.glyphs[name].components) == 0:
        return 0
    return gheight_from(gs, name, 0, 1)


_GS = "glyphSet.glyphs"
_RANKED = (f"all({_GS}[n].name == n and glyphSet.rank[n] >= 0 and implies(len({_GS}[n].components) > 0, glyphSet.rank[n] >= 1 and "
           f"all(implies(c.baseGlyph in {_GS}, glyphSet.rank[c.baseGlyph] < glyphSet.rank[n]) for c in {_GS}[n].components)) for n in glyphSet.names)")
_IN_SET = f"glyph.name in {_GS} and {_GS}[glyph.name] == glyph"
_HASC = "len(glyph.components) > 0"
_MEMO = "all(n in glyphSet.glyphs and {v}[n] == gheight(glyphSet, n) for n in {v})"
# the glyph and component objects of the glyph set exist (no dangling references in the heap) — stated because the definitional instances of
# the spec functions read them "as of function entry"
_ALLOC = f"all(allocated({_GS}[n]) and all(allocated(c) for c in {_GS}[n].components) for n in glyphSet.names)"
_MEMO_T = Dict(STR, INT)
_GMCD_LOOP = {
    "for component in glyph.components": Loop(
        index="i",
        invariants={
            # what remains to be done, as the spec function: finishing the fold from (i, height) gives the glyph's height
            "exact": "gheight_from(glyphSet, glyph.name, i, height) == gheight(glyphSet, glyph.name)",
            "height-at-least-one": "height >= 1",
            "memo": _MEMO.format(v="visited"),
            "memo-grows": "all(n in visited and visited[n] == V0[n] for n in V0)",
            "stack": "rec_stack == RS1",
            "stack-ranks": "all(glyphSet.rank[rec_stack[k]] >= glyphSet.rank[glyph.name] for k in range(len(rec_stack)))",
        },
    )
}
_GMCD_HINTS = {"rec_stack.append(glyph.name)": [
    # the list update position by position, then the rank fact for the extended stack (the solvers do not get there from the concat term)
    "len(rec_stack) == len(RS0) + 1 and rec_stack[len(RS0)] == glyph.name",
    "all(rec_stack[k] == RS0[k] for k in range(len(RS0)))",
    "all(glyphSet.rank[rec_stack[k]] >= glyphSet.rank[glyph.name] for k in range(len(rec_stack)))",
], "if component.baseGlyph not in visited:": [
    # memo hit or fresh result: either way the entry of this base is its height (the value the fold of the spec function uses)
    "baseGlyph.name == component.baseGlyph and component == glyphSet.glyphs[glyph.name].components[i]",
    "component.baseGlyph in visited and visited[component.baseGlyph] == gheight(glyphSet, component.baseGlyph)",
], "height = max(height, 1 + visited[component.baseGlyph])": [
    "gheight_from(glyphSet, glyph.name, i + 1, height) == gheight(glyphSet, glyph.name)",
]}
_GMCD_KW = dict(
    returns=INT,
    calls={"ufo2ft.util:getMaxComponentDepth": "ufo2ft.util:getMaxComponentDepth#rec"},
    raises={"InvalidFontData": "False"},  # never on a ranked (acyclic) glyph set
    ghost={"rec_stack.append(glyph.name)": ["RS1 = rec_stack"]},
    hints=_GMCD_HINTS,
    merge_branches=False,  # the ways a component is handled (missing base / memo hit / descended into) stay separate paths
    seq_positions=True,  # `x in rec_stack` comes with a position witness
    dict_key_positions=False,
    loops=_GMCD_LOOP,
)

# `#rec`: an activation that RECEIVES the memo and the stack (every recursive call)
contract(
    "ufo2ft.util:getMaxComponentDepth",
    name="rec",
    props=["C02"],
    params={"glyph": Ref("C02_FGlyph"), "glyphSet": Ref("C02_FGlyphSet"), "maxComponentDepth": INT, "visited": _MEMO_T, "rec_stack": List(STR)},
    modifies=["visited", "rec_stack"],
    alias_ok=("visited", "V0", "rec_stack", "RS1", "RS0"),  # V0 / RS0 / RS1 are ghost SNAPSHOTS (values), not second holders of the containers
    requires=[
        _RANKED,  # acyclic: a rank function exists
        _IN_SET,  # the glyph is the glyph set's entry of its own name (call sites: glyphSet[name], allGlyphs.items())
        _ALLOC,
        _MEMO.format(v="visited"),  # the memo holds heights
        "all(glyphSet.rank[s] > glyphSet.rank[glyph.name] for s in rec_stack)",  # the glyphs on the recursion stack are proper ancestors
    ],
    ensures={
        "exact-value": "result == maxComponentDepth + gheight(glyphSet, glyph.name)",
        "leaf": f"implies(not {_HASC}, result == maxComponentDepth and visited == old(visited))",
        "composite-at-least-one": f"implies({_HASC}, result >= maxComponentDepth + 1)",
        "memo-holds-heights": _MEMO.format(v="visited"),
        "memo-only-grows": "all(n in visited and visited[n] == old(visited)[n] for n in old(visited))",
        "stack-restored": "rec_stack == old(rec_stack)",
    },
    canaries={"always-one": "result == maxComponentDepth + 1", "ignores-depth": "result == gheight(glyphSet, glyph.name)"},
    ghost_vars={"V0": (_MEMO_T, "visited"), "RS1": (List(STR), "[]"), "RS0": (List(STR), "rec_stack")},
    locals={"baseGlyph": Ref("C02_FGlyph")},
    **_GMCD_KW,
)

# `#top`: the function as its callers use it (getMaxComponentDepths, the filters' sort keys): two arguments, fresh memo / stack
contract(
    "ufo2ft.util:getMaxComponentDepth",
    name="top",
    props=["C02"],
    params={"glyph": Ref("C02_FGlyph"), "glyphSet": Ref("C02_FGlyphSet")},
    alias_ok=("visited", "V0", "rec_stack", "RS1", "RS0"),
    requires=[_RANKED, _IN_SET, _ALLOC],
    ensures={
        "exact-value": "result == gheight(glyphSet, glyph.name)",  # THE height of the glyph's component tree
        "simple-is-zero": f"implies(not {_HASC}, result == 0)",
        "composite-at-least-one": f"implies({_HASC}, result >= 1)",
    },
    canaries={"always-zero": "result == 0"},
    ghost_vars={"V0": (_MEMO_T, "{}"), "RS1": (List(STR), "[]"), "RS0": (List(STR), "[]")},
    locals={"baseGlyph": Ref("C02_FGlyph"), "visited": _MEMO_T, "rec_stack": List(STR)},
    **_GMCD_KW,
)

# `#rec.on-stack`: ONE activation on an ARBITRARY glyph set (no rank function: cycles allowed) in which no recursive activation is started
# (every base that is present is memoised, on the recursion stack, or the glyph itself): InvalidFontData IFF a present base is on the
# recursion stack (incl. the glyph's own name, which the activation pushed) — the one-level half of "a reachable cycle raises"; the
# reachability induction itself stays bounded (exhaustive scope in the hook).
_ON_STACK = f"(c.baseGlyph in {_GS} and (c.baseGlyph in rec_stack or c.baseGlyph == glyph.name))"
contract(
    "ufo2ft.util:getMaxComponentDepth",
    name="rec.on-stack",
    props=["C02"],
    params={"glyph": Ref("C02_FGlyph"), "glyphSet": Ref("C02_FGlyphSet"), "maxComponentDepth": INT, "visited": _MEMO_T, "rec_stack": List(STR)},
    returns=INT,
    modifies=["rec_stack"],
    alias_ok=("visited", "V0", "rec_stack", "RS1", "RS0"),
    requires=[
        f"all(implies(c.baseGlyph in {_GS}, c.baseGlyph in visited or c.baseGlyph in rec_stack or c.baseGlyph == glyph.name) for c in glyph.components)",
    ],
    raises={"InvalidFontData": f"any({_ON_STACK} for c in glyph.components)"},
    ensures={
        "stack-restored": "rec_stack == old(rec_stack)",
        "leaf": f"implies(not {_HASC}, result == maxComponentDepth)",
        "composite-at-least-one": f"implies({_HASC}, result >= maxComponentDepth + 1)",
    },
    canaries={"never-returns": "False"},
    calls={"ufo2ft.util:getMaxComponentDepth": "ufo2ft.util:getMaxComponentDepth#rec"},
    ghost_vars={"RS1": (List(STR), "[]"), "RS0": (List(STR), "rec_stack"), "V0": (_MEMO_T, "visited")},
    ghost={"rec_stack.append(glyph.name)": ["RS1 = rec_stack"]},
    hints={"rec_stack.append(glyph.name)": [
        "len(rec_stack) == len(RS0) + 1 and rec_stack[len(RS0)] == glyph.name",
        "all(rec_stack[k] == RS0[k] for k in range(len(RS0)))",
    ], "if component.baseGlyph in rec_stack:": [
        # not on the stack (the test just passed), so by the precondition it is memoised: no activation is started
        "component == glyph.components[i]",
        "component.baseGlyph in visited",
    ]},
    locals={"baseGlyph": Ref("C02_FGlyph")},
    merge_branches=False,
    seq_positions=True,
    dict_key_positions=False,
    loops={"for component in glyph.components": Loop(
        index="i",
        invariants={
            "none-on-stack-so-far": f"not any((glyph.components[k].baseGlyph in {_GS} and (glyph.components[k].baseGlyph in RS0 or glyph.components[k].baseGlyph == glyph.name)) for k in range(i))",
            "height-at-least-one": "height >= 1",
            "stack": "rec_stack == RS1",
            "stack-positions": "len(rec_stack) == len(RS0) + 1 and rec_stack[len(RS0)] == glyph.name",
            "stack-prefix": "all(rec_stack[k] == RS0[k] for k in range(len(RS0)))",
            "memo-untouched": "visited == V0",
        },
    )},
)


def _gmcd_cases(rng, n):
    from vcheck.hooks import c15_render as R

    out = []
    # the input of finding F-C02-1 (fixed in c48a3b0): a sub-composite shared between two branches, met first at the SHALLOWER depth
    tri = [[[0, 0, "line"], [100, 0, "line"], [100, 100, "line"]]]
    I6 = [1, 0, 0, 1, 0, 0]
    shared = {"E": {"width": 500, "height": 0, "contours": tri, "components": [], "anchors": []},
              "D": {"width": 500, "height": 0, "contours": [], "components": [["E", I6]], "anchors": []},
              "B": {"width": 500, "height": 0, "contours": [], "components": [["D", I6]], "anchors": []},
              "A": {"width": 500, "height": 0, "contours": [], "components": [["D", I6], ["B", I6]], "anchors": []}}
    out.append({"glyphs": shared, "glyph": "A", "depth": 0, "visited": [], "ufolib": "ufoLib2"})
    for k in range(n - 1):
        desc = R.rand_graph(rng, n_base=2, n_comp=rng.randint(1, 5), depth=4, curves=None, mixed=True)
        names = sorted(desc)
        if rng.random() < 0.3:  # a dangling reference
            g = rng.choice(names)
            if desc[g]["components"]:
                desc[g]["components"].append(["missing", [1, 0, 0, 1, 0, 0]])
        glyph = rng.choice(names)
        others = [x for x in names if x != glyph]
        visited = rng.sample(others, rng.randint(0, len(others))) if rng.random() < 0.5 else []  # names whose (true) height is already in the memo
        out.append({"glyphs": desc, "glyph": glyph, "depth": rng.randint(0, 3), "visited": visited, "ufolib": ["ufoLib2", "defcon"][k % 2]})
    return out


def _gmcd_build(d):
    f = rtlib.build_ufo({"glyphs": d["glyphs"]}, d["ufolib"])
    gs = {g.name: g for g in f}
    hts = _true_heights(gs)
    return {"glyph": gs[d["glyph"]], "glyphSet": gs, "maxComponentDepth": d["depth"], "visited": {n: hts[n] for n in d["visited"]}, "rec_stack": []}


CONTRACTS["ufo2ft.util:getMaxComponentDepth#rec"].runtime = Runtime(_gmcd_cases, _gmcd_build)


def _gmcd_onstack_cases(rng, n):
    out = []
    for d in _gmcd_cases(rng, n):
        names = sorted(d["glyphs"])
        others = [x for x in names if x != d["glyph"]]
        d = dict(d, stack=rng.sample(others, rng.randint(0, len(others))), selfref=rng.random() < 0.2 and d["ufolib"] == "ufoLib2")  # defcon's notifications recurse on a self-reference
        out.append(d)
    return out


def _gmcd_onstack_build(d):
    desc = {k: dict(v, components=list(v["components"])) for k, v in d["glyphs"].items()}
    if d["selfref"] and desc[d["glyph"]]["components"]:
        desc[d["glyph"]]["components"].append([d["glyph"], [1, 0, 0, 1, 0, 0]])  # the glyph as its own component
    f = rtlib.build_ufo({"glyphs": desc}, d["ufolib"])
    gs = {g.name: g for g in f}
    # everything that is neither on the stack nor the glyph itself is memoised (any value: this variant says nothing about the number)
    memo = {n: 1 + len(n) % 3 for n in gs if n not in d["stack"] and n != d["glyph"]}
    return {"glyph": gs[d["glyph"]], "glyphSet": gs, "maxComponentDepth": d["depth"], "visited": memo, "rec_stack": list(d["stack"])}


CONTRACTS["ufo2ft.util:getMaxComponentDepth#rec.on-stack"].runtime = Runtime(_gmcd_onstack_cases, _gmcd_onstack_build)
CONTRACTS["ufo2ft.util:getMaxComponentDepth#top"].runtime = Runtime(_gmcd_cases, lambda d: {k: v for k, v in _gmcd_build(d).items() if k in ("glyph", "glyphSet")})

# =====================================================================================================
# CubicToQuadraticFilter.filter / ReverseContourDirectionFilter.filter: every contour of a glyph with contours is re-drawn exactly once, in
# order, through ONE converting pen over the glyph's own pen — Cu2QuPointPen(max_err = the context's ABSOLUTE error, reverse_direction and
# all_quadratic as configured) resp. ReverseContourPointPen — after the old contours were cleared; a glyph without contours is left alone.
# With set_context above: max_err == (conversionError or 1/1000) * unitsPerEm.
#
# TRUSTED (fontTools): Cu2QuPointPen(out, max_err, reverse_direction=False, stats=None, all_quadratic=True) emits, for each contour drawn
# into it, one contour on `out` whose curves stay within max_err of the source (reversed iff reverse_direction); ReverseContourPointPen(out)
# emits the reversed contour.  Modelled as: a NEW contour object is appended to the out pen's glyph, remembering its source contour and the
# pen it came through (ghost fields).

cls("C02_Contour", fields={"source": Ref("C02_Contour"), "via": Ref("C02_ConvPen")}, notes="contour; source / via: which contour it was converted from, through which pen (ghost)")
cls("C02_GlyphPen", fields={"glyph": Ref("C02_CGlyph")}, notes="glyph.getPointPen(): a pen writing into that glyph")
cls("C02_ConvPen", fields={"kind": STR, "out": Ref("C02_GlyphPen"), "max_err": REAL, "reverse_direction": BOOL, "all_quadratic": BOOL, "stats": Dict(STR, INT)},
    notes="a converting point pen (kind 'cu2qu' = fontTools Cu2QuPointPen, 'reverse' = ReverseContourPointPen) with its constructor arguments")


def _cglyph_iter(ex, st, v, node):
    c = ex.read_field(st, v, "contours")
    s = c.term
    return IterInfo("indexed", n=z3.Length(s), item=lambda i: Val(Ref("C02_Contour"), s[i]), seqval=c)


def _cglyph_clear(ex, st, self, args, kwargs, node):
    c = ex.read_field(st, self, "contours")
    ex.write_field(st, self, "contours", Val(c.ty, z3.Empty(c.ty.sort())), node)
    n = ex.read_field(st, self, "cleared")
    ex.write_field(st, self, "cleared", Val(INT, lift(n) + 1), node)
    return Val.const(None)


_cglyph_clear.modifies = ["C02_CGlyph.contours", "C02_CGlyph.cleared"]


def _cglyph_pen(ex, st, self, args, kwargs, node):
    p = ex.new_object(st, "C02_GlyphPen")
    ex.write_field(st, p, "glyph", self, node)
    return p


def _contour_drawPoints(ex, st, self, args, kwargs, node):
    (pen,) = args
    g = ex.read_field(st, ex.read_field(st, pen, "out"), "glyph")
    nc = ex.new_object(st, "C02_Contour")
    ex.write_field(st, nc, "source", self, node)
    ex.write_field(st, nc, "via", pen, node)
    c = ex.read_field(st, g, "contours")
    t = lift(c)
    new = z3.Concat(t, z3.Unit(lift(nc)))
    k = z3.Int(fresh_name("ck"))
    st.assume(z3.And(z3.Length(new) == z3.Length(t) + 1, new[z3.Length(t)] == lift(nc), z3.ForAll([k], z3.Implies(z3.And(0 <= k, k < z3.Length(t)), new[k] == t[k]))))
    ex.write_field(st, g, "contours", Val(c.ty, new), node)
    return Val.const(None)


_contour_drawPoints.modifies = ["C02_CGlyph.contours", "C02_Contour.source", "C02_Contour.via"]
cls("C02_CGlyph", fields={"contours": List(Ref("C02_Contour")), "cleared": INT}, length=lambda ex, st, v: Val(INT, z3.Length(lift(ex.read_field(st, v, "contours")))),
    iter=_cglyph_iter, methods={"clearContours": _cglyph_clear, "getPointPen": _cglyph_pen},
    notes="glyph as the outline filters see it: its contours (len / iteration), clearContours, getPointPen; cleared = number of clearContours calls (ghost)")
CLASSES["C02_Contour"].methods["drawPoints"] = _contour_drawPoints
CLASSES["C02_Ctx"].fields["stats"] = Dict(STR, INT)


@trusted("c02.Cu2QuPointPen", "fontTools.pens.cu2quPen.Cu2QuPointPen(other_point_pen, max_err, reverse_direction=False, stats=None, all_quadratic=True): arguments recorded (see the note above)")
def _cu2qu_pen(ex, st, args, kwargs, node):
    if len(args) != 2 or set(kwargs) - {"reverse_direction", "stats", "all_quadratic"}:
        raise Unsupported("Cu2QuPointPen(...) argument shape", node)
    p = ex.new_object(st, "C02_ConvPen")
    ex.write_field(st, p, "kind", Val.const("cu2qu"), node)
    ex.write_field(st, p, "out", args[0], node)
    ex.write_field(st, p, "max_err", args[1], node)
    ex.write_field(st, p, "reverse_direction", kwargs.get("reverse_direction", Val.const(False)), node)
    ex.write_field(st, p, "all_quadratic", kwargs.get("all_quadratic", Val.const(True)), node)
    if "stats" in kwargs:
        ex.write_field(st, p, "stats", kwargs["stats"], node)
    return p


@trusted("c02.ReverseContourPointPen", "fontTools.pens.pointPen.ReverseContourPointPen(outPen): emits every contour reversed")
def _reverse_pen(ex, st, args, kwargs, node):
    if len(args) != 1 or kwargs:
        raise Unsupported("ReverseContourPointPen(...) argument shape", node)
    p = ex.new_object(st, "C02_ConvPen")
    ex.write_field(st, p, "kind", Val.const("reverse"), node)
    ex.write_field(st, p, "out", args[0], node)
    return p


cls("C02_Cu2QuFilterF", fields={"options": Ref("C02_Cu2QuOptions"), "context": Ref("C02_Ctx")}, notes="CubicToQuadraticFilter / ReverseContourDirectionFilter instance (options, context)")
_OC = "old(glyph.contours)"
_REDRAW_POST = {
    "empty-glyph-untouched": f"implies(len({_OC}) == 0, not result and glyph.contours == {_OC} and glyph.cleared == old(glyph.cleared))",
    "reports-change": f"result == (len({_OC}) > 0)",
    "cleared-once": f"implies(len({_OC}) > 0, glyph.cleared == old(glyph.cleared) + 1)",
    # no contour lost, duplicated or reordered: the k-th new contour comes from the k-th old one
    "one-for-one-in-order": f"implies(len({_OC}) > 0, len(glyph.contours) == len({_OC}) and all(glyph.contours[k].source == {_OC}[k] for k in range(len({_OC}))))",
    "one-pen-into-this-glyph": f"all(glyph.contours[k].via == glyph.contours[0].via and glyph.contours[k].via.out.glyph == glyph for k in range(len(glyph.contours))) or len({_OC}) == 0",
}
_REDRAW_LOOP = {
    "for contour in contours": Loop(
        index="i",
        invariants={
            "len": "len(glyph.contours) == i",
            "existing": "all(allocated(glyph.contours[k]) for k in range(i))",  # (so that the next NEW contour object is none of them)
            "sources": "all(glyph.contours[k].source == contours[k] for k in range(i))",
            "via": "all(glyph.contours[k].via == pen for k in range(i))",
            "pen": "pen.out.glyph == glyph",
        },
    )
}
_REDRAW_FRAME = ["C02_CGlyph.contours", "C02_CGlyph.cleared", "C02_Contour.source", "C02_Contour.via"]

contract(
    "ufo2ft.filters.cubicToQuadratic:CubicToQuadraticFilter.filter",
    props=["C02"],
    params={"self": Ref("C02_Cu2QuFilterF"), "glyph": Ref("C02_CGlyph")},
    returns=BOOL,
    globals={"Cu2QuPointPen": Val.obj(FuncRef(None, "c02.Cu2QuPointPen"))},
    modifies=_REDRAW_FRAME,
    ensures={
        **_REDRAW_POST,
        # the conversion pen: ABSOLUTE error of the context, direction and all-quadratic as configured
        "cu2qu-options": f"implies(len({_OC}) > 0, glyph.contours[0].via.kind == 'cu2qu' and glyph.contours[0].via.max_err == self.context.absoluteError"
                         " and glyph.contours[0].via.reverse_direction == self.options.reverseDirection and glyph.contours[0].via.all_quadratic == self.options.allQuadratic)",
    },
    canaries={"never-reverses": f"len({_OC}) > 0 and not glyph.contours[0].via.reverse_direction"},
    locals={"contours": List(Ref("C02_Contour"))},
    loops=_REDRAW_LOOP,
)

contract(
    "ufo2ft.filters.reverseContourDirection:ReverseContourDirectionFilter.filter",
    props=["C02"],
    params={"self": Ref("C02_Cu2QuFilterF"), "glyph": Ref("C02_CGlyph")},
    returns=BOOL,
    globals={"ReverseContourPointPen": Val.obj(FuncRef(None, "c02.ReverseContourPointPen"))},
    modifies=_REDRAW_FRAME,
    ensures={**_REDRAW_POST, "reversing-pen": f"implies(len({_OC}) > 0, glyph.contours[0].via.kind == 'reverse')"},
    canaries={"never": "not result"},
    locals={"contours": List(Ref("C02_Contour"))},
    loops=_REDRAW_LOOP,
)


# ---- run-time side: the real filters on real glyphs; thin recording wrappers make the ghost fields (source / via / cleared) observable ----
class _RtState:
    current = None  # (source contour wrapper, pen) of the drawPoints call in progress


class _RtContour:
    def __init__(self, real, source=None, via=None):
        self.real, self.source, self.via = real, source, via

    def drawPoints(self, pen):
        _RtState.current = (self, pen)
        try:
            self.real.drawPoints(pen)
        finally:
            _RtState.current = None


class _RtGlyphPen:
    """the glyph's own point pen, observed: every finished contour is attributed to the drawPoints call in progress"""

    def __init__(self, glyph, real):
        self.glyph, self.real = glyph, real

    def beginPath(self, **kw):
        self.real.beginPath(**kw)

    def addPoint(self, *a, **kw):
        self.real.addPoint(*a, **kw)

    def endPath(self):
        self.real.endPath()
        src, pen = _RtState.current if _RtState.current else (None, None)
        self.glyph.contours.append(_RtContour(list(self.glyph.real)[-1], source=src, via=pen))

    def addComponent(self, *a, **kw):
        self.real.addComponent(*a, **kw)


class _RtGlyph:
    def __init__(self, real):
        self.real = real
        self.contours = [_RtContour(c) for c in real]
        self.cleared = 0

    def __len__(self):
        return len(self.contours)

    def __iter__(self):
        return iter(self.contours)

    def clearContours(self):
        self.real.clearContours()
        self.contours = []
        self.cleared += 1

    def getPointPen(self):
        return _RtGlyphPen(self, self.real.getPointPen())


def _rt_pen_views():
    def out(p):
        q = p.pen
        while not isinstance(q, _RtGlyphPen):  # Cu2QuPointPen(reverse_direction=True) interposes its own ReverseContourPointPen
            q = q.pen
        return q

    from fontTools.pens.cu2quPen import Cu2QuPointPen

    return {
        "kind": lambda p: "cu2qu" if isinstance(p, Cu2QuPointPen) else "reverse",
        "out": out,
        "reverse_direction": lambda p: not isinstance(p.pen, _RtGlyphPen),  # observable: the interposed reversing pen
    }


CLASSES["C02_ConvPen"].views.update(_rt_pen_views())


def _redraw_cases(rng, n):
    out = []
    for k in range(n):
        glyphs = {}
        ncont = rng.choice([0, 1, 1, 2, 3])
        conts = []
        for c in range(ncont):
            x = 100 * c
            if rng.random() < 0.6:
                conts.append([[x, 0, "line"], [x + 10, 50, None], [x + 20, 80, None], [x + 30, 10, "curve"], [x + 40, -20, "line"]])
            else:
                conts.append([[x, 0, "line"], [x + 50, 0, "line"], [x + 50, 50, "line"]])
        glyphs["a"] = {"width": 500, "contours": conts}
        out.append({"glyphs": glyphs, "err": [None, 0.002, 0.0005][k % 3], "rev": bool(k % 2), "allq": bool((k // 2) % 2), "upm": [1000, 2048][(k // 4) % 2], "ufolib": ["ufoLib2", "defcon"][k % 2]})
    return out


def _cu2qu_build(d):
    from ufo2ft.filters.cubicToQuadratic import CubicToQuadraticFilter
    from ufo2ft.util import _GlyphSet

    f = rtlib.build_ufo({"glyphs": d["glyphs"], "info": {"unitsPerEm": d["upm"]}}, d["ufolib"])
    kw = {"reverseDirection": d["rev"], "allQuadratic": d["allq"]}
    if d["err"] is not None:
        kw["conversionError"] = d["err"]
    flt = CubicToQuadraticFilter(**kw)
    flt.set_context(f, _GlyphSet.from_layer(f))
    return {"self": flt, "glyph": _RtGlyph(f["a"])}


def _rev_build(d):
    from ufo2ft.filters.reverseContourDirection import ReverseContourDirectionFilter
    from ufo2ft.util import _GlyphSet

    f = rtlib.build_ufo({"glyphs": d["glyphs"]}, d["ufolib"])
    flt = ReverseContourDirectionFilter()
    flt.set_context(f, _GlyphSet.from_layer(f))
    return {"self": flt, "glyph": _RtGlyph(f["a"])}


CONTRACTS["ufo2ft.filters.cubicToQuadratic:CubicToQuadraticFilter.filter"].runtime = Runtime(_redraw_cases, _cu2qu_build)
CONTRACTS["ufo2ft.filters.reverseContourDirection:ReverseContourDirectionFilter.filter"].runtime = Runtime(_redraw_cases, _rev_build)

# =====================================================================================================
# OutlineTTFCompiler.setupTable_glyf (+ BaseOutlineCompiler.getCompiledGlyphs): the glyf table gets, under every name of the glyph order,
# exactly THE record compileGlyphs made for that name (so: from its own source glyph, with the compiler's rounding — contract above),
# nothing else, with the compiler's glyph order; records are stored in non-decreasing component depth (bases before the composites
# that use them).
#
# Call-site summaries (ufo2ft code that is not re-verified here):
#  * getMaxComponentDepths — verified under C04 (contracts/c04.py, other class vocabulary): returns a dict name -> depth, or raises
#    InvalidFontData for a cyclic reference (condition kept abstract here: `depth_cycle(self)`);
#  * InstructionCompiler.compileGlyphInstructions — summarised by its FRAME (only `.program` / `.flags` of the record are assigned):
#    syntactic hook obligation C02.frame.instruction-compiler.
from . import lib  # noqa: E402

_GLYF = lib.table_class("glyf")
lib.table_class("loca")
lib.table_class("maxp")
CLASSES[_GLYF].fields.update({"glyphs": Dict(STR, Ref("C02_TTGlyph")), "glyphOrder": List(STR)})


def _glyf_setitem(ex, st, self, idx, v, node):
    """fontTools glyf.__setitem__(name, glyph): glyphs[name] = glyph; the name is appended to glyphOrder if it is not in it (TRUSTED)"""
    from pyvc import models

    cur = ex.read_field(st, self, "glyphs")
    ex.write_field(st, self, "glyphs", models.set_item(ex, st, cur, idx, v, node), node)
    order = ex.read_field(st, self, "glyphOrder")
    t, x = lift(order), lift(idx, STR)
    ex.write_field(st, self, "glyphOrder", Val(order.ty, z3.If(z3.Contains(t, z3.Unit(x)), t, z3.Concat(t, z3.Unit(x)))), node)


CLASSES[_GLYF].setitem = _glyf_setitem
CLASSES["table_maxp"].methods["recalc"] = lambda ex, st, self, args, kwargs, node: Val.const(None)  # fontTools maxp.recalc(font): reads glyf, writes maxp's own fields (not modelled)


def _instr_compile(ex, st, self, args, kwargs, node):
    return Val.const(None)


cls("C02_InstrCompiler", methods={"compileGlyphInstructions": _instr_compile},
    notes="ufo2ft InstructionCompiler: compileGlyphInstructions(ttGlyph, name) summarised by its frame (assigns only .program / .flags of the "
          "record: hook obligation C02.frame.instruction-compiler); neither is a field of the glyf-record model")
CLASSES["C02_TTCompiler"].fields.update({"otf": Ref("TTFont"), "tables": Set(STR), "_compiledGlyphs": Opt(Dict(STR, Ref("C02_TTGlyph"))),
                                         "_maxComponentDepths": Opt(Dict(STR, INT)), "instructionCompiler": Ref("C02_InstrCompiler")})


@specfn(BOOL, opaque=True, comp=Ref("C02_TTCompiler"))
def depth_cycle(comp):
    """some glyph of the compiler's glyph set reaches a cyclic component reference (getMaxComponentDepths raises InvalidFontData) — abstract"""
    from ufo2ft.errors import InvalidFontData

    try:
        comp.getMaxComponentDepths()
    except InvalidFontData:
        return True
    return False


contract(
    "ufo2ft.outlineCompiler:OutlineTTFCompiler.getMaxComponentDepths",
    name="C02_TTCompiler",
    props=[],  # call-site summary; the method is verified under C04
    params={"self": Ref("C02_TTCompiler")},
    returns=Dict(STR, INT),
    modifies=["self._maxComponentDepths"],
    ensures={"a-dict": "True"},
    raises={"InvalidFontData": "depth_cycle(self)"},
    notes="summary of OutlineTTFCompiler.getMaxComponentDepths for the receiver class of C02 (verified under C04 with its own vocabulary)",
)

_REC = "{d}[self.glyphOrder[a]]"
_REC_FACTS = ("implies(not " + _G + ".tt_invalid, not {r}.empty and {r}.src == " + _G + " and {r}.penGlyphSet == self.allGlyphs and {r}.round == (1 if self.roundCoordinates else 0)"
              " and {r}.dropImpliedOnCurves == self.dropImpliedOnCurves) and implies(" + _G + ".tt_invalid, {r}.empty)")
_GN = "self.allGlyphs[n]"
_REC_FACTS_N = ("implies(not " + _GN + ".tt_invalid, not {r}.empty and {r}.src == " + _GN + " and {r}.penGlyphSet == self.allGlyphs and {r}.round == (1 if self.roundCoordinates else 0)"
                " and {r}.dropImpliedOnCurves == self.dropImpliedOnCurves) and implies(" + _GN + ".tt_invalid, {r}.empty)")
_CACHE_FACTS = "all(self.glyphOrder[a] in {d} and " + _REC_FACTS.format(r=_REC) + " for a in range(len(self.glyphOrder)))"

contract(
    "ufo2ft.outlineCompiler:BaseOutlineCompiler.getCompiledGlyphs",
    name="C02_TTCompiler",
    props=["C02"],
    params={"self": Ref("C02_TTCompiler")},
    returns=Opt(Dict(STR, Ref("C02_TTGlyph"))),
    requires=[
        "all(n in self.allGlyphs for n in self.glyphOrder)",
        # the cache is written by this method only (None after __init__): a cached dict is one compileGlyphs returned
        "self._compiledGlyphs is None or (" + _CACHE_FACTS.format(d="self._compiledGlyphs") + ")",
    ],
    modifies=["self._compiledGlyphs", "TTGlyphPointPen.glyphSet", "TTGlyphPointPen.drawn"],
    ensures={
        "a-dict": "result is not None and self._compiledGlyphs == result",
        "every-record-from-its-source": _CACHE_FACTS.format(d="result"),
        "cache-kept": "implies(old(self._compiledGlyphs) is not None, result == old(self._compiledGlyphs))",
        # the same facts keyed by NAME (for callers that reach a name through another enumeration of the order, e.g. sorted by depth)
        "every-name": "all(n in result for n in set(self.glyphOrder))",
        "every-name-from-its-source": "all(" + _REC_FACTS_N.format(r="result[n]") + " for n in set(self.glyphOrder))",
    },
    raises={"ValueError": _RAISES + " and self._compiledGlyphs is None"},
    canaries={"recompiles": "old(self._compiledGlyphs) is not None and result != old(self._compiledGlyphs)"},
    seq_positions=True,
    merge_branches=False,  # "cache filled" / "compiled now" stay separate paths
    canon_binders=True,  # the cubic-guard condition is evaluated twice (callee's raises clause, this contract's): identical terms
)

# the cached path of the same method, as setupTable_glyf meets it (light call-site contract, proved from the same body): the glyph
# records were compiled before (compile() sets up head / hmtx first, whose bounding boxes go through getCompiledGlyphs)
contract(
    "ufo2ft.outlineCompiler:BaseOutlineCompiler.getCompiledGlyphs",
    name="C02_TTCompiler.cached",
    props=["C02"],
    params={"self": Ref("C02_TTCompiler")},
    returns=Dict(STR, Ref("C02_TTGlyph")),
    requires=["self._compiledGlyphs is not None"],
    ensures={"the-cache": "self._compiledGlyphs is not None and result == self._compiledGlyphs"},
    canaries={"empty": "len(result) == 0"},
)


class _ProbeGlyphName(Val):
    """An ARBITRARY glyph name (free constant the code never sees): the clauses below are proved for every name at once, without a
    quantifier over the glyf dict / an ∃ over the positions of the sorted order.  Natively (run-time cross-check) it stands for 'a';
    the all-names statement is evaluated there by the bounded clause."""

    _NATIVE = "a"

    def __call__(self):
        return self

    def __hash__(self):
        return hash(self._NATIVE)

    def __eq__(self, o):
        return o == self._NATIVE if isinstance(o, str) else NotImplemented


_PROBE = _ProbeGlyphName(STR, z3.String("c02_probe_glyph_name"))
_GT = "self.otf['glyf']"


def _sorted_permutation(ex, st, args, kwargs, node):
    """builtins.sorted(<list of str>, key=...) for this contract: a list with the SAME ELEMENTS and the SAME LENGTH as the argument
    (python builtin semantics, TRUSTED) — a subset of the engine's `sorted_axioms` facts: the ordering itself is not needed by any clause
    here, and the engine's position-witness fact forms a matching loop with the member fact (notes/C01.requests.md item 14)."""
    from pyvc import models

    (v,) = [models.materialize(ex, a) for a in args]
    if not (isinstance(v.ty, T.List) and v.ty.elem == STR) or set(kwargs) - {"key"}:
        raise Unsupported("sorted(): only sorted(<list of str>, key=...) is modelled here", node)
    s = lift(v)
    r = z3.Function(fresh_name("sorted_perm"), s.sort(), s.sort())(s)
    x = z3.Const(fresh_name("sx"), z3.StringSort())
    st.assume(z3.Length(r) == z3.Length(s))
    st.assume(z3.ForAll([x], z3.Contains(r, z3.Unit(x)) == z3.Contains(s, z3.Unit(x))))
    models.seq_member_facts(st, r)
    # ONE ground instance of "a member sits at some position", for the contract's arbitrary name (no quantified witness function)
    p = lift(_PROBE)
    pp = z3.Int(fresh_name("probe_pos"))
    models.assume_theorem(st, z3.Implies(z3.Contains(r, z3.Unit(p)), z3.And(0 <= pp, pp < z3.Length(r), r[pp] == p)))
    return Val(v.ty, r)


_SORT_LOOP = "for name in sorted(self.glyphOrder, key=lambda n: maxComponentDepths.get(n, 0))"
_GCG = "ufo2ft.outlineCompiler:BaseOutlineCompiler.getCompiledGlyphs"
_HAS_GLYF = "('glyf' in self.tables and 'loca' in self.tables)"
contract(
    "ufo2ft.outlineCompiler:OutlineTTFCompiler.setupTable_glyf",
    props=["C02"],
    params={"self": Ref("C02_TTCompiler")},
    globals={"probe": _PROBE},
    calls={_GCG: _GCG + "#C02_TTCompiler.cached", _GCG + "#C02_TTCompiler": _GCG + "#C02_TTCompiler.cached"},
    models={"builtins.sorted": _sorted_permutation},
    requires=[
        # the records were compiled before, one for every name of the order (postcondition `every-name` of getCompiledGlyphs)
        "self._compiledGlyphs is not None and all(n in self._compiledGlyphs for n in set(self.glyphOrder))",
    ],
    modifies=["TTFont.tbl:glyf", "TTFont.tbl:loca", "self._maxComponentDepths", f"{_GLYF}.glyphs", f"{_GLYF}.glyphOrder"],
    ensures={
        # without 'glyf' / 'loca' among the tables to build: nothing happens
        "not-requested-untouched": f"implies(not {_HAS_GLYF}, self.otf.get('glyf') == old(self.otf.get('glyf')))",
        "glyph-order": f"implies({_HAS_GLYF}, {_GT}.glyphOrder == self.glyphOrder)",
        # (for the arbitrary name `probe`)  a name of the glyph order is in the table, and what is stored under it is THE record
        # compileGlyphs made for that name — the same object, so everything the compileGlyphs / getCompiledGlyphs contracts say about it
        # (own source glyph, the compiler's glyph set, rounding, empty record for unsupported curves) holds for the table entry
        "every-glyph-stored": f"implies({_HAS_GLYF} and probe in self.glyphOrder, probe in {_GT}.glyphs and {_GT}.glyphs[probe] == self._compiledGlyphs[probe])",
        # ... and nothing else is in the table
        "nothing-else": f"implies({_HAS_GLYF} and probe in {_GT}.glyphs, probe in self.glyphOrder)",
        # the cache maps the same names to the same record OBJECTS (identity: compileGlyphInstructions legitimately edits a record
        # in place -- programs, USE_MY_METRICS flags -- so a deep comparison of the records would be wrong; it fired at run time
        # with VERIF_SEED=2 on a composite whose component has the composite's advance)
        "cache-untouched": "set(self._compiledGlyphs) == set(old(self._compiledGlyphs)) and all(self._compiledGlyphs[n] is old(self._compiledGlyphs)[n] for n in self._compiledGlyphs)",
    },
    # the same for EVERY name, and the depth order of insertion, evaluated natively on real compilers
    bounded_ensures={
        "all-names": f"not {_HAS_GLYF} or (set({_GT}.glyphs) == set(self.glyphOrder) and all({_GT}.glyphs[n] is self._compiledGlyphs[n] for n in self.glyphOrder))",
        "bases-before-composites": f"not {_HAS_GLYF} or all(self.getMaxComponentDepths().get(list({_GT}.glyphs)[k], 0) <= self.getMaxComponentDepths().get(list({_GT}.glyphs)[k + 1], 0) for k in range(len({_GT}.glyphs) - 1))",
    },
    raises={"InvalidFontData": f"{_HAS_GLYF} and depth_cycle(self)"},
    canaries={"empty-table": f"{_HAS_GLYF} and probe in self.glyphOrder and probe not in {_GT}.glyphs"},
    # DONE: the names stored so far (ghost)
    ghost_vars={"DONE": (Set(STR), "set()")},
    ghost={"glyf[name] = ttGlyph": ["DONE = DONE | {name}"]},
    locals={"ttGlyphs": Dict(STR, Ref("C02_TTGlyph"))},
    loops={
        _SORT_LOOP: Loop(
            index="i", seq="SO",
            invariants={
                "table": "self.otf.get('glyf') is not None and glyf == self.otf['glyf']",
                "order-kept": "glyf.glyphOrder == self.glyphOrder",
                "done-prefix": "all(SO[a] in DONE for a in range(i))",
                "done-only": "all(n in self.glyphOrder for n in DONE)",
                "stored": "implies(probe in DONE, probe in glyf.glyphs and glyf.glyphs[probe] == ttGlyphs[probe])",
                "only": "implies(probe in glyf.glyphs, probe in DONE)",
            },
        )
    },
)


def _glyf_cases(rng, n):
    from vcheck.hooks import c15_render as R

    out = []
    for k in range(n):
        desc = R.rand_graph(rng, n_base=2, n_comp=rng.randint(0, 4), depth=3, curves=None, mixed=False)
        desc["a"] = {"width": 500, "height": 0, "contours": [[[0, 0, "line"], [100, 0, "line"], [100, 100, "line"]]], "components": [], "anchors": []}
        out.append({"glyphs": desc, "ufolib": ["ufoLib2", "defcon"][k % 2]})
    return out


def _glyf_build(d):
    from ufo2ft.instructionCompiler import InstructionCompiler
    from ufo2ft.outlineCompiler import OutlineTTFCompiler

    f = rtlib.build_ufo({"glyphs": d["glyphs"]}, d["ufolib"])
    comp = OutlineTTFCompiler(f)
    comp.setupOtherTables = lambda: None  # compile() up to (not including) the glyf table: head, hmtx, maxp, ... and the glyph-record cache
    comp.importTTX = lambda: None
    comp.compile()
    comp.instructionCompiler = InstructionCompiler(comp.ufo, comp.otf, autoUseMyMetrics=comp.autoUseMyMetrics)  # as setupOtherTables does
    return {"self": comp}


CONTRACTS["ufo2ft.outlineCompiler:OutlineTTFCompiler.setupTable_glyf"].runtime = Runtime(_glyf_cases, _glyf_build, call=lambda fn, a: fn(a["self"]))
CLASSES["C02_TTCompiler"].views["_compiledGlyphs"] = lambda o: o._compiledGlyphs


# =====================================================================================================
# InstructionCompiler.autoUseMyMetrics: USE_MY_METRICS is set on the FIRST component that has the composite's advance width, no 2x2
# transform and no horizontal shift (any vertical shift) and whose base is in hmtx — on no other component, and nothing but that flag bit
# changes (glyph names, offsets and 2x2 parts of the references are not written: "composites keep their references").
# Abstraction as in compileGlyphs: a flags word = the SET of its bit masks, `flags |= USE_MY_METRICS` = union with {0x200}.
# TRUSTED (fontTools): component.getComponentInfo() == (glyphName, (xx, xy, yx, yy, x, y)); components addressed by point numbers
# (`firstPt` / `secondPt`: AttributeError in getComponentInfo, skipped by the code) do not occur in ufo2ft's own output and are not modelled.

_GC6 = ("xx", "xy", "yx", "yy", "x", "y")


def _gcomp_info(ex, st, self, args, kwargs, node):
    return Val(PYOBJ, None, (ex.read_field(st, self, "glyphName"), Val(PYOBJ, None, tuple(ex.read_field(st, self, "t_" + k) for k in _GC6), True)), True)


def _tt2x2(o, i, j):
    return getattr(o, "transform", ((1, 0), (0, 1)))[i][j]


cls("C02_GComp", fields={"glyphName": STR, "flags": Set(INT), **{"t_" + k: REAL for k in _GC6}}, methods={"getComponentInfo": _gcomp_info},
    views={"flags": lambda o: {b for b in (1 << i for i in range(16)) if o.flags & b}, "t_xx": lambda o: _tt2x2(o, 0, 0), "t_xy": lambda o: _tt2x2(o, 0, 1),
           "t_yx": lambda o: _tt2x2(o, 1, 0), "t_yy": lambda o: _tt2x2(o, 1, 1), "t_x": lambda o: o.x, "t_y": lambda o: o.y},
    notes="glyf component record: glyphName, flags (set of bit masks), 2x2 transform and offset")
cls("C02_CompositeRecord", fields={"components": List(Ref("C02_GComp"))}, notes="composite glyf record: its components")
cls("C02_InstrC", fields={"otf": Ref("TTFont")}, repo="ufo2ft.instructionCompiler:InstructionCompiler", notes="InstructionCompiler instance (otf)")

_HM = "self.otf['hmtx'].metrics"
_W = f"{_HM}[glyphName][0]"
_CK = "ttGlyph.components[{k}]"


def _qualifies(k):
    c = _CK.format(k=k)
    return (f"({c}.glyphName in {_HM} and {_HM}[{c}.glyphName][0] == {_W} and {c}.t_xx == 1 and {c}.t_xy == 0 and {c}.t_yx == 0 and {c}.t_yy == 1 and {c}.t_x == 0)")


_NCOMP2 = "len(ttGlyph.components)"
_FIRSTQ = "({q} and all(not {qj} for j in range(k)))".format(q=_qualifies("k"), qj=_qualifies("j"))
contract(
    "ufo2ft.instructionCompiler:InstructionCompiler.autoUseMyMetrics",
    props=["C02"],
    params={"self": Ref("C02_InstrC"), "ttGlyph": Ref("C02_CompositeRecord"), "glyphName": STR},
    globals={"USE_MY_METRICS": Val.const({0x200})},
    modifies=["C02_GComp.flags"],
    requires=["self.otf.get('hmtx') is not None", f"glyphName in {_HM}", "distinct(ttGlyph.components)"],
    ensures={
        # the first qualifying component gets the bit (and nothing else in its flags changes) ...
        "first-qualifying-gets-the-flag": f"all(implies({_FIRSTQ}, {_CK.format(k='k')}.flags == old({_CK.format(k='k')}.flags) | {{512}}) for k in range({_NCOMP2}))",
        # ... every other component keeps its flags
        "others-untouched": f"all(implies(not {_FIRSTQ}, {_CK.format(k='k')}.flags == old({_CK.format(k='k')}.flags)) for k in range({_NCOMP2}))",
    },
    canaries={"never-sets": f"all({_CK.format(k='k')}.flags == old({_CK.format(k='k')}.flags) for k in range({_NCOMP2})) and {_NCOMP2} > 0"},
    ghost_vars={"F0": (List(Set(INT)), "[c.flags for c in ttGlyph.components]")},
    loops={
        "for component in ttGlyph.components": Loop(
            index="i",
            invariants={
                "none-qualified-yet": f"all(not {_qualifies('j')} for j in range(i))",
                "all-untouched": f"all({_CK.format(k='k')}.flags == F0[k] for k in range({_NCOMP2}))",
            },
        )
    },
)


def _aum_cases(rng, n):
    out = []
    for k in range(n):
        glyphs = {}
        for b in ("b0", "b1", "b2"):
            glyphs[b] = {"width": rng.choice([500, 600]), "contours": [[[0, 0, "line"], [100, 0, "line"], [100, 100, "line"]]]}
        comps = []
        for _ in range(rng.randint(1, 4)):
            kind = rng.random()
            t = [1, 0, 0, 1, 0, rng.choice([0, 50, -20])] if kind < 0.5 else [1, 0, 0, 1, rng.choice([10, -30]), 0] if kind < 0.75 else [rng.choice([0.5, -1]), 0, 0, 1, 0, 0]
            comps.append([rng.choice(["b0", "b1", "b2", "b2"]), t])
        glyphs["c"] = {"width": rng.choice([500, 600]), "components": comps}
        out.append({"glyphs": glyphs, "ufolib": ["ufoLib2", "defcon"][k % 2]})
    return out


def _aum_build(d):
    from ufo2ft.instructionCompiler import InstructionCompiler
    from ufo2ft.outlineCompiler import OutlineTTFCompiler

    f = rtlib.build_ufo({"glyphs": d["glyphs"]}, d["ufolib"])
    comp = OutlineTTFCompiler(f)
    comp.autoUseMyMetrics = False  # compile WITHOUT the automatic flag, then run the real method on the finished record
    otf = comp.compile()
    return {"self": InstructionCompiler(f, otf), "ttGlyph": otf["glyf"]["c"], "glyphName": "c"}


CONTRACTS["ufo2ft.instructionCompiler:InstructionCompiler.autoUseMyMetrics"].runtime = Runtime(_aum_cases, _aum_build)

# =====================================================================================================
# flattenComponents._flattenGlyphComponents: the glyph's component list is rebuilt from the flattened references of every component, in
# order; afterwards every component points at a simple-or-mixed glyph of the glyph set (nesting depth <= 1); a glyph whose components
# already do is re-emitted unchanged (same bases, same six numbers, same order) and reported as not flattened.
# TRUSTED (UFO libraries): glyph.clearComponents(); the glyph's point pen's addComponent(base, transformation) appends a NEW component with
# that base and those six numbers.  fontTools' Transform is a NamedTuple: `Transform == 6-tuple` compares the six numbers (eq hook).


def _transform_eq(ex, st, self, other, node):
    """Transform(...) == <6-sequence>: the six numbers agree (NamedTuple / tuple equality)"""
    a = [lift(v, REAL) for v in _six(ex, st, self)]
    b = [lift(v, REAL) for v in _six(ex, st, other, node)]
    return z3.And(*[x == y for x, y in zip(a, b)])


CLASSES["Transform"].eq = _transform_eq


def _fg_clear(ex, st, self, args, kwargs, node):
    c = ex.read_field(st, self, "components")
    ex.write_field(st, self, "components", Val(c.ty, z3.Empty(c.ty.sort())), node)
    return Val.const(None)


_fg_clear.modifies = ["C02_FGlyph.components"]


def _fg_pen(ex, st, self, args, kwargs, node):
    p = ex.new_object(st, "C02_FPen")
    ex.write_field(st, p, "glyph", self, node)
    return p


def _fpen_addComponent(ex, st, self, args, kwargs, node):
    base, tr = args
    g = ex.read_field(st, self, "glyph")
    nc = ex.new_object(st, "C02_Component")
    st.assume(_comp_fn("baseGlyph", z3.StringSort())(lift(nc)) == lift(base, STR))  # the new component's (immutable) attributes
    for k, v in zip(_T6, _six(ex, st, tr, node)):
        st.assume(_comp_fn("t_" + k, z3.RealSort())(lift(nc)) == lift(v, REAL))
    c = ex.read_field(st, g, "components")
    t = lift(c)
    new = z3.Concat(t, z3.Unit(lift(nc)))
    k = z3.Int(fresh_name("ck"))
    st.assume(z3.And(z3.Length(new) == z3.Length(t) + 1, new[z3.Length(t)] == lift(nc), z3.ForAll([k], z3.Implies(z3.And(0 <= k, k < z3.Length(t)), new[k] == t[k]))))
    ex.write_field(st, g, "components", Val(c.ty, new), node)
    return Val.const(None)


_fpen_addComponent.modifies = ["C02_FGlyph.components"]
cls("C02_FPen", fields={"glyph": Ref("C02_FGlyph")}, methods={"addComponent": _fpen_addComponent}, notes="glyph.getPointPen() of a component-only rebuild: addComponent appends a new component")
CLASSES["C02_FGlyph"].methods.update({"clearComponents": _fg_clear, "getPointPen": _fg_pen})

CLASSES["C02_FGlyphSet"].derived["som_names"] = lambda ex, st, self: Val(Set(STR), _som_names_term(ex, st, self))
CLASSES["C02_FGlyphSet"].views["som_names"] = lambda o: {n for n, g in o.items() if not g.components or len(g) > 0}


def _som_names_term(ex, st, self):
    """the names of the glyph set whose glyph is simple or mixed (no components, or some contours) — in the CURRENT heap"""
    d = ex.read_field(st, self, "glyphs")
    s = d.ty.sort()
    n = z3.Const(fresh_name("somn"), z3.StringSort())
    g = z3.Select(s.map(d.term), n)
    comps = z3.Select(ex.field_array(st, "C02_FGlyph", "components"), g)
    ncont = z3.Select(ex.field_array(st, "C02_FGlyph", "ncontours"), g)
    return z3.Lambda([n], z3.And(z3.Select(s.dom(d.term), n), z3.Or(z3.Length(comps) == 0, ncont > 0)))


_OCS = "old(glyph.components)"
_OTHERS_KEPT = "all(implies(glyphSet.glyphs[n] != glyph, glyphSet.glyphs[n].components == old(glyphSet.glyphs[n].components)) for n in glyphSet.names)"
_SAME6 = " and ".join(f"glyph.components[k].t_{x} == {_OCS}[k].t_{x}" for x in _T6)
_NESTED = f"any({_OCS}[a].baseGlyph not in old(glyphSet.som_names) for a in range(len({_OCS})))"
contract(
    _FGC_KEY,
    props=["C02", "C15"],
    params={"glyph": Ref("C02_FGlyph"), "glyphSet": Ref("C02_FGlyphSet")},
    returns=BOOL,
    portfolio=["z3-5.1/ematch", "z3-5.1"],  # pure e-matching closes every obligation of this contract in < 0.5 s; model-based instantiation wanders in the large context
    modifies=["C02_FGlyph.components"],
    requires=[
        _CLOSED,  # no dangling component reference anywhere (otherwise _flattenComponent raises ValueError), contour counts are counts
        "all(glyphSet.glyphs[n].name == n for n in glyphSet.names)",  # the glyph set maps every name to the glyph of that name
        "all(c.baseGlyph in glyphSet.glyphs for c in glyph.components)",
        "all(c.baseGlyph != glyph.name for c in glyph.components)",  # the glyph is not a component of itself
        "glyph.name in glyphSet.glyphs and glyphSet.glyphs[glyph.name] == glyph",
    ],
    ensures={
        "no-components-untouched": f"implies(len({_OCS}) == 0, not result and glyph.components == {_OCS})",
        # DEPTH <= 1: afterwards every component points at a glyph of the glyph set that was (and, being another glyph, still is) simple
        # or mixed — or at this very glyph, which happens exactly on a CYCLIC reference (the recursion then meets the glyph with its
        # component list already cleared and takes it for a leaf)
        "depth-at-most-one": "all(c.baseGlyph in old(glyphSet.som_names) or c.baseGlyph == glyph.name for c in glyph.components)",
        "other-glyphs-untouched": _OTHERS_KEPT,
        # reports a change iff some component's base was a nested composite ...
        "reports-nesting": f"result == ({_NESTED})",
        # ... and otherwise re-emits the components unchanged: same bases, same six numbers, same order
        "already-flat-unchanged": f"implies(not ({_NESTED}), len(glyph.components) == len({_OCS}) and all(glyph.components[k].baseGlyph == {_OCS}[k].baseGlyph and {_SAME6} for k in range(len({_OCS}))))",
    },
    canaries={"always-flattens": "result"},
    locals={"components": List(Ref("C02_Component")), "flattened_tuples": List(_PAIR)},
    ghost_vars={"SOM0": (Set(STR), "glyphSet.som_names"), "C1": (List(Ref("C02_Component")), "[]"), "wn": (INT, "-1")},
    ghost={"flattened_tuples = _flattenComponent(glyphSet, comp, found_in=glyph)": ["C1 = glyph.components"], "flattened = True": ["wn = i"]},
    hints={"flattened_tuples = _flattenComponent(glyphSet, comp, found_in=glyph)": [
        # the base is another glyph, so it is simple-or-mixed NOW iff it was at entry
        "comp == components[i] and (comp.baseGlyph in SOM0) == (len(glyphSet.glyphs[comp.baseGlyph].components) == 0 or glyphSet.glyphs[comp.baseGlyph].ncontours > 0)",
        # the test of the code: the first flattened reference differs from the component itself exactly when the base was a nested composite
        "(flattened_tuples[0] != (comp.baseGlyph, comp.transformation)) == (comp.baseGlyph not in SOM0)",
    ]},
    alias_ok=("C1",),
    loops={
        "for comp in components": Loop(
            index="i",
            invariants={
                "pen": "pen.glyph == glyph",
                "others": _OTHERS_KEPT,
                "closed": "all(c.baseGlyph in glyphSet.glyphs for c in glyph.components)",
                "depth": "all(c.baseGlyph in SOM0 or c.baseGlyph == glyph.name for c in glyph.components)",
                # wn: position of a component whose base was a nested composite (ghost witness), -1 while none was met
                "flag-witness": "flattened == (wn >= 0)",
                "witness": "implies(wn >= 0, wn < i and components[wn].baseGlyph not in SOM0)",
                "none-nested-so-far": "implies(not flattened, all(components[a].baseGlyph in SOM0 for a in range(i)))",
                "flat-len": "implies(not flattened, len(glyph.components) == i)",
                "flat-same": "implies(not flattened, all(glyph.components[k].baseGlyph == components[k].baseGlyph and "
                             + " and ".join(f"glyph.components[k].t_{x} == components[k].t_{x}" for x in _T6) + " for k in range(i)))",
            },
        ),
        "for flattened_tuple in flattened_tuples": Loop(
            index="j",
            invariants={
                "pen": "pen.glyph == glyph",
                "others": _OTHERS_KEPT,
                "appended": "len(glyph.components) == len(C1) + j",
                "kept": "all(glyph.components[k] == C1[k] for k in range(len(C1)))",
                "new-base": "all(glyph.components[k].baseGlyph == flattened_tuples[k - len(C1)][0] for k in range(len(C1), len(C1) + j))",
                **{f"new-{x}": f"all(glyph.components[k].t_{x} == flattened_tuples[k - len(C1)][1].{x} for k in range(len(C1), len(C1) + j))" for x in _T6},
            },
        ),
    },
)


def _views_components(o):
    from pyvc.rt import Proxy

    return [Proxy(c, CLASSES["C02_Component"]) for c in o.components]  # proxies: `==` is object identity, also against old() snapshots


CLASSES["C02_FGlyph"].views["components"] = _views_components


def _fgc_cases(rng, n):
    from vcheck.hooks import c15_render as R

    out = []
    for k in range(n):
        desc = R.rand_graph(rng, n_base=2, n_comp=rng.randint(1, 5), depth=4, curves=None, mixed=True)
        out.append({"glyphs": desc, "glyph": rng.choice(sorted(desc)), "ufolib": ["ufoLib2", "defcon"][k % 2]})
    return out


def _fgc_build(d):
    f = rtlib.build_ufo({"glyphs": d["glyphs"]}, d["ufolib"])
    gs = {g.name: g for g in f}
    return {"glyph": gs[d["glyph"]], "glyphSet": gs}


CONTRACTS[_FGC_KEY].runtime = Runtime(_fgc_cases, _fgc_build)

# FlattenComponentsFilter.filter: the per-glyph entry point of the filter is exactly _flattenGlyphComponents on the context's glyph set
cls("C02_FCtx", fields={"glyphSet": Ref("C02_FGlyphSet")}, notes="filter context (glyphSet)")
cls("C02_FFilter", fields={"context": Ref("C02_FCtx")}, notes="FlattenComponentsFilter instance")
_FS = "self.context.glyphSet"
contract(
    "ufo2ft.filters.flattenComponents:FlattenComponentsFilter.filter",
    props=["C02", "C15"],
    params={"self": Ref("C02_FFilter"), "glyph": Ref("C02_FGlyph")},
    returns=BOOL,
    modifies=["C02_FGlyph.components"],
    requires=[r.replace("glyphSet", _FS) for r in CONTRACTS[_FGC_KEY].requires],
    ensures={
        "depth-at-most-one": f"all(c.baseGlyph in old({_FS}.som_names) or c.baseGlyph == glyph.name for c in glyph.components)",
        "reports-nesting": "result == (" + _NESTED.replace("glyphSet", _FS) + ")",
        "other-glyphs-untouched": _OTHERS_KEPT.replace("glyphSet", _FS),
    },
    canaries={"always-flattens": "result"},
)

# flattenComponents._haveNestedComponents (the interpolatable filter's test): a pure-composite glyph some component of which points at a
# glyph of the glyph set that itself has components
contract(
    "ufo2ft.filters.flattenComponents:_haveNestedComponents",
    props=["C02", "C15"],
    params={"glyph": Ref("C02_FGlyph"), "glyphSet": Ref("C02_FGlyphSet")},
    returns=BOOL,
    requires=["glyph.ncontours >= 0"],
    ensures={"def": "result == (len(glyph.components) > 0 and glyph.ncontours == 0 and "
                    "any(c.baseGlyph in glyphSet.glyphs and len(glyphSet.glyphs[c.baseGlyph].components) > 0 for c in glyph.components))"},
    canaries={"never": "not result"},
)
