"""C18 (second wave) — the data-reading helpers of the cursive writer under deductive contract:

  * BaseFeatureWriter._getAnchor, variant #c18_CW        (the same contract as #c18_DW, for a CursFeatureWriter receiver)
  * CursFeatureWriter._getAnchors                        entry / exit anchor NULL iff the (font's) glyph has no anchor of that name, else an
                                                         `Anchor` node at the otRound-ed coordinates of an anchor of that name
  * CursFeatureWriter._getCursiveAnchorPairs             ("entry","exit") / ("entry.S","exit.S") listed iff BOTH names occur among the glyphs'
                                                         anchors, in increasing order of the entry name

Finding F-C18-a (notes/C18.md; repaired in /repo b1c4f33): `_getCursiveAnchorPairs` called `.startswith` on every anchor name, an UNNAMED
anchor (UFO allows it) raised AttributeError and took the whole compile down.  Anchor names are Optional[str] here; that the collected set
holds no None is an obligation of the contract (`safe.TypeError` of the set model, contracts/c06sets.py).
"""
import z3

from fontTools.misc.fixedTools import otRound  # noqa: F401

from pyvc import ty as T
from pyvc.api import BOOL, CLASSES, CONTRACTS, INT, REAL, STR, Const, Dict, List, Loop, Opt, Ref, Runtime, Set, Tuple, cls, contract, specfn
from pyvc.core import Val

from . import c17_model as M
from . import c18gdef as G
from .c17_model import NODE

# feaLib `Anchor(x, y)` nodes: the two coordinates as declared fields (so that callers of _getAnchors can read them through its contract)
CLASSES[NODE].fields.setdefault("x", INT)
CLASSES[NODE].fields.setdefault("y", INT)
cls("c18_CW", fields={"context": Ref("c18_DCtx"), "options": Ref("c18_DOpts")}, repo="ufo2ft.featureWriters.cursFeatureWriter:CursFeatureWriter",
    notes="a CursFeatureWriter with its context set")

_GA_KEY = "ufo2ft.featureWriters.baseFeatureWriter:BaseFeatureWriter._getAnchor"
_src = CONTRACTS[_GA_KEY + "#c18_DW"]
contract(
    _GA_KEY,
    name="c18_CW",
    props=["C18"],
    params={**_src.params, "self": Ref("c18_CW")},
    returns=_src.returns,
    requires=list(_src.requires),
    ensures=dict(_src.ensures),
    canaries=dict(_src.canaries),
    locals=dict(_src.locals),
)

# ---- _firstAnchorNamed, _getAnchors -----------------------------------------------------------------------------------------------------------
# Since /repo 7e69b18 the exported glyph is passed in and the coordinates are those of ITS first anchor of the name (before: looked up by name in
# the context's font, finding F-C18-b).  If the exported glyph has no anchor of the name the code still falls back to the font's glyph.
_G = "glyph.anchors"
contract(
    "ufo2ft.featureWriters.cursFeatureWriter:CursFeatureWriter._firstAnchorNamed",
    props=["C18"],
    params={"glyph": Ref("c18_UGlyph"), "anchorName": STR},
    returns=Opt(Ref("c18_UAnchor")),
    ensures={
        "none-iff-no-such-anchor": f"iff(result is None, not any({_G}[b].name == anchorName for b in range(len({_G}))))",
        # the FIRST anchor of that name
        "first-of-that-name": f"implies(result is not None, any({_G}[f] == result and {_G}[f].name == anchorName and all({_G}[b].name != anchorName for b in range(f)) for f in range(len({_G}))))",
    },
    canaries={"always-none": "result is None"},
    loops={"for anchor in glyph.anchors": Loop(index="i", invariants={"none-so-far": f"all({_G}[b].name != anchorName for b in range(i))"})},
)

_FG = "self.context.font.glyphs"
_A = f"{_FG}[glyphName].anchors"


def _own(nm):
    """the exported glyph is given and has an anchor of that name"""
    return f"(glyph is not None and any({_G}[b].name == {nm}Name for b in range(len({_G}))))"


def _side(k, nm):
    r = f"result[{k}]"
    return {
        # the exported glyph's own FIRST anchor of the name, rounded (contour-less glyphs included: the test is `glyph is not None`)
        f"{nm}-at-own-rounded-coordinates": f"implies({_own(nm)}, {r} is not None and {r}.kind == 'Anchor' and any({_G}[f].name == {nm}Name and all({_G}[b].name != {nm}Name for b in range(f))"
        f" and {r}.x == c18_round({_G}[f].x) and {r}.y == c18_round({_G}[f].y) for f in range(len({_G}))))",
        # otherwise (no glyph given, or it has no such anchor): looked up by name in the context's font
        f"{nm}-fallback-null-iff-no-such-anchor": f"implies(not {_own(nm)}, iff({r} is None, glyphName not in {_FG} or not any({_A}[b].name == {nm}Name for b in range(len({_A})))))",
        f"{nm}-fallback-at-rounded-coordinates": f"implies(not {_own(nm)} and {r} is not None, {r}.kind == 'Anchor' and any({_A}[b].name == {nm}Name"
        f" and {r}.x == c18_round({_A}[b].x) and {r}.y == c18_round({_A}[b].y) for b in range(len({_A}))))",
    }


contract(
    "ufo2ft.featureWriters.cursFeatureWriter:CursFeatureWriter._getAnchors",
    props=["C18"],
    params={"self": Ref("c18_CW"), "glyphName": STR, "entryName": STR, "exitName": STR, "glyph": Opt(Ref("c18_UGlyph"))},
    returns=Tuple(Opt(Ref(NODE)), Opt(Ref(NODE))),
    globals={"ast": M.fea_shim(), "isinstance": M.ISINSTANCE},
    requires=["not self.context.isVariable"],
    merge_branches=False,
    ensures={**_side(0, "entry"), **_side(1, "exit"),
             "two-nodes": "implies(result[0] is not None and result[1] is not None, result[0] != result[1])"},
    canaries={"exit-not-rounded": "result[1] is None or result[1].x == 0"},  # (one canary: it is checked on each of the eight paths)
    locals={"entryAnchor": Opt(Ref(NODE)), "exitAnchor": Opt(Ref(NODE)), "entry": Opt(Ref("c18_UAnchor")), "exit_": Opt(Ref("c18_UAnchor"))},
)

# The same function, only WHICH sides exist (no coordinates): what `_makeCursiveStatements#records` needs of its callee.  Proved against the same
# body; callers that do not read coordinates call through this variant (fewer quantified hypotheses on their paths).
_GAS = "ufo2ft.featureWriters.cursFeatureWriter:CursFeatureWriter._getAnchors"


def _side_presence(k, nm):
    r = f"result[{k}]"
    return {
        f"{nm}-null-iff-no-such-anchor": f"iff({r} is None, not ({_own(nm)} or (glyphName in {_FG} and any({_A}[b].name == {nm}Name for b in range(len({_A}))))))",
        f"{nm}-is-an-anchor-node": f"implies({r} is not None, {r}.kind == 'Anchor')",
    }


contract(
    _GAS,
    name="presence",
    props=["C18"],
    params=dict(CONTRACTS[_GAS].params),
    returns=CONTRACTS[_GAS].returns,
    globals={"ast": M.fea_shim(), "isinstance": M.ISINSTANCE},
    requires=["not self.context.isVariable"],
    merge_branches=False,
    ensures={**_side_presence(0, "entry"), **_side_presence(1, "exit"),
             "two-nodes": "implies(result[0] is not None and result[1] is not None, result[0] != result[1])"},
    canaries={"entry-always-null": "result[0] is None"},
    locals=dict(CONTRACTS[_GAS].locals),
)

# ---- _getCursiveAnchorPairs ------------------------------------------------------------------------------------------------------------------
from .c06sets import NAMESET, NAMESET_CTOR  # noqa: E402

PAIRS = List(Tuple(STR, STR))
ITEMS = List(Tuple(STR, Ref("c18_UGlyph")))  # what `orderedGlyphSet.items()` yields
GCP = "ufo2ft.featureWriters.cursFeatureWriter:CursFeatureWriter._getCursiveAnchorPairs"
UPD = "anchors.update((a.name for a in glyph.anchors if a.name))"
LOOP1 = "for (_, glyph) in glyphs"
LOOP2 = "for anchor in anchors"


_NM = "glyphs[a][1].anchors[b].name"
_IF2 = "if anchor.startswith('entry.') and f'exit.{anchor[6:]}' in anchors:"


def _occurs(nm, bound="len(glyphs)"):
    """some anchor of some glyph has exactly this name"""
    return f"any(any(glyphs[a2][1].anchors[b2].name == {nm} for b2 in range(len(glyphs[a2][1].anchors))) for a2 in range({bound}))"


def _pair_ok(p):
    return (f"(({p}[0] == 'entry' and {p}[1] == 'exit') or (c18_is_suffixed_entry({p}[0]) and {p}[1] == c18_exit_of({p}[0])))")


# `anchors` as a set OBJECT (contracts/c06sets.py): `set()` creates it, `update(<generator>)` is the union with the generator's image set
GCP_COMMON = dict(props=["C18"], params={"glyphs": ITEMS}, returns=PAIRS, merge_branches=False, modifies=[NAMESET + ".elems"], dict_key_positions=False)


# sorted() of a list of pairs of str: Python compares tuples lexicographically; the facts used here: same length, same elements, and the FIRST
# components are in non-decreasing order (a consequence of the lexicographic order).  Each contract variant assumes only the part it needs
# (`parts`): the unused facts about sequences are what slows z3-5.1 down.
from pyvc.symex import FuncRef  # noqa: E402


def make_sorted_pairs(tag, parts=("from", "back", "order", "contains")):
    @M.shim_function(
        "sorted_pairs_" + tag,
        "sorted(xs) for a list of (str, str) tuples: a list r with len(r) == len(xs), every r[k] is some xs[j] [from] and every xs[j] is some r[k] [back], r[k1][0] <= r[k2][0] for "
        "k1 < k2 [order] and `p in r` iff `p in xs` [contains] (consequences of: sorted returns the lexicographically sorted permutation)  [this variant: length, " + ", ".join(parts) + "]",
    )
    def _sorted_pairs(ex, st, args, kwargs, node):
        from pyvc.core import Unsupported, fresh_name, lift

        (v,) = args
        if kwargs or v.ty != PAIRS:
            raise Unsupported(f"sorted() of {v.ty}", node)
        s = lift(v)
        r = z3.Function("c18_sorted_pairs", PAIRS.sort(), PAIRS.sort())(s)
        if ("c18sorted", tag, r.get_id()) in st.ghost:
            return Val(PAIRS, r)
        st.ghost[("c18sorted", tag, r.get_id())] = r
        k, j, k2 = z3.Int(fresh_name("sk")), z3.Int(fresh_name("sj")), z3.Int(fresh_name("sk2"))
        first = PAIRS.elem.sort().accessor(0, 0)
        st.assume(z3.Length(r) == z3.Length(s))
        # (the permutation and its inverse as functions: position k of the result holds element sigma(k) of the argument, and back)
        sigma = z3.Function(fresh_name("sigma"), z3.IntSort(), z3.IntSort())
        tau = z3.Function(fresh_name("tau"), z3.IntSort(), z3.IntSort())
        if "from" in parts:
            st.assume(z3.ForAll([k], z3.Implies(z3.And(0 <= k, k < z3.Length(r)), z3.And(0 <= sigma(k), sigma(k) < z3.Length(s), r[k] == s[sigma(k)]))))
            if "back" in parts:  # (inverse laws: the two facts do not instantiate each other for ever)
                st.assume(z3.ForAll([k], z3.Implies(z3.And(0 <= k, k < z3.Length(r)), tau(sigma(k)) == k)))
                st.assume(z3.ForAll([j], z3.Implies(z3.And(0 <= j, j < z3.Length(s)), sigma(tau(j)) == j)))
        if "back" in parts:
            st.assume(z3.ForAll([j], z3.Implies(z3.And(0 <= j, j < z3.Length(s)), z3.And(0 <= tau(j), tau(j) < z3.Length(r), r[tau(j)] == s[j]))))
        if "order" in parts:
            st.assume(z3.ForAll([k, k2], z3.Implies(z3.And(0 <= k, k < k2, k2 < z3.Length(r)), first(r[k]) <= first(r[k2]))))
        if "contains" in parts:
            x = z3.Const(fresh_name("sx"), PAIRS.elem.sort())
            st.assume(z3.ForAll([x], z3.Contains(r, z3.Unit(x)) == z3.Contains(s, z3.Unit(x))))  # `p in sorted(xs)` iff `p in xs`
        return Val(PAIRS, r)

    return M.native_global(Val.obj(FuncRef(_sorted_pairs, "c17shim.sorted_pairs_" + tag)), sorted)


SORTED_PAIRS = make_sorted_pairs("full")
_GLOBALS = {"sorted": SORTED_PAIRS, "set": NAMESET_CTOR}

contract(
    GCP,
    name="only",
    **GCP_COMMON,
    globals={**_GLOBALS, "sorted": make_sorted_pairs("from", ("from", "back"))},
    ensures={
        # a pair is listed only if it has one of the two shapes and BOTH names occur among the glyphs' anchors
        "pair-shapes": "all(" + _pair_ok("result[k]") + " for k in range(len(result)))",
        "entry-name-occurs": "all(" + _occurs("result[k][0]") + " for k in range(len(result)))",
        "exit-name-occurs": "all(" + _occurs("result[k][1]") + " for k in range(len(result)))",
    },
    canaries={"empty": "len(result) == 0"},
    locals={"anchors": Ref(NAMESET), "anchorPairs": PAIRS},
    hints={_IF2: ["c18_exit_of(anchor) == 'exit.' + anchor[6:] and c18_is_suffixed_entry(anchor) == anchor.startswith('entry.')"]},
    loops={
        LOOP1: Loop(index="i", invariants={"names-occur": "all(" + _occurs("n", "i") + " for n in anchors)"}),
        LOOP2: Loop(done="D", invariants={
            "shapes": "all(" + _pair_ok("anchorPairs[k]") + " for k in range(len(anchorPairs)))",
            "entry-occurs": "all(" + _occurs("anchorPairs[k][0]") + " for k in range(len(anchorPairs)))",
            "exit-occurs": "all(" + _occurs("anchorPairs[k][1]") + " for k in range(len(anchorPairs)))",
        }),
    },
)

contract(
    GCP,
    name="order",
    **GCP_COMMON,
    globals={**_GLOBALS, "sorted": make_sorted_pairs("order", ("order",))},
    ensures={"increasing-entry-names": "all(all(implies(k1 < k2, result[k1][0] <= result[k2][0]) for k2 in range(len(result))) for k1 in range(len(result)))"},
    canaries={"strictly": "all(result[k][0] < result[k + 1][0] for k in range(len(result) - 1))"},
    locals={"anchors": Ref(NAMESET), "anchorPairs": PAIRS},
    loops={LOOP1: Loop(index="i", invariants={}), LOOP2: Loop(done="D", invariants={})},
)

# The two string computations of the loop, as NAMED functions: under a quantifier they stay uninterpreted symbols (string theory under
# quantifiers is where the solvers time out), at the ground terms of an obligation their defining equations are unfolded.  (The never-taken
# self-call only marks them as "recursive" for the engine, which is what makes it treat them as symbols with definitions instead of macros.)
@specfn(STR, n=STR)
def c18_exit_of(n):
    """the exit anchor name that pairs with the entry anchor name n = 'entry.' + S:  'exit.' + S"""
    if len(n) < 0:
        return c18_exit_of(n)
    return "exit." + n[6:]


@specfn(BOOL, n=STR)
def c18_is_suffixed_entry(n):
    if len(n) < 0:
        return c18_is_suffixed_entry(n)
    return n.startswith("entry.")


_NMS = "(glyphs[a][1].anchors[b].name + '')"  # the same name as a str (it is not None where this is used)
contract(
    GCP,
    name="every",
    **GCP_COMMON,
    globals=_GLOBALS,
    ensures={
        # the plain pair is listed if both plain names occur; a suffixed pair is listed if both suffixed names occur
        "plain-pair-if-both-occur": "implies(" + _occurs("'entry'") + " and " + _occurs("'exit'") + ", ('entry', 'exit') in result)",
        # (the two `!= ''` are redundant natively — 'entry.S' and 'exit.S' are never empty — and spare the solvers the definitions under the quantifier)
        "suffixed-pair-if-both-occur": "all(all(implies(" + _NM + " is not None and " + _NM + " != '' and c18_is_suffixed_entry(" + _NM + ") and c18_exit_of(" + _NM + ") != '' and " + _occurs("c18_exit_of(" + _NM + ")")
        + ", (" + _NMS + ", c18_exit_of(" + _NM + ")) in result)"
        " for b in range(len(glyphs[a][1].anchors))) for a in range(len(glyphs)))",
    },
    canaries={"empty": "len(result) == 0"},
    locals={"anchors": Ref(NAMESET), "anchorPairs": PAIRS},
    hints={
        _IF2: ["c18_exit_of(anchor) == 'exit.' + anchor[6:] and c18_is_suffixed_entry(anchor) == anchor.startswith('entry.')"],
        # after the second loop: the postcondition about `anchorPairs` (before sorting), in three steps
        "for anchor in anchors:": [
            "all(all(implies(" + _NM + " is not None and " + _NM + " != '' and c18_exit_of(" + _NM + ") != '' and " + _occurs("c18_exit_of(" + _NM + ")") + ", c18_exit_of(" + _NM + ") in anchors)"
            " for b in range(len(glyphs[a][1].anchors))) for a in range(len(glyphs)))",
            "all(implies(c18_is_suffixed_entry(n) and c18_exit_of(n) in anchors, (n, c18_exit_of(n)) in anchorPairs) for n in anchors)",
            "all(all(implies(" + _NM + " is not None and " + _NM + " != '' and c18_is_suffixed_entry(" + _NM + ") and c18_exit_of(" + _NM + ") != '' and " + _occurs("c18_exit_of(" + _NM + ")")
            + ", (" + _NMS + ", c18_exit_of(" + _NM + ")) in anchorPairs)"
            " for b in range(len(glyphs[a][1].anchors))) for a in range(len(glyphs)))",
        ],
    },
    loops={
        LOOP1: Loop(index="i", invariants={
            # every non-empty anchor name seen so far is in the set
            "all-names": "all(all(implies(glyphs[a][1].anchors[b].name is not None and glyphs[a][1].anchors[b].name != '', glyphs[a][1].anchors[b].name in anchors)"
            " for b in range(len(glyphs[a][1].anchors))) for a in range(i))",
        }),
        LOOP2: Loop(done="D", invariants={
            "plain-kept": "implies('entry' in anchors and 'exit' in anchors, ('entry', 'exit') in anchorPairs)",
            "suffixed-done": "all(implies(c18_is_suffixed_entry(n) and c18_exit_of(n) in anchors, (n, c18_exit_of(n)) in anchorPairs) for n in D)",
        }),
    },
)


# ---- run-time side: real CursFeatureWriter objects on small UFOs -------------------------------------------------------------------------
_CURS_ANCHORS = ["entry", "exit", "entry.LTR", "exit.LTR", "entry.RTL", "exit.RTL", "entry.1", "exit.1", "exit.2", "top", "entryx", "entry.", "exit."]
_CURS_GLYPHS = ["a", "b", "c", "beh-ar", "skipped"]


def curs_cases(rng, n):
    out = []
    for _ in range(n):
        glyphs = {}
        for nm in _CURS_GLYPHS:
            names = rng.sample(_CURS_ANCHORS, rng.randint(0, 3))
            if rng.random() < 0.15 and names:
                names.append(names[0])  # duplicate name: the first anchor of the name counts
            if rng.random() < 0.2:
                names.insert(rng.randint(0, len(names)), None)  # an unnamed anchor (F-C18-a: used to crash the writer)
            g = {"anchors": [[an, rng.choice([0, 10.5, 100, 99.5, -3.5]), rng.choice([0, 200, 200.5])] for an in names]}
            if rng.random() < 0.6:
                g["box"] = [0, 0, 100, 100]  # the others have NO contour: `bool(glyph)` is False for them (the first repair tested truthiness)
            glyphs[nm] = g
        out.append({"glyphs": glyphs, "skip": rng.choice([[], ["skipped"], ["skipped", "c"]]), "g": rng.choice(_CURS_GLYPHS + ["ghost"]),
                    "pair": rng.choice([["entry", "exit"], ["entry.LTR", "exit.LTR"], ["entry.1", "exit.1"], ["entry.", "exit."]]),
                    "shift": rng.choice([0, 0, 100]), "pass_glyph": rng.random() < 0.8})
    return out


def curs_writer(d):
    import logging

    from ufo2ft.featureWriters import CursFeatureWriter

    from . import c17, rtlib

    logging.getLogger("ufo2ft").setLevel(logging.CRITICAL)
    ufo = rtlib.build_ufo({"glyphs": d["glyphs"], "lib": {"public.skipExportGlyphs": list(d["skip"])} if d["skip"] else {}})
    w = CursFeatureWriter()
    w.setContext(ufo, c17.parse_fea(""))
    return w


def _exported_copy(w, name, shift):
    """the glyph as a glyph-set filter would hand it over: a COPY of the font's glyph whose anchors are moved by `shift`"""
    import copy

    if name not in w.context.font:
        return None
    g = copy.deepcopy(w.context.font[name])
    for a in g.anchors:
        a.x += shift
    return g


def _getanchors_build(d):
    w = curs_writer(d)
    glyph = _exported_copy(w, d["g"], d["shift"]) if d["pass_glyph"] else None
    return {"self": w, "glyphName": d["g"], "entryName": d["pair"][0], "exitName": d["pair"][1], "glyph": glyph}


CONTRACTS["ufo2ft.featureWriters.cursFeatureWriter:CursFeatureWriter._getAnchors"].runtime = Runtime(
    curs_cases, _getanchors_build, call=lambda fn, a: M.P(fn(a["self"], a["glyphName"], a["entryName"], a["exitName"], glyph=a["glyph"])))
CONTRACTS[_GA_KEY + "#c18_CW"].runtime = Runtime(G.getanchor_cases, lambda d: G.getanchor_build({**d, "g": d["g"]}, writer=lambda dd: curs_writer({**dd, "skip": dd["skip"]})),
                                                  call=lambda fn, a: fn(a["self"], a["glyphName"], a["anchorName"], anchor=a["anchor"]))
for _v in ("only", "order", "every"):
    CONTRACTS[GCP + "#" + _v].runtime = Runtime(curs_cases, lambda d: {"glyphs": list(curs_writer(d).getOrderedGlyphSet().items())}, call=lambda fn, a: fn(a["glyphs"]))


def _first_build(d):
    w = curs_writer(d)
    g = _exported_copy(w, d["g"] if d["g"] in w.context.font else "a", d["shift"])
    return {"glyph": g, "anchorName": d["pair"][0]}


CONTRACTS["ufo2ft.featureWriters.cursFeatureWriter:CursFeatureWriter._firstAnchorNamed"].runtime = Runtime(curs_cases, _first_build, call=lambda fn, a: fn(a["glyph"], a["anchorName"]))


# ---- _makeCursiveStatements ---------------------------------------------------------------------------------------------------------------
# One record per glyph (in glyph order) that has at least one of the two anchors; the record's glyph is a GlyphName of that glyph's name and its
# two sides are exactly the nodes `_getAnchors` returned for it (NULL on the missing side).  What those nodes are is `_getAnchors`' own
# contract (called here through it); the clauses below restate its postcondition for the glyph of every record.
MCS = "ufo2ft.featureWriters.cursFeatureWriter:CursFeatureWriter._makeCursiveStatements"
VAL2 = Tuple(Opt(Ref(NODE)), Opt(Ref(NODE)))
MCS_LOCALS = {"cursiveAnchors": Dict(Ref(NODE), VAL2), "statements": List(Ref(NODE)), "src": List(INT), "K0": List(Ref(NODE)), "c0": Dict(Ref(NODE), VAL2), "s0": List(INT)}
MCS_LOOP1 = "for glyph in glyphs"
MCS_LOOP2 = "for (glyphName, anchors) in cursiveAnchors.items()"
MCS_PUT = "cursiveAnchors[ast.GlyphName(glyph.name)] = (entryAnchor, exitAnchor)"
MCS_GET = "entryAnchor, exitAnchor = self._getAnchors(glyph.name, entryName, exitName, glyph=glyph)"
CLASSES[NODE].fields.setdefault("glyphclass", Ref(NODE))
CLASSES[NODE].fields.setdefault("entryAnchor", Opt(Ref(NODE)))
CLASSES[NODE].fields.setdefault("exitAnchor", Opt(Ref(NODE)))
_KS = "list(cursiveAnchors)"


def _has_own(g, nm):
    return f"any({g}.anchors[b].name == {nm}Name for b in range(len({g}.anchors)))"


def _font_has(g, nm):
    FA = f"{_FG}[{g}.name].anchors"
    return f"({g}.name in {_FG} and any({FA}[b].name == {nm}Name for b in range(len({FA}))))"


def _present(g, nm):
    """`_getAnchors(g.name, .., glyph=g)` returns a node on this side: the exported glyph has an anchor of the name, or (fall-back) the font's glyph has"""
    return f"({_has_own(g, nm)} or {_font_has(g, nm)})"


def _coords(node, g, nm):
    """the node's coordinates: the exported glyph's own first anchor of the name, else (fall-back) an anchor of the name of the font's glyph — rounded
    (only the x / y fields of the node are read: no field that the function writes, so the fact survives the creation of further nodes as it is)"""
    GA, FA = f"{g}.anchors", f"{_FG}[{g}.name].anchors"
    return (f"(ite({_has_own(g, nm)},"
            f" any({GA}[f].name == {nm}Name and all({GA}[b].name != {nm}Name for b in range(f)) and {node}.x == c18_round({GA}[f].x) and {node}.y == c18_round({GA}[f].y) for f in range(len({GA}))),"
            f" any({FA}[b].name == {nm}Name and {node}.x == c18_round({FA}[b].x) and {node}.y == c18_round({FA}[b].y) for b in range(len({FA})))))")


def _rec(stmt, g):
    """statement `stmt` is the cursive record of glyph g"""
    return (f"({stmt}.kind == 'CursivePosStatement' and {stmt}.glyphclass.kind == 'GlyphName' and {stmt}.glyphclass.glyph == {g}.name"
            f" and iff({stmt}.entryAnchor is None, not {_present(g, 'entry')}) and iff({stmt}.exitAnchor is None, not {_present(g, 'exit')})"
            f" and implies({stmt}.entryAnchor is not None, {_coords(stmt + '.entryAnchor', g, 'entry')})"
            f" and implies({stmt}.exitAnchor is not None, {_coords(stmt + '.exitAnchor', g, 'exit')}))")


def _entry(k, v, g):
    """dict entry (key node k, value pair v) is the pending record of glyph g"""
    return (f"({k}.kind == 'GlyphName' and {k}.glyph == {g}.name"
            f" and iff({v}[0] is None, not {_present(g, 'entry')}) and iff({v}[1] is None, not {_present(g, 'exit')})"
            f" and implies({v}[0] is not None, {_coords(v + '[0]', g, 'entry')})"
            f" and implies({v}[1] is not None, {_coords(v + '[1]', g, 'exit')}))")


_ORDER = "all(src[p1] < src[p1 + 1] for p1 in range(len(src) - 1))"  # strictly increasing (adjacent positions)
_V = f"cursiveAnchors[{_KS}[p]]"
MCS_REGISTERED = True  # (engine request C18-13, done: references inside tuple-typed call results are allocated)
MCS_COMMON = dict(
    props=["C18"] if MCS_REGISTERED else [],
    params={"self": Ref("c18_CW"), "glyphs": List(Ref("c18_UGlyph")), "entryName": STR, "exitName": STR},
    returns=List(Ref(NODE)),
    globals={"ast": M.fea_shim(), "isinstance": M.ISINSTANCE},
    requires=["not self.context.isVariable"],
    merge_branches=False,
    # (the key-position Skolem fact and "every position holds a key" instantiate each other; that the GlyphName node created in an iteration is a NEW key
    # follows from the membership-form invariant `old-keys` instead)
    dict_key_positions=False,
    calls={_GAS: _GAS + "#presence"},  # (#entry / #exit below read the coordinates: they call through the full contract)
    # (new nodes only; declared as the fields they are stored in because the loop havoc is per field)
    modifies=["c17_Node.kind", "c17_Node.glyph", "c17_Node.glyphclass", "c17_Node.entryAnchor", "c17_Node.exitAnchor"],
    locals=MCS_LOCALS,
    # src[k]: the position (in `glyphs`) of the glyph of record k; K0 / c0: the dict's key list / the dict at the start of this iteration — ghosts
    ghost_vars={"src": (List(INT), "[]"), "K0": (List(Ref(NODE)), "[]"), "c0": (Dict(Ref(NODE), VAL2), "{}"), "s0": (List(INT), "[]")},
    ghost={MCS_PUT: ["src = src + [i]"], MCS_GET: ["K0 = list(cursiveAnchors) + []", "c0 = {**cursiveAnchors}", "s0 = src + []"]},
    hints={MCS_PUT: [
        # the one new entry sits at the end; the earlier entries are untouched
        f"len({_KS}) == len(K0) + 1",
        f"all({_KS}[p] == K0[p] for p in range(len(K0)))",
        f"cursiveAnchors[{_KS}[len(K0)]][0] == entryAnchor and cursiveAnchors[{_KS}[len(K0)]][1] == exitAnchor",
        f"{_KS}[len(K0)].kind == 'GlyphName' and {_KS}[len(K0)].glyph == glyph.name and allocated({_KS}[len(K0)])",
        f"all(cursiveAnchors[K0[p]] == c0[K0[p]] for p in range(len(K0)))",
        "len(src) == len(s0) + 1 and len(s0) == len(K0) and src[len(K0)] == i and all(src[p] == s0[p] for p in range(len(s0)))",
    ]},
)
# shared by the variants: one dict entry per recorded glyph, keyed by a GlyphName node of ITS name (the keys are distinct objects)
_INV1 = {
    "old-keys": "all(allocated(kn) for kn in cursiveAnchors)",
    "len": f"len(src) == len(cursiveAnchors) and len(cursiveAnchors) == len({_KS})",
    "bound": "all(0 <= src[p] and src[p] < i for p in range(len(src)))",
    "keys": f"all(allocated({_KS}[p]) and allocated({_V}[0]) and allocated({_V}[1]) and {_KS}[p].kind == 'GlyphName' and {_KS}[p].glyph == glyphs[src[p]].name"
    f" and ({_V}[0] is None or {_V}[0].kind == 'Anchor') and ({_V}[1] is None or {_V}[1].kind == 'Anchor') for p in range(len({_KS})))",
}
_INV2 = {
    "len": "len(statements) == t",
    "shape": "all(allocated(statements[u]) and statements[u].kind == 'CursivePosStatement' and statements[u].glyphclass == KK[u] and statements[u].entryAnchor == cursiveAnchors[KK[u]][0]"
    " and statements[u].exitAnchor == cursiveAnchors[KK[u]][1] for u in range(t))",
    # (the fields of the nodes are havocked by the loop: the facts of the first loop about the dict's nodes are carried along)
    "keys": _INV1["keys"],
}
_SHAPE = "all(result[k].kind == 'CursivePosStatement' and result[k].glyphclass.kind == 'GlyphName' and result[k].glyphclass.glyph == glyphs[src[k]].name for k in range(len(result)))"


def _null_iff(node_e, node_x, g):
    return f"(iff({node_e} is None, not {_present(g, 'entry')}) and iff({node_x} is None, not {_present(g, 'exit')}) and ({node_e} is not None or {node_x} is not None))"


contract(
    MCS,
    name="records",
    **MCS_COMMON,
    ensures={
        "record-positions": "len(src) == len(result) and all(0 <= src[k] and src[k] < len(glyphs) for k in range(len(result)))",
        "record-of-its-glyph": _SHAPE,
        "at-least-one-side": "all(result[k].entryAnchor is not None or result[k].exitAnchor is not None for k in range(len(result)))",
    },
    canaries={"never-empty": "len(result) > 0", "entry-always": "all(result[k].entryAnchor is not None for k in range(len(result)))"},
    loops={
        MCS_LOOP1: Loop(index="i", invariants={
            **_INV1,
            "one-side": f"all({_V}[0] is not None or {_V}[1] is not None for p in range(len({_KS})))",
        }),
        MCS_LOOP2: Loop(index="t", seq="KK", invariants={**_INV2, "len1": _INV1["len"]}),
    },
)

# Glyph order as its own variant (the adjacent form `src[p] < src[p + 1]` keeps producing the next position: a chain of instances that slowed
# every other obligation of the function down when it was a hypothesis of all of them).
_SLIM_HINTS = {MCS_PUT: [MCS_COMMON["hints"][MCS_PUT][0], MCS_COMMON["hints"][MCS_PUT][1], MCS_COMMON["hints"][MCS_PUT][5]]}
_OLD_KEYS = _INV1["old-keys"]  # (so that the GlyphName node created next is a NEW key)
contract(
    MCS,
    name="order",
    **{**MCS_COMMON, "hints": _SLIM_HINTS},
    ensures={"records-in-glyph-order": "len(src) == len(result) and " + _ORDER},
    canaries={"never-empty": "len(result) > 0"},
    loops={
        MCS_LOOP1: Loop(index="i", invariants={"len": _INV1["len"], "old-keys": _OLD_KEYS, "bound": _INV1["bound"], "order": _ORDER}),
        MCS_LOOP2: Loop(index="t", seq="KK", invariants={"len": _INV2["len"], "len1": _INV1["len"]}),
    },
)

# Completeness as its own variant: together with `keys` (which mentions glyphs[src[p]]) the Skolem witness of "some record position holds a" is a
# matching loop for z3-5.1 (60 000 instances, every obligation of the function fell through to cvc5).  This variant carries only what it needs.
_ANY = "(" + _present("glyphs[a]", "entry") + " or " + _present("glyphs[a]", "exit") + ")"
contract(
    MCS,
    name="complete",
    **{**MCS_COMMON, "hints": _SLIM_HINTS,
       "locals": {**MCS_LOCALS, "pos": Dict(INT, INT)},
       # pos[a]: the record position of glyph a (a flat ghost witness instead of an existential under the quantifier over the glyphs)
       "ghost_vars": {**MCS_COMMON["ghost_vars"], "pos": (Dict(INT, INT), "{}")},
       "ghost": {**MCS_COMMON["ghost"], MCS_PUT: MCS_COMMON["ghost"][MCS_PUT] + ["pos = {**pos, i: len(s0)}"]}},
    ensures={
        "every-glyph-with-an-anchor": "len(src) == len(result) and all(implies(" + _ANY + ", any(src[k] == a for k in range(len(src)))) for a in range(len(glyphs)))",
    },
    canaries={"every-glyph": "all(any(src[k] == a for k in range(len(src))) for a in range(len(glyphs)))"},
    loops={
        MCS_LOOP1: Loop(index="i", invariants={
            "len": _INV1["len"],
            "old-keys": _OLD_KEYS,
            "witness": "all(0 <= pos[a] and pos[a] < len(src) and src[pos[a]] == a for a in pos)",
            "complete": "all(implies(" + _ANY + ", a in pos) for a in range(i))",
        }),
        MCS_LOOP2: Loop(index="t", seq="KK", invariants={"len": _INV2["len"], "len1": _INV1["len"]}),
    },
)

# Which sides a record has: entry / exit NULL iff `_getAnchors` finds no anchor of that name for the record's glyph (own anchors first, else the font's
# glyph of that name).  What a present side's coordinates are is `_getAnchors`' contract.
def _sides(e, x, g):
    return f"(iff({e} is None, not {_present(g, 'entry')}) and iff({x} is None, not {_present(g, 'exit')}))"


_SIDES_INV = f"all({_sides(_V + '[0]', _V + '[1]', 'glyphs[src[p]]')} for p in range(len({_KS})))"
contract(
    MCS,
    name="sides",
    **{**MCS_COMMON, "hints": {MCS_PUT: [h for k, h in enumerate(MCS_COMMON["hints"][MCS_PUT]) if k != 3] + [
        _sides("entryAnchor", "exitAnchor", "glyph"),
    ]}},
    ensures={"side-null-iff-no-such-anchor": "len(src) == len(result) and all(0 <= src[k] and src[k] < len(glyphs) and "
             + _sides("result[k].entryAnchor", "result[k].exitAnchor", "glyphs[src[k]]") + " for k in range(len(result)))"},
    canaries={"entry-always": "all(result[k].entryAnchor is not None for k in range(len(result)))"},
    loops={
        MCS_LOOP1: Loop(index="i", invariants={"old-keys": _OLD_KEYS, "len": _INV1["len"], "bound": _INV1["bound"], "sides": _SIDES_INV}),
        MCS_LOOP2: Loop(index="t", seq="KK", invariants={"len": _INV2["len"], "len1": _INV1["len"], "sides": _SIDES_INV, "shape": _INV2["shape"]}),
    },
)

# WORK IN PROGRESS (not registered): the coordinate clauses of the records.  Every obligation but one is discharged; the invariant step on the
# inserting path needs the solver to identify the nested-quantifier body of the invariant at the new position with the same body in a hint
# (alpha-equal sub-formulas are different ASTs, notes/C06.requests.md R16) and times out.  What the two sides of a record ARE is proved for
# `_getAnchors`; that a record carries exactly the nodes `_getAnchors` returned for its glyph is the registered #records variant.
for _k, _nm in ((0, "entry"), (1, "exit")):
    contract(
        MCS,
        name=_nm,
        **{**{k: v for k, v in MCS_COMMON.items() if k not in ("hints", "calls")}, "props": []},
        ensures={
            "record-of-its-glyph": "len(src) == len(result) and all(0 <= src[k] and src[k] < len(glyphs) for k in range(len(result))) and " + _SHAPE,
            f"{_nm}-anchor-at-rounded-coordinates": f"all(implies(result[k].{_nm}Anchor is not None, result[k].{_nm}Anchor.kind == 'Anchor' and " + _coords(f"result[k].{_nm}Anchor", "glyphs[src[k]]", _nm) + ") for k in range(len(result)))",
        },
        canaries={"never-empty": "len(result) > 0"},
        hints={MCS_PUT: MCS_COMMON["hints"][MCS_PUT] + [
            # the side of the new entry, and the sides of the earlier entries (their nodes are older than the GlyphName node just created)
            f"implies({_nm}Anchor is not None, {_nm}Anchor.kind == 'Anchor')",
            f"implies({_nm}Anchor is not None and " + _has_own("glyph", _nm) + f", any(glyph.anchors[f].name == {_nm}Name and all(glyph.anchors[b].name != {_nm}Name for b in range(f)) and {_nm}Anchor.x == c18_round(glyph.anchors[f].x) and {_nm}Anchor.y == c18_round(glyph.anchors[f].y) for f in range(len(glyph.anchors))))",
            f"implies({_nm}Anchor is not None and not " + _has_own("glyph", _nm) + f", any({_FG}[glyph.name].anchors[b].name == {_nm}Name and {_nm}Anchor.x == c18_round({_FG}[glyph.name].anchors[b].x) and {_nm}Anchor.y == c18_round({_FG}[glyph.name].anchors[b].y) for b in range(len({_FG}[glyph.name].anchors))))",
            f"implies({_nm}Anchor is not None, " + _coords(f"{_nm}Anchor", "glyph", _nm) + ")",
            f"all(implies(c0[K0[p]][{_k}] is not None, " + _coords(f"c0[K0[p]][{_k}]", "glyphs[s0[p]]", _nm) + ") for p in range(len(K0)))",
            # the same two facts in the vocabulary of the invariant (positions of the updated dict)
            f"implies(cursiveAnchors[{_KS}[len(K0)]][{_k}] is not None, " + _coords(f"cursiveAnchors[{_KS}[len(K0)]][{_k}]", "glyphs[src[len(K0)]]", _nm) + ")",
            f"all(implies(p == len(K0) and {_V}[{_k}] is not None, " + _coords(f"{_V}[{_k}]", "glyphs[src[p]]", _nm) + f") for p in range(len({_KS})))",
            f"all(implies(p < len(K0) and {_V}[{_k}] is not None, " + _coords(f"{_V}[{_k}]", "glyphs[src[p]]", _nm) + f") for p in range(len({_KS})))",
        ]},
        loops={
            MCS_LOOP1: Loop(index="i", invariants={
                **_INV1,
                "coords": f"all(implies({_V}[{_k}] is not None, " + _coords(f"{_V}[{_k}]", "glyphs[src[p]]", _nm) + f") for p in range(len({_KS})))",
            }),
            MCS_LOOP2: Loop(index="t", seq="KK", invariants={
                **_INV2, "len1": _INV1["len"],
                "coords": f"all(implies({_V}[{_k}] is not None, " + _coords(f"{_V}[{_k}]", "glyphs[src[p]]", _nm) + f") for p in range(len({_KS})))",
            }),
        },
    )


# ---- _makeCursiveStatements#summary: ghost-free postconditions, usable by callers (`_makeCursiveLookup`) -------------------------------------------
# Ghost w: the position of the glyph recorded last (a ground witness for "some glyph has a side" instead of an existential).
_ANY_SIDE = "(" + _present("glyphs[a]", "entry") + " or " + _present("glyphs[a]", "exit") + ")"
_KEY_KINDS = f"all(allocated({_KS}[p]) and {_KS}[p].kind == 'GlyphName' for p in range(len({_KS})))"
contract(
    MCS,
    name="summary",
    **{**{k: v for k, v in MCS_COMMON.items() if k not in ("hints", "ghost_vars", "ghost", "locals")}},
    locals={**MCS_LOCALS, "w": INT},
    ghost_vars={"K0": MCS_COMMON["ghost_vars"]["K0"], "w": (INT, "0")},
    ghost={MCS_PUT: ["w = i"], MCS_GET: ["K0 = list(cursiveAnchors) + []"]},
    ensures={
        "record-kinds": "all(allocated(result[k]) and result[k].kind == 'CursivePosStatement' and result[k].glyphclass.kind == 'GlyphName' for k in range(len(result)))",
        "empty-iff-no-glyph-has-a-side": "iff(len(result) == 0, not any(" + _ANY_SIDE + " for a in range(len(glyphs))))",
    },
    canaries={"never-empty": "len(result) > 0"},
    hints={MCS_PUT: [
        f"len({_KS}) == len(K0) + 1",
        f"all({_KS}[p] == K0[p] for p in range(len(K0)))",
        f"{_KS}[len(K0)].kind == 'GlyphName' and allocated({_KS}[len(K0)])",
        _ANY_SIDE.replace("glyphs[a]", "glyph"),
    ]},
    loops={
        MCS_LOOP1: Loop(index="i", invariants={
            "old-keys": _OLD_KEYS,
            "len": f"len(cursiveAnchors) == len({_KS})",
            "key-kinds": _KEY_KINDS,
            "witness": "implies(len(cursiveAnchors) > 0, 0 <= w and w < i and " + _ANY_SIDE.replace("glyphs[a]", "glyphs[w]") + ")",
            "none-so-far": "implies(len(cursiveAnchors) == 0, all(not " + _ANY_SIDE + " for a in range(i)))",
        }),
        MCS_LOOP2: Loop(index="t", seq="KK", invariants={
            "len": _INV2["len"], "key-kinds": _KEY_KINDS,
            "shape": "all(allocated(statements[u]) and statements[u].kind == 'CursivePosStatement' and statements[u].glyphclass == KK[u] for u in range(t))",
        }),
    },
)


def _mcs_build(d):
    w = curs_writer(d)
    glyphs = [g for g in (_exported_copy(w, nm, d["shift"]) for nm in _CURS_GLYPHS if nm not in d["skip"]) if g is not None]
    return {"self": w, "glyphs": glyphs, "entryName": d["pair"][0], "exitName": d["pair"][1]}


CONTRACTS[MCS + "#summary"].runtime = Runtime(curs_cases, _mcs_build, call=lambda fn, a: M.P(fn(a["self"], a["glyphs"], a["entryName"], a["exitName"])))

# ---- _makeCursiveLookup against the contract of the REAL _makeCursiveStatements (#summary) ----------------------------------------------------------
# (the first-wave contract in contracts/c18.py went through the opaque stand-in `cursive_statements`; this one replaces it)
from .c18 import _makeLookupFlag_glue  # noqa: E402

MCL = "ufo2ft.featureWriters.cursFeatureWriter:CursFeatureWriter._makeCursiveLookup"
_LTR = "(entryName.endswith('.LTR') or (not entryName.endswith('.RTL') and direction is not None and direction == 'LTR'))"
contract(
    MCL,
    name="c18_CW",
    props=["C18"],
    params={"self": Ref("c18_CW"), "glyphs": List(Ref("c18_UGlyph")), "entryName": STR, "exitName": STR, "direction": Opt(STR)},
    returns=Opt(Ref(NODE)),
    globals={"ast": M.fea_shim(makeLookupFlag=_makeLookupFlag_glue), "isinstance": M.ISINSTANCE},
    requires=["not self.context.isVariable"],
    calls={MCS: MCS + "#summary"},
    seq_bridge=True,  # (positional facts of `[flag] + statements` with triggers; the engine's vacuity probe decides for such contracts)
    modifies=["c17_Node.kind", "c17_Node.glyph", "c17_Node.glyphclass", "c17_Node.entryAnchor", "c17_Node.exitAnchor", "c17_Node.statements", "c17_Node.value", "c17_Node.name"],
    ensures={
        # no lookup iff no given glyph has an entry / exit anchor of these names (own anchors, else the font's glyph of that name)
        "none-iff-no-glyph-has-a-side": "iff(result is None, not any(" + _ANY_SIDE + " for a in range(len(glyphs))))",
        # RightToLeft (bit 1) is CLEARED exactly for an .LTR suffix, or no direction suffix and a lookup built for LTR glyphs; IgnoreMarks (8) always set
        "flag": f"implies(result is not None, result.kind == 'LookupBlock' and result.statements[0].kind == 'LookupFlagStatement'"
        f" and result.statements[0].value == ite({_LTR}, 8, 9))",
        "at-least-one-record": "implies(result is not None, len(result.statements) >= 2)",
        "records": "implies(result is not None, all(result.statements[k].kind == 'CursivePosStatement' for k in range(1, len(result.statements))))",
    },
    hints={"lookup.statements.extend(statements)": [
        "len(lookup.statements) == 1 + len(statements)",
        "all(lookup.statements[k + 1] == statements[k] for k in range(len(statements)))",
        "all(lookup.statements[k].kind == 'CursivePosStatement' for k in range(1, len(lookup.statements)))",
    ]},
    canaries={"always-rtl": "implies(result is not None, result.statements[0].value == 9)"},
)


def _mcl_cases(rng, n):
    from .c18 import _lookup_cases

    fixed = [{"fixed": c} for c in _lookup_cases(rng, n)]
    rnd = [{**c, "direction": rng.choice([None, "LTR", "RTL"])} for c in curs_cases(rng, max(0, n - len(fixed)))]
    return (fixed + rnd)[:n]


def _mcl_build(d):
    if "fixed" in d:
        from .c18 import _lookup_build

        return _lookup_build(d["fixed"])
    return {**_mcs_build(d), "direction": d["direction"]}


CONTRACTS[MCL + "#c18_CW"].runtime = Runtime(_mcl_cases, _mcl_build, call=lambda fn, a: M.P(fn(a["self"], a["glyphs"], a["entryName"], a["exitName"], direction=a["direction"])))
