"""C18 (second wave) — the data-reading helpers of the cursive writer under deductive contract:

  * BaseFeatureWriter._getAnchor, variant #c18_CW        (the same contract as #c18_DW, for a CursFeatureWriter receiver)
  * CursFeatureWriter._getAnchors                        entry / exit anchor NULL iff the (font's) glyph has no anchor of that name, else an
                                                         `Anchor` node at the otRound-ed coordinates of an anchor of that name
  * CursFeatureWriter._getCursiveAnchorPairs             ("entry","exit") / ("entry.S","exit.S") listed iff BOTH names occur among the glyphs'
                                                         anchors, in increasing order of the entry name

FINDING (notes/C18.md, F-C18-a): `_getCursiveAnchorPairs` calls `.startswith` on every anchor name; an UNNAMED anchor (UFO allows it) raises
AttributeError and takes the whole compile down.  The vocabulary below therefore types anchor names as `str` (named anchors only) for that
function: the crash on `name is None` is outside the proved domain and recorded as a finding, not hidden.
"""
import z3

from fontTools.misc.fixedTools import otRound  # noqa: F401

from pyvc import ty as T
from pyvc.api import BOOL, CLASSES, CONTRACTS, INT, REAL, STR, Const, Dict, List, Loop, Opt, Ref, Runtime, Set, Tuple, cls, contract, specfn
from pyvc.core import Val

from . import c17_model as M
from . import c18gdef as G
from .c17_model import NODE

cls("c18_CW", fields={"context": Ref("c18_DCtx"), "options": Ref("c18_DOpts")}, repo="ufo2ft.featureWriters.cursFeatureWriter:CursFeatureWriter",
    notes="a CursFeatureWriter with its context set")

_GA_KEY = "ufo2ft.featureWriters.baseFeatureWriter:BaseFeatureWriter._getAnchor"
_src = CONTRACTS[_GA_KEY + "#c18_DW"]
contract(
    _GA_KEY,
    name="c18_CW",
    props=["C18"],
    params={**_src.params, "self": Ref("c18_CW")},
    returns=_src.returns,
    requires=list(_src.requires),
    ensures=dict(_src.ensures),
    canaries=dict(_src.canaries),
    locals=dict(_src.locals),
)

# ---- _getAnchors ---------------------------------------------------------------------------------------------------------------------------
_FG = "self.context.font.glyphs"
_A = f"{_FG}[glyphName].anchors"


def _side(k, nm):
    return {
        f"{nm}-null-iff-no-such-anchor": f"iff(result[{k}] is None, glyphName not in {_FG} or not any({_A}[b].name == {nm}Name for b in range(len({_A}))))",
        f"{nm}-at-rounded-coordinates": f"implies(result[{k}] is not None, result[{k}].kind == 'Anchor' and any({_A}[b].name == {nm}Name"
        f" and result[{k}].x == c18_round({_A}[b].x) and result[{k}].y == c18_round({_A}[b].y) for b in range(len({_A}))))",
    }


contract(
    "ufo2ft.featureWriters.cursFeatureWriter:CursFeatureWriter._getAnchors",
    props=["C18"],
    params={"self": Ref("c18_CW"), "glyphName": STR, "entryName": STR, "exitName": STR},
    returns=Tuple(Opt(Ref(NODE)), Opt(Ref(NODE))),
    globals={"ast": M.fea_shim(), "isinstance": M.ISINSTANCE},
    requires=["not self.context.isVariable"],
    ensures={**_side(0, "entry"), **_side(1, "exit"),
             "two-nodes": "implies(result[0] is not None and result[1] is not None, result[0] != result[1])"},
    canaries={"entry-always-null": "result[0] is None", "exit-not-rounded": "result[1] is None or result[1].x == 0"},
    locals={"entryAnchor": Opt(Ref(NODE)), "exitAnchor": Opt(Ref(NODE))},
)

# ---- _getCursiveAnchorPairs ------------------------------------------------------------------------------------------------------------------
cls("c18_NAnchor", fields={"name": STR, "x": REAL, "y": REAL}, notes="a NAMED UFO anchor (see the finding in the module docstring): name, x, y")
cls("c18_NGlyph", fields={"name": STR, "anchors": List(Ref("c18_NAnchor"))}, notes="a UFO glyph whose anchors all have names")
PAIRS = List(Tuple(STR, STR))
ITEMS = List(Tuple(STR, Ref("c18_NGlyph")))  # what `orderedGlyphSet.items()` yields
GCP = "ufo2ft.featureWriters.cursFeatureWriter:CursFeatureWriter._getCursiveAnchorPairs"
UPD = "anchors.update((a.name for a in glyph.anchors))"
LOOP1 = "for (_, glyph) in glyphs"
LOOP2 = "for anchor in anchors"


def _occurs(nm, bound="len(glyphs)"):
    """some anchor of some glyph has exactly this name"""
    return f"any(any(glyphs[a][1].anchors[b].name == {nm} for b in range(len(glyphs[a][1].anchors))) for a in range({bound}))"


def _pair_ok(p):
    return (f"(({p}[0] == 'entry' and {p}[1] == 'exit') or ({p}[0].startswith('entry.') and {p}[1] == 'exit.' + {p}[0][6:]))")


GCP_COMMON = dict(props=["C18"], params={"glyphs": ITEMS}, returns=PAIRS, merge_branches=False)

# sorted() of a list of pairs of str: Python compares tuples lexicographically; the facts used here: same length, same elements, and the FIRST
# components are in non-decreasing order (a consequence of the lexicographic order)
@M.shim_function(
    "sorted_pairs",
    "sorted(xs) for a list of (str, str) tuples: a list r with len(r) == len(xs), every r[k] is some xs[j] and every xs[j] is some r[k], and r[k1][0] <= r[k2][0] for k1 < k2 "
    "(consequences of: sorted returns the lexicographically sorted permutation)",
)
def _sorted_pairs(ex, st, args, kwargs, node):
    from pyvc.core import Unsupported, fresh_name, lift

    (v,) = args
    if kwargs or v.ty != PAIRS:
        raise Unsupported(f"sorted() of {v.ty}", node)
    s = lift(v)
    r = z3.Function("c18_sorted_pairs", PAIRS.sort(), PAIRS.sort())(s)
    if ("c18sorted", r.get_id()) in st.ghost:
        return Val(PAIRS, r)
    st.ghost[("c18sorted", r.get_id())] = r
    k, j, k2 = z3.Int(fresh_name("sk")), z3.Int(fresh_name("sj")), z3.Int(fresh_name("sk2"))
    first = PAIRS.elem.sort().accessor(0, 0)
    st.assume(z3.Length(r) == z3.Length(s))
    st.assume(z3.ForAll([k], z3.Implies(z3.And(0 <= k, k < z3.Length(r)), z3.Exists([j], z3.And(0 <= j, j < z3.Length(s), r[k] == s[j])))))
    st.assume(z3.ForAll([j], z3.Implies(z3.And(0 <= j, j < z3.Length(s)), z3.Exists([k], z3.And(0 <= k, k < z3.Length(r), r[k] == s[j])))))
    st.assume(z3.ForAll([k, k2], z3.Implies(z3.And(0 <= k, k < k2, k2 < z3.Length(r)), first(r[k]) <= first(r[k2]))))
    return Val(PAIRS, r)


from pyvc.symex import FuncRef  # noqa: E402

SORTED_PAIRS = M.native_global(Val.obj(FuncRef(_sorted_pairs, "c17shim.sorted_pairs")), sorted)

contract(
    GCP,
    name="only",
    **GCP_COMMON,
    globals={"sorted": SORTED_PAIRS},
    comp_membership=True,
    ensures={
        # a pair is listed only if it has one of the two shapes and BOTH names occur among the glyphs' anchors
        "pair-shapes": "all(" + _pair_ok("result[k]") + " for k in range(len(result)))",
        "entry-name-occurs": "all(" + _occurs("result[k][0]") + " for k in range(len(result)))",
        "exit-name-occurs": "all(" + _occurs("result[k][1]") + " for k in range(len(result)))",
        "increasing-entry-names": "all(all(implies(k1 < k2, result[k1][0] <= result[k2][0]) for k2 in range(len(result))) for k1 in range(len(result)))",
    },
    canaries={"empty": "len(result) == 0"},
    locals={"anchors": Set(STR), "anchorPairs": PAIRS},
    loops={
        LOOP1: Loop(index="i", invariants={"names-occur": "all(" + _occurs("n", "i") + " for n in anchors)"}),
        LOOP2: Loop(done="D", invariants={
            "pairs": "all(" + _pair_ok("anchorPairs[k]") + " and anchorPairs[k][0] in anchors and anchorPairs[k][1] in anchors for k in range(len(anchorPairs)))",
        }),
    },
)

contract(
    GCP,
    name="every",
    **GCP_COMMON,
    globals={"sorted": SORTED_PAIRS},
    seq_positions=True,  # `S.update(<generator>)`: every position of the materialised list holds a member of the set (opt-in engine fact)
    ensures={
        # the plain pair is listed if both plain names occur; a suffixed pair is listed if both suffixed names occur
        "plain-pair-if-both-occur": "implies(" + _occurs("'entry'") + " and " + _occurs("'exit'") + ", any(result[k][0] == 'entry' and result[k][1] == 'exit' for k in range(len(result))))",
        "suffixed-pair-if-both-occur": "all(all(implies(glyphs[a][1].anchors[b].name.startswith('entry.') and " + _occurs("'exit.' + glyphs[a][1].anchors[b].name[6:]")
        + ", any(result[k][0] == glyphs[a][1].anchors[b].name and result[k][1] == 'exit.' + glyphs[a][1].anchors[b].name[6:] for k in range(len(result))))"
        " for b in range(len(glyphs[a][1].anchors))) for a in range(len(glyphs)))",
    },
    canaries={"empty": "len(result) == 0"},
    locals={"anchors": Set(STR), "anchorPairs": PAIRS, "m0": Set(STR), "mprev": Set(STR)},
    ghost_vars={"m0": (Set(STR), "set()"), "mprev": (Set(STR), "set()")},
    ghost={UPD: ["mprev = m0", "m0 = anchors"]},
    hints={UPD: ["all(n in anchors for n in mprev)", "all(glyph.anchors[b].name in anchors for b in range(len(glyph.anchors)))"]},
    loops={
        LOOP1: Loop(index="i", invariants={
            "snapshot": "m0 == anchors",
            "all-names": "all(all(glyphs[a][1].anchors[b].name in anchors for b in range(len(glyphs[a][1].anchors))) for a in range(i))",
        }),
        LOOP2: Loop(done="D", invariants={
            "plain-kept": "implies('entry' in anchors and 'exit' in anchors, any(anchorPairs[k][0] == 'entry' and anchorPairs[k][1] == 'exit' for k in range(len(anchorPairs))))",
            "suffixed-done": "all(implies(n.startswith('entry.') and ('exit.' + n[6:]) in anchors, any(anchorPairs[k][0] == n and anchorPairs[k][1] == 'exit.' + n[6:] for k in range(len(anchorPairs)))) for n in D)",
        }),
    },
)
