"""C05, second file — classification of glyphs by script / bidi direction and registration of lookups.

The kern writers decide per kerning pair (a) which script bucket it goes to and (b) whether it is a right-to-left
rule, from three per-code-point classifications.  The functions that compute those classifications from the Unicode
data are under contract here; the Unicode character database itself (stdlib `unicodedata` / fontTools.unicodedata) is
the trusted library, named through opaque spec functions.
"""
from pyvc.api import BOOL, CLASSES, CONTRACTS, INT, REAL, STR, Const, Dict, List, Loop, Map, Named, Opt, Ref, Runtime, Set, Tuple, Union, cls, contract, lemma, record_init, specfn, trusted

from . import c05  # noqa: F401  (class vocabulary of the kern writer)

# =====================================================================================================
# the Unicode character database (trusted library), as opaque functions


@specfn(STR, opaque=True, uv=INT)
def k5_chr(uv):
    """chr(uv)"""
    return chr(uv)


@specfn(STR, opaque=True, ch=STR)
def k5_ucd_bidi(ch):
    """Unicode Bidi_Class of a character (UCD short name: 'L', 'R', 'AL', 'EN', 'AN', 'NSM', ...)"""
    from fontTools import unicodedata

    return unicodedata.bidirectional(ch)


@specfn(Set(STR), opaque=True, ch=STR)
def k5_ucd_script_ext(ch):
    """Unicode Script_Extensions of a character (set of ISO 15924 codes)"""
    from fontTools import unicodedata

    return set(unicodedata.script_extension(ch))


@specfn(STR, opaque=True, script=STR)
def k5_ucd_hdir(script):
    """horizontal direction of a script, 'LTR' for unknown codes: fontTools.unicodedata.script_horizontal_direction(s, 'LTR')"""
    from fontTools import unicodedata

    return unicodedata.script_horizontal_direction(script, "LTR")


def _spec_model(name):
    def model(ex, st, args, kwargs, node):
        from pyvc.api import SPECFNS

        return ex.apply_spec(SPECFNS[name], list(args), st, node)

    return model


trusted("builtins.chr", "chr(i) is the character with code point i (opaque function k5_chr)")(_spec_model("k5_chr"))
trusted("unicodedata.bidirectional", "Bidi_Class of the Unicode character database (opaque function k5_ucd_bidi)")(_spec_model("k5_ucd_bidi"))
trusted("unicodedata2.bidirectional", "Bidi_Class of the Unicode character database (opaque function k5_ucd_bidi)")(_spec_model("k5_ucd_bidi"))
trusted("fontTools.unicodedata.script_extension", "Script_Extensions of the Unicode character database, as a set (opaque function k5_ucd_script_ext)")(_spec_model("k5_ucd_script_ext"))


@trusted("fontTools.unicodedata.script_horizontal_direction", "script_horizontal_direction(s, 'LTR') is 'RTL' for right-to-left scripts, else 'LTR' - never anything else (opaque function k5_ucd_hdir; only the call with default 'LTR' is modelled)")
def _hdir(ex, st, args, kwargs, node):
    from pyvc.api import SPECFNS
    from pyvc.core import Unsupported
    from pyvc.ops import is_const

    if len(args) != 2 or not is_const(args[1]) or args[1].py != "LTR":
        raise Unsupported("script_horizontal_direction without the default 'LTR'", node)
    r = ex.apply_spec(SPECFNS["k5_ucd_hdir"], [args[0]], st, node)
    import z3

    from pyvc.core import lift

    st.assume(z3.Or(lift(r) == z3.StringVal("LTR"), lift(r) == z3.StringVal("RTL")))  # the library returns one of the two
    return r


# =====================================================================================================
# bidi type of a code point (kernFeatureWriter.unicodeBidiType): strong R / AL -> "R"; L / EN / AN -> "L"; else None
# ("numbers are shaped left-to-right even in right-to-left scripts": EN and AN count as L)

contract(
    "ufo2ft.featureWriters.kernFeatureWriter:unicodeBidiType",
    props=["C05"],
    params={"uv": INT},
    returns=Opt(STR),
    ensures={
        "rtl": "iff(result == 'R', k5_ucd_bidi(k5_chr(uv)) == 'R' or k5_ucd_bidi(k5_chr(uv)) == 'AL')",
        "ltr": "iff(result == 'L', k5_ucd_bidi(k5_chr(uv)) == 'L' or k5_ucd_bidi(k5_chr(uv)) == 'EN' or k5_ucd_bidi(k5_chr(uv)) == 'AN')",
        "neutral": "result is None or result == 'R' or result == 'L'",
    },
    canaries={"never-neutral": "result is not None"},
    runtime=Runtime(
        lambda rng, n: [{"uv": u} for u in ([0x41, 0x31, 0x661, 0x5D0, 0x627, 0x2D, 0x20, 0x300, 0x6F1, 0x200F, 0x3042, 0x915, 0x2E, 0x60C, 0x10B80, 0x1EE00] + [rng.randrange(0x20, 0x3000) for _ in range(n)])][:n],
        lambda d: dict(d),
    ),
)

# direction of a script bucket (kernFeatureWriter.script_direction): "Auto" for the common bucket, else the script's
contract(
    "ufo2ft.featureWriters.kernFeatureWriter:script_direction",
    props=["C05"],
    params={"script": STR},
    returns=STR,
    ensures={"direction": "result == ('Auto' if script == 'Zyyy' else k5_ucd_hdir(script))"},
    canaries={"always-ltr": "result == 'LTR'"},
    runtime=Runtime(lambda rng, n: [{"script": s} for s in ("Zyyy", "Zinh", "Latn", "Arab", "Hebr", "Deva", "Grek", "Cyrl", "Hrkt", "Thaa", "Nkoo", "Qaaa", "Adlm")][:n], lambda d: dict(d)),
)


# ---- the same two classifications in the alternative writer (kernFeatureWriter2), with Direction enum members ----------


@specfn(STR, opaque=True, ch=STR)
def k5_ucd_script(ch):
    """Unicode Script property of a character (ISO 15924 code)"""
    from fontTools import unicodedata

    return unicodedata.script(ch)


trusted("fontTools.unicodedata.script", "Script property of the Unicode character database (opaque function k5_ucd_script)")(_spec_model("k5_ucd_script"))


def _direction():
    from ufo2ft.featureWriters.kernFeatureWriter2 import Direction

    return Direction


contract(
    "ufo2ft.featureWriters.kernFeatureWriter2:unicodeBidiType",
    props=["C05"],
    params={"uv": INT},
    globals={"Direction": _direction()},
    ensures={
        "rtl": "iff(result is Direction.RightToLeft, k5_ucd_bidi(k5_chr(uv)) == 'R' or k5_ucd_bidi(k5_chr(uv)) == 'AL')",
        "ltr": "iff(result is Direction.LeftToRight, k5_ucd_bidi(k5_chr(uv)) == 'L' or k5_ucd_bidi(k5_chr(uv)) == 'EN' or k5_ucd_bidi(k5_chr(uv)) == 'AN')",
        "neutral": "result is None or result is Direction.RightToLeft or result is Direction.LeftToRight",
    },
    canaries={"never-neutral": "result is not None"},
    runtime=CONTRACTS["ufo2ft.featureWriters.kernFeatureWriter:unicodeBidiType"].runtime,
)

contract(
    "ufo2ft.featureWriters.kernFeatureWriter2:unicodeScriptDirection",
    props=["C05"],
    params={"uv": INT},
    globals={"Direction": _direction()},
    ensures={
        # Common / Inherited characters have no direction of their own; every other script is LTR or RTL (never a ValueError)
        "neutral": "iff(result is None, k5_ucd_script(k5_chr(uv)) == 'Zyyy' or k5_ucd_script(k5_chr(uv)) == 'Zinh')",
        "rtl": "iff(result is Direction.RightToLeft, not (k5_ucd_script(k5_chr(uv)) == 'Zyyy' or k5_ucd_script(k5_chr(uv)) == 'Zinh') and k5_ucd_hdir(k5_ucd_script(k5_chr(uv))) == 'RTL')",
        "ltr": "iff(result is Direction.LeftToRight, not (k5_ucd_script(k5_chr(uv)) == 'Zyyy' or k5_ucd_script(k5_chr(uv)) == 'Zinh') and k5_ucd_hdir(k5_ucd_script(k5_chr(uv))) == 'LTR')",
    },
    canaries={"never-rtl": "result is not Direction.RightToLeft"},
    runtime=CONTRACTS["ufo2ft.featureWriters.kernFeatureWriter:unicodeBidiType"].runtime,
)


# =====================================================================================================
# scripts of a code point


@specfn(Set(STR), uv=INT)
def k5_scripts_of(uv):
    """Script_Extensions of the code point with Hiragana and Katakana merged into 'Hrkt' (so that kana kern against each other)"""
    if uv < -1:
        return k5_scripts_of(-1)  # never taken; keeps the function a symbol (unfolded at ground arguments only)
    return {("Hrkt" if s == "Hira" or s == "Kana" else s) for s in k5_ucd_script_ext(k5_chr(uv))}


contract(
    "ufo2ft.util:unicodeScriptExtensions",
    props=["C05"],
    # aliases: fixed to (the value of) its default UNICODE_SCRIPT_ALIASES; no caller in ufo2ft passes it
    params={"codepoint": INT, "aliases": Const({"Hira": "Hrkt", "Kana": "Hrkt"})},
    returns=Set(STR),
    requires=["codepoint >= 0"],
    ensures={
        "aliased-extensions": "result == k5_scripts_of(codepoint)",
        # spelled out: every extension script is represented (kana under Hrkt), and nothing else
        "all": "all(('Hrkt' if s == 'Hira' or s == 'Kana' else s) in result for s in k5_ucd_script_ext(k5_chr(codepoint)))",
        "only": "all(any(x == ('Hrkt' if s == 'Hira' or s == 'Kana' else s) for s in k5_ucd_script_ext(k5_chr(codepoint))) for x in result)",
    },
    canaries={"no-alias": "result == k5_ucd_script_ext(k5_chr(codepoint))"},
    runtime=Runtime(
        lambda rng, n: [{"codepoint": u} for u in ([0x41, 0x3042, 0x30A2, 0x30FC, 0x951, 0x60C, 0x651, 0x2E, 0x300, 0x5D0, 0x391] + [rng.randrange(0x20, 0x3100) for _ in range(n)])][:n],
        lambda d: dict(d),
    ),
)

cls("KnownCtx", fields={"knownScripts": Set(STR)}, notes="feature-writer context: knownScripts = scripts the font is taken to support (set of ISO 15924 codes)")
cls("KnownWriter", fields={"context": Ref("KnownCtx")}, repo="ufo2ft.featureWriters.kernFeatureWriter:KernFeatureWriter")

contract(
    "ufo2ft.featureWriters.kernFeatureWriter:KernFeatureWriter.knownScriptsPerCodepoint",
    props=["C05"],
    params={"self": Ref("KnownWriter"), "uv": INT},
    returns=Set(STR),
    requires=["uv >= 0"],
    ensures={
        # no script known at all: everything is common
        "nothing-known": "implies(self.context.knownScripts == set(), result == {'Zyyy'})",
        # otherwise: the code point's scripts cut down to the supported ones; Common / Inherited always survive
        "known": "implies(self.context.knownScripts != set(), result == k5_scripts_of(uv) & (self.context.knownScripts | {'Zyyy', 'Zinh'}))",
        # consequence used by the splitter: only supported or neutral scripts are ever attributed to a glyph
        "supported-or-neutral": "all(s in self.context.knownScripts or s == 'Zyyy' or s == 'Zinh' for s in result)",
    },
    canaries={"unfiltered": "result == k5_scripts_of(uv)"},
)


def _known_cases(rng, n):
    cps = [0x41, 0x3042, 0x30A2, 0x30FC, 0x951, 0x60C, 0x651, 0x2E, 0x300, 0x5D0, 0x391, 0x31, 0x661]
    scripts = ["Latn", "Grek", "Cyrl", "Arab", "Hebr", "Deva", "Hrkt", "Beng"]
    out = []
    for k in range(n):
        known = [] if k % 5 == 0 else rng.sample(scripts, rng.randint(1, 4))
        out.append({"uv": cps[k % len(cps)] if k < 3 * len(cps) else rng.randrange(0x20, 0x3100), "known": sorted(known)})
    return out


def _known_build(d):
    from types import SimpleNamespace

    from ufo2ft.featureWriters.kernFeatureWriter import KernFeatureWriter

    w = KernFeatureWriter()
    w.context = SimpleNamespace(knownScripts=set(d["known"]))
    return {"self": w, "uv": d["uv"]}


CONTRACTS["ufo2ft.featureWriters.kernFeatureWriter:KernFeatureWriter.knownScriptsPerCodepoint"].runtime = Runtime(
    _known_cases, _known_build, call=lambda fn, a: fn(a["self"], a["uv"])
)


# =====================================================================================================
# ufo2ft.featureWriters.ast.addLookupReferences: `script T; language dflt; lookup L1; ... lookup Ln; language X; ...`
#
# feaLib statement objects are seen as one class `FeaStmt` with a `kind` (which constructor built it); the constructors
# store their arguments (assumed, fontTools.feaLib.ast).

cls("LookupBlock", dynamic=True, notes="feaLib ast.LookupBlock (opaque here: only its identity is used)")
cls("FeaStmt", fields={"kind": STR, "script": STR, "language": STR, "include_default": BOOL, "lookup": Ref("LookupBlock"), "text": STR},
    views={
        "kind": lambda o: {"ScriptStatement": "script", "LanguageStatement": "language", "LookupReferenceStatement": "lookupref", "Comment": "comment"}.get(type(o).__name__, type(o).__name__),
        "lookup": lambda o: getattr(o, "lookup", None),
        "script": lambda o: getattr(o, "script", None),
        "language": lambda o: getattr(o, "language", None),
        "include_default": lambda o: getattr(o, "include_default", None),
        "text": lambda o: getattr(o, "text", None),
    },
    notes="feaLib ast.ScriptStatement / LanguageStatement / LookupReferenceStatement / Comment: one class, `kind` records the constructor (assumed)")
def _stmt_proxies(o):
    from pyvc.rt import Proxy

    return [Proxy(x, CLASSES["FeaStmt"]) for x in o.statements]


cls("FeatureBlock", fields={"name": STR, "statements": List(Ref("FeaStmt"))},
    # stmt_ids: in the logic the list of references itself; natively the list of id()s (survives the deep copy that the
    # run-time interpreter takes of old(...) values)
    derived={"stmt_ids": lambda ex, st, self: ex.read_field(st, self, "statements")},
    views={"statements": _stmt_proxies, "stmt_ids": lambda o: [id(x) for x in o.statements]},
    notes="feaLib ast.FeatureBlock: name and the list of statements")

_PRE_IDS = set()  # run time: ids of the objects that existed when the case was built (native reading of fresh())


def _native_fresh(x):
    from pyvc.rt import Proxy

    o = object.__getattribute__(x, "_obj") if isinstance(x, Proxy) else x
    return id(o) not in _PRE_IDS


def _stmt_model(kind, *fields, **defaults):
    names = list(fields) + [k for k in defaults if k not in fields]

    def model(ex, st, args, kwargs, node):
        from pyvc.core import Unsupported, Val

        o = ex.new_object(st, "FeaStmt")
        ex.write_field(st, o, "kind", Val.const(kind), node)
        bound = dict(zip(names, args))
        for k, v in kwargs.items():
            if k not in names:
                raise Unsupported(f"{kind} statement: keyword {k}", node)
            bound[k] = v
        for n in names:
            v = bound.get(n)
            if v is None:
                if n not in defaults:
                    raise Unsupported(f"{kind} statement: missing argument {n}", node)
                v = Val.const(defaults[n])
            ex.write_field(st, o, n, v, node)
        return o

    return model


trusted("fontTools.feaLib.ast.ScriptStatement", "ScriptStatement(script) is a fresh `script <tag>;` statement")(_stmt_model("script", "script"))
trusted("fontTools.feaLib.ast.LanguageStatement", "LanguageStatement(language, include_default=True) is a fresh `language <tag> [exclude_dflt];` statement")(_stmt_model("language", "language", include_default=True))
trusted("fontTools.feaLib.ast.LookupReferenceStatement", "LookupReferenceStatement(lookup) is a fresh `lookup <name>;` statement referring to that lookup block")(_stmt_model("lookupref", "lookup"))
trusted("fontTools.feaLib.ast.Comment", "Comment(text) is a fresh comment statement")(_stmt_model("comment", "text"))


@specfn(List(STR), L=List(STR), i=INT)
def k5_nondflt(L, i):
    """the languages among the first i that are not 'dflt', in order"""
    if i <= 0:
        return []
    prev = k5_nondflt(L, i - 1)
    return prev + [L[i - 1]] if L[i - 1] != "dflt" else prev


_ST = "feature.statements"
_STMT_FIELDS = ("kind", "script", "language", "include_default", "lookup")
_N0 = "len(old(feature.statements))"
_SCRIPT = _ST + "[{n}].kind == 'script' and " + _ST + "[{n}].script == script"
_DFLT = _ST + "[{n}].kind == 'language' and " + _ST + "[{n}].language == 'dflt' and " + _ST + "[{n}].include_default"


def _alr_contract(name, languages_ty, props, general=False):
    nd = "k5_nondflt(languages, len(languages))"
    base = f"{_N0} + 2 + len(lookups)"
    return contract(
        "ufo2ft.featureWriters.ast:addLookupReferences",
        name=name,
        props=props,
        params={"feature": Ref("FeatureBlock"), "lookups": List(Ref("LookupBlock")), "script": STR, "languages": languages_ty, "exclude_dflt": Const(False)},
        # `assert lookups` in the code: both kern writers call it with a non-empty collection (guarded by `if dfltLookups:` /
        # a script that has lookups); a script tag is always given by the kern writers
        requires=["len(lookups) >= 1", "script != ''",
                  # heap well-formedness: the statements already in the block exist before the call
                  "all(not fresh(s) for s in feature.statements)"],
        # the block's statement list, and the fields of the statement objects it creates (written by their constructors; the
        # statements that existed before keep theirs: clause `untouched`)
        modifies=["FeatureBlock.statements"] + ["FeaStmt." + f for f in _STMT_FIELDS],
        ensures={
            # statements are only appended
            "appended": f"feature.stmt_ids[:{_N0}] == old(feature.stmt_ids)",
            "length": f"len({_ST}) == {base} + len({nd})",
            # script T; language dflt;
            "script": _SCRIPT.format(n=_N0),
            "dflt": _DFLT.format(n=f"{_N0} + 1"),
            # lookup L1; ... lookup Ln;  -- exactly the given lookups, in the given order, each once
            "lookups": f"all(n < {_N0} + 2 or n >= {base} or ({_ST}[n].kind == 'lookupref' and {_ST}[n].lookup == lookups[n - {_N0} - 2]) for n in range(len({_ST})))",
            # language X;  for every other language, inheriting the default language system's lookups
            "languages": f"all(n < {base} or ({_ST}[n].kind == 'language' and {_ST}[n].include_default and {_ST}[n].language == {nd}[n - ({base})]) for n in range(len({_ST})))",
            # the statements that were in the block before are the same objects with the same content
            "untouched": "all(" + " and ".join(f"{_ST}[n].{f} == old({_ST}[n].{f})" for f in _STMT_FIELDS) + f" for n in range({_N0}))",
            # the new statements are new objects (no statement of another block is reused)
            "fresh": f"all(n < {_N0} or fresh({_ST}[n]) for n in range(len({_ST})))",
        },
        canaries={"no-lookups": f"len({_ST}) == {_N0} + 2"},
        loops=_alr_loops(general),
        # position-wise view of `statements == st0 + new` (proved once, then used by the postconditions)
        hints={"for language in languages or ():": [f"all(n < len(st0) or {_ST}[n] == new[n - len(st0)] for n in range(len({_ST})))",
                                                    f"all(n >= len(st0) or {_ST}[n] == st0[n] for n in range(len({_ST})))"]},
        globals={"fresh": _native_fresh},
        # ghost: the statements at entry, and the list of statements created so far
        ghost_vars={"st0": (List(Ref("FeaStmt")), "feature.statements"), "new": (List(Ref("FeaStmt")), "[]"), **({"gl": (List(STR), "[]")} if general else {})},
        ghost={
            "feature.statements.append(ast.ScriptStatement(script))": ["new = new + [feature.statements[len(feature.statements) - 1]]"],
            "feature.statements.append(ast.LanguageStatement('dflt', include_default=True))": ["new = new + [feature.statements[len(feature.statements) - 1]]"],
            "feature.statements.append(ast.LookupReferenceStatement(lookup))": ["new = new + [feature.statements[len(feature.statements) - 1]]"],
            **({"feature.statements.append(ast.LanguageStatement(language, include_default=True))": ["new = new + [feature.statements[len(feature.statements) - 1]]", "gl = gl + [language]"]} if general else {}),
        },
    )


def _alr_loops(general):
    untouched = "all(" + " and ".join(f"st0[n].{f} == old({_ST}[n].{f})" for f in _STMT_FIELDS) + " for n in range(len(st0)))"
    # the statements made so far are new objects that exist now (the one created next is yet another object)
    new = "all(fresh(new[b]) and allocated(new[b]) for b in range(len(new)))"
    head = "new[0].kind == 'script' and new[0].script == script and new[1].kind == 'language' and new[1].language == 'dflt' and new[1].include_default"
    # (plain positions n, offsets on the other side: index arithmetic inside new[..] defeats the solvers' triggers)
    refs = "all(n < 2 or n >= 2 + {n} or (new[n].kind == 'lookupref' and new[n].lookup == lookups[n - 2]) for n in range(len(new)))"
    loops = {"for lookup in lookups#3": Loop(index="j", invariants={
        "shape": f"{_ST} == st0 + new and len(new) == 2 + j", "untouched": untouched, "new": new, "head": head, "refs": refs.format(n="j")})}
    if general:
        # gl (ghost): the non-dflt languages met so far = k5_nondflt(languages, q); the statements are related to gl position
        # by position (gl grows by `+ [language]`, a syntactic concatenation), not to the recursive function directly
        loops["for language in languages or ()"] = Loop(index="q", invariants={
            "shape": f"{_ST} == st0 + new and len(new) == 2 + len(lookups) + len(gl)", "untouched": untouched, "new": new, "head": head,
            "refs": refs.format(n="len(lookups)"),
            "gl": "gl == k5_nondflt(languages, q)",
            "langs": "all(n < 2 + len(lookups) or (new[n].kind == 'language' and new[n].include_default and new[n].language == gl[n - 2 - len(lookups)]) for n in range(len(new)))",
        })
    return loops


# the default: no languagesystem statement names the tag -> languages == ["dflt"]
_alr_contract("dflt-only", Const(["dflt"]), ["C05"])
# the general case: the languages declared for the tag by languagesystem statements (a list; `languages or ()`)
_alr_contract("script", List(STR), ["C05"], general=True)


def _alr_cases(rng, n):
    out = []
    for k in range(n):
        out.append({"existing": k % 3, "n_lookups": 1 + k % 4, "script": ["latn", "DFLT", "arab", "dev2"][k % 4], "languages": ["dflt"]})
    return out


def _alr_build(d):
    from fontTools.feaLib import ast as fea

    f = fea.FeatureBlock("kern")
    pre = [fea.Comment("# x"), fea.ScriptStatement("grek")][: d["existing"]]
    f.statements.extend(pre)
    lookups = [fea.LookupBlock(f"kern_{i}") for i in range(d["n_lookups"])]
    _PRE_IDS.clear()
    _PRE_IDS.update(id(x) for x in pre + lookups + [f])
    return {"feature": f, "lookups": lookups, "script": d["script"], "languages": list(d["languages"])}


CONTRACTS["ufo2ft.featureWriters.ast:addLookupReferences#dflt-only"].runtime = Runtime(_alr_cases, _alr_build)


def _alr_cases_general(rng, n):
    langs = [["dflt"], ["dflt", "TRK "], ["TRK ", "dflt", "AZE "], ["NLD "], [], ["dflt", "dflt"], ["ROM ", "MOL "]]
    return [{"existing": k % 3, "n_lookups": 1 + k % 4, "script": ["latn", "DFLT", "arab", "dev2"][k % 4], "languages": langs[k % len(langs)]} for k in range(n)]


CONTRACTS["ufo2ft.featureWriters.ast:addLookupReferences#script"].runtime = Runtime(_alr_cases_general, _alr_build)
