"""Run-time builders shared by the C13 / C09 cross-checks and bounded observers (no contracts in this file):
families of point-compatible masters described by JSON, with component graphs, sparse layers, kerning and skip sets."""
from __future__ import annotations

import copy

from . import rtlib

TRANSFORMS = [[1, 0, 0, 1, 0, 0], [1, 0, 0, 1, 30, -20], [-1, 0, 0, 1, 200, 0], [0.5, 0, 0, 0.5, 10, 10], [1, 0.2, 0, 1, 0, 0], [1, 0, 0, -1, 0, 600]]


def _contour(rng, kind):
    x0, y0 = rng.choice([0, 20, 50]), rng.choice([0, -50, 100])
    w, h = rng.choice([60, 100, 240]), rng.choice([80, 300, 650])
    if kind == "box":
        return [[x0, y0, "line"], [x0 + w, y0, "line"], [x0 + w, y0 + h, "line"], [x0, y0 + h, "line"]]
    if kind == "cubic":
        return [
            [x0, y0, "line"], [x0 + w, y0, "line"],
            [x0 + w + w // 3, y0 + h // 3, None], [x0 + w + w // 4, y0 + 2 * h // 3, None], [x0 + w, y0 + h, "curve"],
            [x0, y0 + h, "line"],
        ]
    if kind == "quad":
        return [[x0, y0, "line"], [x0 + w, y0, "line"], [x0 + w + w // 3, y0 + h // 2, None], [x0 + w, y0 + h, "qcurve"], [x0, y0 + h, "line"]]
    raise ValueError(kind)


def master_desc(rng, n_glyphs=None, curves=("box",), notdef=False, mixed=0.2, nested=True):
    """one master: acyclic component graph over g0..g{n-1} (no dangling reference)"""
    cnt = n_glyphs if n_glyphs is not None else rng.randint(2, 6)
    names = [f"g{i}" for i in range(cnt)]
    glyphs = {}
    if notdef:
        glyphs[".notdef"] = {"width": 500, "contours": [_contour(rng, "box")]}
    for i, nm in enumerate(names):
        g = {"width": rng.choice([0, 300, 500, 620])}
        has_comp = i > 0 and rng.random() < 0.7
        if not has_comp or rng.random() < mixed:
            g["contours"] = [_contour(rng, rng.choice(curves)) for _ in range(rng.randint(1, 2))]
        if has_comp:
            pool = names[:i] if nested else [n for n in names[:i] if "components" not in glyphs[n]] or names[:1]
            g["components"] = [[rng.choice(pool), list(rng.choice(TRANSFORMS))] for _ in range(rng.randint(1, 3))]
        if rng.random() < 0.5:
            g["unicodes"] = [0x61 + i]
        if rng.random() < 0.3:
            g["anchors"] = [["top", rng.choice([100, 250]), rng.choice([500, 700])]]
        glyphs[nm] = g
    return {"glyphs": glyphs, "order": list(glyphs), "info": {"unitsPerEm": 1000, "ascender": 800, "descender": -200, "xHeight": 500, "capHeight": 700, "familyName": "Fam", "styleName": "Regular"}}


def perturb(rng, d, amount=40, xform=None):
    """a compatible master: same structure, coordinates / advances / component offsets moved;
    xform(name, k, transformation) may change a component's 2x2 (to make it differ between masters)"""
    m = copy.deepcopy(d)
    for nm, g in m["glyphs"].items():
        g["width"] = g["width"] + rng.choice([0, 20, 60]) if g["width"] else 0
        for c in g.get("contours", []):
            for p in c:
                p[0] += rng.randint(-amount, amount)
                p[1] += rng.randint(-amount, amount)
        for k, comp in enumerate(g.get("components", [])):
            comp[1][4] += rng.randint(-amount, amount)
            comp[1][5] += rng.randint(-amount, amount)
            if xform is not None:
                comp[1] = xform(nm, k, comp[1])
        for a in g.get("anchors", []):
            a[1] += rng.randint(-amount, amount)
    return m


def build_family(fam):
    """fam = {masters: [master desc, ...], sparse: {index: [names]} (extra source = layer 'sparse' of master `index`), skip: [...],
    ds_skip: [...]|None, axis: true}
    -> (ufos, layerNames, designspace)   (designspace sources carry .font; the default is master 0)"""
    from fontTools.designspaceLib import AxisDescriptor, DesignSpaceDocument, SourceDescriptor

    ufos = [rtlib.build_ufo(m) for m in fam["masters"]]
    n = len(ufos)
    for i, u in enumerate(ufos):
        u.info.styleName = f"M{i}"
    layer_names = [None] * n
    srcs = list(ufos)
    locs = [0 if n == 1 else round(1000 * i / (n - 1)) for i in range(n)]
    for idx, names in sorted((fam.get("sparse") or {}).items()):
        idx = int(idx)
        base = ufos[idx]
        layer = base.newLayer("sparse")
        donor = rtlib.build_ufo(perturb(__import__("random").Random(idx), fam["masters"][idx], 25))
        for nm in names:
            if nm in donor:
                g = layer.newGlyph(nm)
                g.width = donor[nm].width
                donor[nm].drawPoints(g.getPointPen())
        srcs.append(base)
        layer_names.append("sparse")
        # a location strictly between two masters (or beyond the single one)
        locs.append(locs[idx] + (500 // max(1, n - 1)) if idx < n - 1 or n == 1 else locs[idx] - (500 // max(1, n - 1)))
    ds = DesignSpaceDocument()
    ax = AxisDescriptor()
    ax.name, ax.tag, ax.minimum, ax.default, ax.maximum = "Weight", "wght", min(locs), locs[0], max(max(locs), locs[0] + 1)
    ds.addAxis(ax)
    for i, (u, ln, loc) in enumerate(zip(srcs, layer_names, locs)):
        s = SourceDescriptor()
        s.font, s.layerName, s.location, s.name = u, ln, {"Weight": loc}, f"src{i}"
        s.familyName, s.styleName = "Fam", f"S{i}"
        ds.addSource(s)
    if fam.get("ds_skip") is not None:
        ds.lib["public.skipExportGlyphs"] = list(fam["ds_skip"])
    return srcs, layer_names, ds


def family_cases(rng, n, curves=("box",), sparse=True, skip=True, with_inst=None):
    out = []
    for k in range(n):
        base = master_desc(rng, curves=curves, notdef=rng.random() < 0.5)
        nm = rng.randint(2, 3)
        masters = [base] + [perturb(rng, base) for _ in range(nm - 1)]
        names = [g for g in base["glyphs"] if g != ".notdef"]
        fam = {"masters": masters}
        if sparse and rng.random() < 0.5:
            fam["sparse"] = {str(rng.randrange(nm)): sorted(rng.sample(names, rng.randint(1, len(names))))}
        fam["skip"] = [g for g in names if rng.random() < 0.35] if skip else []
        if k % 7 == 0:
            fam["skip"] = []
        # without an Instantiator a sparse layer whose composites point outside the layer cannot be decomposed at all
        # (MissingComponentError, with or without skipping: not modelled) -> sparse families always get one
        fam["instantiator"] = True if fam.get("sparse") else ((rng.random() < 0.6) if with_inst is None else with_inst)
        fam["target"] = rng.choice(names)
        out.append(fam)
    return out


def glyph_sets(fam, copy_=True):
    """(ufos, glyphSets, instantiator|None) as BaseInterpolatablePreProcessor.__init__ builds them"""
    from ufo2ft.instantiator import Instantiator
    from ufo2ft.util import _GlyphSet

    ufos, layer_names, ds = build_family(fam)
    inst = None
    if fam.get("instantiator"):
        inst = Instantiator.from_designspace(ds, round_geometry=False, do_info=False, do_kerning=False)
    gss = [_GlyphSet.from_layer(u, ln, copy=copy_) for u, ln in zip(ufos, layer_names)]
    return ufos, gss, inst
