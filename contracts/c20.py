"""C20 — generated positioning features are reachable from every registered script.

Deductive part (pyvc, real ASTs):

  * BaseFeatureWriter.guessFontScripts   the script set the kern writer starts from: single-script code points of EXPORTED glyphs
                                         (glyph.name in the compiler's glyph set) plus the scripts of the languagesystem statements —
                                         nothing else (a non-exported glyph contributes no script)
  * featureWriters.ast.addLookupReferences  (literal language tuples, 1–2 symbolic lookups, any script tag)
                                         with a script: `script S; language dflt;` + the references, then `language L;` for EVERY
                                         other language handed in, in order; without a script: references only (no script /
                                         language statement, so the block registers under the file's languagesystems)
  * lemma C20.lemma.reach                with feaLib's registration rule (trusted): kerning registered under explicit script tags
                                         K and script-less mark/mkmk/curs blocks registered under the declared languagesystems LS
                                         satisfy the property iff every kerned script tag has `languagesystem <tag> dflt` — and
                                         the canary is the recorded finding F7 (no languagesystem at all: LS = {DFLT/dflt})


Outside the pyvc subset (notes/C20.requests.md), checked on the real functions by vcheck/hooks/c20.py (bounded):
ast.getScriptLanguageSystems against an independent reference (all languages per tag, non-contiguous statements),
KernFeatureWriter._registerLookups, "mark/mkmk/abvm/blwm/curs blocks carry no script/language statement", and the end-to-end observer
on GPOS.ScriptList (feature files without languagesystem statements are skipped: known finding F7).
"""
import z3

from pyvc import ty as T
from pyvc.api import BOOL, CLASSES, CONTRACTS, INT, SPECFNS, STR, Const, Dict, List, Loop, Opt, Ref, Runtime, Set, Tuple, cls, contract, lemma, specfn
from pyvc.core import Val, lift

from . import c17
from . import c17_model as M
from .c17_model import FEAFILE, NODE, NS

# =====================================================================================================================
# guessFontScripts

cls("c20_Glyph", fields={"name": STR, "unicodes": Opt(List(INT))}, notes="glyph of the source font: name, unicodes (None or a list)")


def _font_iter(ex, st, self, node):
    return ex.iter_info(ex.read_field(st, self, "glyphs"), st, node)


CLASSES["c17_Font"].fields["glyphs"] = List(Ref("c20_Glyph"))
CLASSES["c17_Font"].iter = _font_iter
CLASSES["c17_Font"].views["glyphs"] = lambda o: list(o)
CLASSES[NS].fields["glyphSet"] = Set(STR)
CLASSES[NS].views["glyphSet"] = lambda o: set(o.glyphSet.keys())
CLASSES[NS].views["font"] = lambda o: __import__("pyvc.rt", fromlist=["Proxy"]).Proxy(o.font, CLASSES["c17_Font"]) if o.font is not None else None


@specfn(List(STR), opaque=True, cp=INT)
def c20_script_ext(cp):
    """ufo2ft.util.unicodeScriptExtensions(cp) as a duplicate-free list (sorted) — a function of the code point (the helper
    wraps fontTools.unicodedata.script_extension and a constant alias table); opaque in the logic"""
    from ufo2ft.util import unicodeScriptExtensions

    return sorted(unicodeScriptExtensions(cp))


@specfn(Set(STR), opaque=True, feaFile=Ref(FEAFILE))
def langsys_scripts(feaFile):
    """the Unicode script codes of the feature file's languagesystem statements (DFLT excluded): the keys of
    ast.getScriptLanguageSystems(feaFile).  Opaque in the logic; the helper's own clause is checked by the hook."""
    from ufo2ft.featureWriters import ast

    return set(ast.getScriptLanguageSystems(M.raw(feaFile)).keys())


@M.shim_function("unicodeScriptExtensions", "ufo2ft.util.unicodeScriptExtensions(cp) (one line over fontTools.unicodedata) returns the set c20_script_ext(cp): a function of the "
                 "code point only; modelled as a duplicate-free list (len, update)")
def _use(ex, st, args, kwargs, node):
    return ex.apply_spec(SPECFNS["c20_script_ext"], [args[0]], st, node)


cls("c20_LangSysMap", fields={"feaFile": Ref(FEAFILE)},
    methods={"keys": lambda ex, st, self, a, k, n: ex.apply_spec(SPECFNS["langsys_scripts"], [ex.read_field(st, self, "feaFile")], st, n)},
    notes="the mapping returned by ast.getScriptLanguageSystems; only keys() is used here")


@M.shim_function("getScriptLanguageSystems", "ASSUMED CALL-SITE SUMMARY of ufo2ft.featureWriters.ast.getScriptLanguageSystems (nested setdefault().append() is outside the subset): "
                 "a mapping whose keys() is langsys_scripts(feaFile) — the helper's own clause is checked by bounded conformance in vcheck/hooks/c20.py")
def _gsls(ex, st, args, kwargs, node):
    o = ex.new_object(st, "c20_LangSysMap")
    ex.write_field(st, o, "feaFile", args[0], node)
    return o


cls("c20_Writer", fields={"context": Ref(NS)}, views={"context": lambda o: M.P(o.context)}, notes="a feature writer with its context (font, glyphSet, feaFile)")

_G = "self.context.font.glyphs"
_F = "self.context.feaFile"
_GS = "self.context.glyphSet"
_SINGLE = "(len(c20_script_ext({cp})) == 1 and c20_script_ext({cp})[0] == {s})"


def _from_glyph(g, s):
    return f"({g}.name in {_GS} and {g}.unicodes is not None and any({_SINGLE.format(cp='cp', s=s)} for cp in {g}.unicodes))"


contract(
    "ufo2ft.featureWriters.baseFeatureWriter:BaseFeatureWriter.guessFontScripts",
    props=["C20"],
    params={"self": Ref("c20_Writer")},
    returns=Set(STR),
    globals={"ast": M.fea_shim(getScriptLanguageSystems=_gsls), "unicodeScriptExtensions": Val.obj(__import__("pyvc.symex", fromlist=["FuncRef"]).FuncRef(_use, "c17shim.unicodeScriptExtensions"))},
    ensures={
        # every script comes from a languagesystem statement or from a single-script code point of an EXPORTED glyph
        "only-exported-glyphs-contribute": f"all(s in langsys_scripts({_F}) or any({_from_glyph(_G + '[a]', 's')} for a in range(len({_G}))) for s in result)",
        # and all of those are found
        "all-exported-single-scripts": f"all(implies({_G}[a].name in {_GS} and {_G}[a].unicodes is not None,"
        f" all(implies(len(c20_script_ext(cp)) == 1, c20_script_ext(cp)[0] in result) for cp in {_G}[a].unicodes)) for a in range(len({_G})))",
        "all-languagesystem-scripts": f"all(s in result for s in langsys_scripts({_F}))",
    },
    canaries={"every-glyph-contributes": f"all(implies({_G}[a].unicodes is not None, all(implies(len(c20_script_ext(cp)) == 1, c20_script_ext(cp)[0] in result) for cp in {_G}[a].unicodes)) for a in range(len({_G})))"},
    locals={"single_scripts": Set(STR)},
    loops={
        "for glyph in font": Loop(
            index="i",
            seq="GL",
            invariants={
                "sound": f"all(any({_from_glyph('GL[a]', 's')} for a in range(i)) for s in single_scripts)",
                "complete": f"all(implies(GL[a].name in {_GS} and GL[a].unicodes is not None, all(implies(len(c20_script_ext(cp)) == 1, c20_script_ext(cp)[0] in single_scripts) for cp in GL[a].unicodes)) for a in range(i))",
            },
        ),
        "for codepoint in glyph.unicodes": Loop(
            index="j",
            seq="U",
            invariants={
                "sound": f"all(any({_from_glyph('GL[a]', 's')} for a in range(i)) or any({_SINGLE.format(cp='U[b]', s='s')} for b in range(j)) for s in single_scripts)",
                "complete": f"all(implies(GL[a].name in {_GS} and GL[a].unicodes is not None, all(implies(len(c20_script_ext(cp)) == 1, c20_script_ext(cp)[0] in single_scripts) for cp in GL[a].unicodes)) for a in range(i))",
                "complete-cur": "all(implies(len(c20_script_ext(U[b])) == 1, c20_script_ext(U[b])[0] in single_scripts) for b in range(j))",
            },
        ),
    },
)

# =====================================================================================================================
# ast.addLookupReferences

_S = "feature.statements"
_LK = [Val(Ref(NODE), z3.Const("c20_lookup0", T.RefSort)), Val(Ref(NODE), z3.Const("c20_lookup1", T.RefSort))]


def _alr(name, n_lookups, languages, exclude_dflt, with_script):
    lks = _LK[:n_lookups]
    n = n_lookups
    ens = {"user-prefix-kept": f"{_S.replace('statements', 'stmt_ids')}[:len(old({_S}))] == old(feature.stmt_ids)"}
    base = f"len(old({_S}))"
    if not with_script:
        ens["references-only"] = f"len({_S}) == {base} + {n} and " + " and ".join(
            f"{_S}[{base} + {k}].kind == 'LookupReferenceStatement' and {_S}[{base} + {k}].lookup == lookups[{k}]" for k in range(n))
        ens["no-script-or-language-statement"] = f"all({_S}[k].kind not in ('ScriptStatement', 'LanguageStatement') for k in range({base}, len({_S})))"
    elif not exclude_dflt:
        others = [l for l in (languages or ()) if l != "dflt"]
        ens["script-then-dflt"] = (f"{_S}[{base}].kind == 'ScriptStatement' and {_S}[{base}].script == script and {_S}[{base} + 1].kind == 'LanguageStatement'"
                                   f" and {_S}[{base} + 1].language == 'dflt' and {_S}[{base} + 1].include_default")
        ens["references-under-dflt"] = " and ".join(
            f"{_S}[{base} + {2 + k}].kind == 'LookupReferenceStatement' and {_S}[{base} + {2 + k}].lookup == lookups[{k}]" for k in range(n))
        # EVERY other language handed in gets its own `language L;` (include_default: inherits the dflt references), in order
        ens["every-language-registered"] = f"len({_S}) == {base} + {2 + n + len(others)}" + "".join(
            f" and {_S}[{base} + {2 + n + k}].kind == 'LanguageStatement' and {_S}[{base} + {2 + n + k}].language == '{l}' and {_S}[{base} + {2 + n + k}].include_default"
            for k, l in enumerate(others))
    else:
        langs = list(languages or ("dflt",))
        ens["script-first"] = f"{_S}[{base}].kind == 'ScriptStatement' and {_S}[{base}].script == script"
        parts = []
        pos = 1
        for l in langs:
            parts.append(f"{_S}[{base} + {pos}].kind == 'LanguageStatement' and {_S}[{base} + {pos}].language == '{l}' and not {_S}[{base} + {pos}].include_default")
            pos += 1
            for k in range(n):
                parts.append(f"{_S}[{base} + {pos}].kind == 'LookupReferenceStatement' and {_S}[{base} + {pos}].lookup == lookups[{k}]")
                pos += 1
        ens["every-language-with-its-references"] = f"len({_S}) == {base} + {pos} and " + " and ".join(parts)
    params = {"feature": Ref(NODE), "lookups": Const(list(lks)), "languages": Const(languages), "exclude_dflt": Const(exclude_dflt)}
    params["script"] = STR if with_script else Const(None)
    contract(
        "ufo2ft.featureWriters.ast:addLookupReferences",
        name=name,
        props=["C20"],
        params=params,
        globals={"ast": M.fea_shim(), "isinstance": M.ISINSTANCE},
        requires=["len(script) > 0"] if with_script else [],
        modifies=["c17_Node.statements"],
        ensures=ens,
        canaries={"nothing-added": f"len({_S}) == {base}"},
    )


_alr("script-dflt-TRK-AZE", 2, ("dflt", "TRK ", "AZE "), False, True)
_alr("script-TRK-only", 1, ("TRK ",), False, True)
_alr("script-URD-dflt", 2, ("URD ", "dflt"), False, True)
_alr("script-no-languages", 1, None, False, True)
_alr("script-exclude-dflt", 1, ("dflt", "TRK "), True, True)
_alr("no-script", 2, None, False, False)

# =====================================================================================================================
# the registration lemma

PAIR = Tuple(STR, STR)
lemma(
    "C20.lemma.reach",
    props=["C20"],
    vars={"LS": Set(PAIR), "K": Set(PAIR), "REACH_KERN": Set(PAIR), "REACH_MARK": Set(PAIR), "nols": BOOL},
    hyps=[
        # feaLib's registration rule (TRUSTED; observed on compiled fonts by the hook): a block made only of `script/language` sections registers
        # its lookups under exactly those (script, language) pairs [addLookupReferences: the generated kern/dist blocks are of this shape] ...
        "REACH_KERN == K",
        # ... a block without script statements registers under every declared languagesystem, DFLT/dflt standing in when none is declared
        # [mark/mkmk/abvm/blwm/curs blocks are of this shape: bounded check in the hook]
        "implies(not nols, REACH_MARK == LS)",
        "implies(nols, REACH_MARK == {('DFLT', 'dflt')})",
        # the condition under which the property holds: every script tag the kern writer registers has a `languagesystem <tag> dflt;`
        "all((p[0], 'dflt') in LS for p in K)",
        "not nols",
    ],
    concl={
        # a script that exposes generated kerning exposes the generated mark / mkmk / curs from its default language system
        "kerned-scripts-reach-marks": "all(implies(p in REACH_KERN, (p[0], 'dflt') in REACH_MARK) for p in K)",
    },
    # F7 (known finding, recorded by the lead): WITHOUT languagesystem statements the mark block is reachable from DFLT/dflt only while
    # kerning is registered per script — the conclusion must not be provable there
    canaries={"F7-holds-even-for-DFLT-only-marks": "all((p[0], 'dflt') in {('DFLT', 'dflt')} for p in K)"},
)


# ---- run-time side ---------------------------------------------------------------------------------------------------


def _gfs_cases(rng, n):
    pool = [("a", [0x61]), ("beh-ar", [0x628]), ("comma-ar", [0x60C]), ("alaph-sy", [0x710]), ("alpha", [0x3B1]), ("nouni", None), ("two", [0x41, 0x410]), ("empty", [])]
    feas = ["", "languagesystem DFLT dflt;\n", "languagesystem DFLT dflt;\nlanguagesystem arab dflt;\n", "languagesystem latn dflt;\nlanguagesystem arab URD;\nlanguagesystem latn TRK;\n", "languagesystem grek dflt;\n"]
    out = []
    for _ in range(n):
        gl = rng.sample(pool, rng.randint(0, len(pool)))
        skip = [nm for nm, _ in gl if rng.random() < 0.35]
        out.append({"glyphs": [[nm, us] for nm, us in gl], "skip": skip, "fea": rng.choice(feas)})
    return out


def _gfs_build(d):
    import types

    import ufoLib2

    from ufo2ft.featureWriters import KernFeatureWriter

    ufo = ufoLib2.Font()
    for nm, us in d["glyphs"]:
        g = ufo.newGlyph(nm)
        if us is not None:
            g.unicodes = list(us)
    w = KernFeatureWriter()
    w.context = types.SimpleNamespace(font=ufo, glyphSet={g.name: g for g in ufo if g.name not in set(d["skip"])}, feaFile=c17.parse_fea(d["fea"]))
    return {"self": w}


CONTRACTS["ufo2ft.featureWriters.baseFeatureWriter:BaseFeatureWriter.guessFontScripts"].runtime = Runtime(_gfs_cases, _gfs_build, call=lambda fn, a: fn(a["self"]))


def _alr_runtime(key, n_lookups, languages, exclude_dflt, with_script):
    def gen(rng, n):
        return [{"script": s, "pre": p} for s in (["latn", "arab", "DFLT"] if with_script else [None]) for p in (0, 1, 3)]

    def build(d):
        from fontTools.feaLib import ast as fa

        f = fa.FeatureBlock("kern")
        for k in range(d["pre"]):
            f.statements.append(fa.Comment(f"# user {k}"))
        return {"feature": f, "lookups": [fa.LookupBlock(f"l{k}") for k in range(n_lookups)], "script": d["script"], "languages": languages, "exclude_dflt": exclude_dflt}

    CONTRACTS[key].runtime = Runtime(gen, build, call=lambda fn, a: fn(a["feature"], a["lookups"], a["script"], a["languages"], a["exclude_dflt"]))


for _nm, _n, _l, _x, _w in (("script-dflt-TRK-AZE", 2, ("dflt", "TRK ", "AZE "), False, True), ("script-TRK-only", 1, ("TRK ",), False, True), ("script-URD-dflt", 2, ("URD ", "dflt"), False, True),
                            ("script-no-languages", 1, None, False, True), ("script-exclude-dflt", 1, ("dflt", "TRK "), True, True), ("no-script", 2, None, False, False)):
    _alr_runtime("ufo2ft.featureWriters.ast:addLookupReferences#" + _nm, _n, _l, _x, _w)


# =====================================================================================================================
# ast.getScriptLanguageSystems (reachable since the engine supports d.setdefault(k, []).append(x)): set-level clauses —
# the filtered list comprehension is modelled without order, so "in statement order" stays with the hook


@specfn(STR, opaque=True, tag=STR)
def c20_ot_script(tag):
    """fontTools.unicodedata.ot_tag_to_script(tag): a function of the tag (trusted library, opaque in the logic)"""
    from fontTools import unicodedata

    return unicodedata.ot_tag_to_script(tag)


@M.shim_function("OrderedDict", "collections.OrderedDict() is an empty insertion-ordered dict")
def _ordered_dict(ex, st, args, kwargs, node):
    from pyvc.core import PYOBJ, Unsupported

    if args or kwargs:
        raise Unsupported("OrderedDict with arguments", node)
    return Val(PYOBJ, None, {}, True)


@M.shim_function("ot_tag_to_script", "fontTools.unicodedata.ot_tag_to_script(tag) returns c20_ot_script(tag): a function of the tag")
def _ot_tag_to_script(ex, st, args, kwargs, node):
    return ex.apply_spec(SPECFNS["c20_ot_script"], [args[0]], st, node)


import types as _types  # noqa: E402

_COLLECTIONS = _types.ModuleType("c20collections")
_COLLECTIONS.OrderedDict = _ordered_dict
_UNICODEDATA = _types.ModuleType("c20unicodedata")
_UNICODEDATA.ot_tag_to_script = _ot_tag_to_script

LANGMAP = Dict(STR, List(Tuple(STR, List(STR))))
_ST = "feaFile.statements"
_KEPT = "({s}.kind == 'LanguageSystemStatement' and not ({s}.script == 'DFLT' and excludeDflt))"
# NOT REGISTERED (props=[]): every obligation of this contract has been discharged (soundness half `only-declared`; completeness is
# run-time only), but `inv.step.tag` / `inv.step.languages` of the second loop (nested dict-of-list update) are proved by one solver
# configuration only and flip to `unknown` under harmless renamings, so the contract would make `./check C20` unstable.  It is kept for
# the day the encoding of `d.setdefault(k, []).append(x)` is cheaper (notes/C20.requests.md item 5); the helper is checked by the hook.
contract(
    "ufo2ft.featureWriters.ast:getScriptLanguageSystems",
    props=[],
    params={"feaFile": Ref(FEAFILE), "excludeDflt": BOOL},
    returns=LANGMAP,
    globals={"ast": M.fea_shim(), "isinstance": M.ISINSTANCE, "collections": Val.obj(_COLLECTIONS), "unicodedata": Val.obj(_UNICODEDATA)},
    ensures={
        # nothing but declared languagesystems is reported: every (tag, languages) entry stands under the tag's Unicode script, and every listed
        # language comes from a `languagesystem <tag> <language>` statement (DFLT ones only when not excluded)
        "only-declared": f"all(all(c20_ot_script(e[0]) == sc and all(any({_KEPT.format(s=_ST + '[a]')} and {_ST}[a].script == e[0] and {_ST}[a].language == l"
        f" for a in range(len({_ST}))) for l in e[1]) for e in result[sc]) for sc in result)",
    },
    bounded_ensures={
        # ALL languages of a tag, wherever in the file the statements stand.  Run-time only: the engine models a filtered list comprehension
        # without an index for "every passing element occurs in the result", which this direction needs (notes/C20.requests.md)
        "all-languages-per-tag": f"all(implies({_KEPT.format(s=_ST + '[a]')}, c20_ot_script({_ST}[a].script) in result"
        f" and any(e[0] == {_ST}[a].script and {_ST}[a].language in e[1] for e in result[c20_ot_script({_ST}[a].script)])) for a in range(len({_ST})))",
    },
    canaries={"nothing-reported": "all(len(result[sc]) == 0 for sc in result)"},
    locals={"languagesByScript": Dict(STR, List(STR)), "langSysMap": LANGMAP},
    ghost_vars={"wl": (Dict(Tuple(STR, STR), INT), "{}")},
    ghost={"languagesByScript.setdefault(ls.script, []).append(ls.language)": ["wl = {**wl, (ls.script, ls.language): i}"]},
    loops={
        "for ls in [st for st in feaFile.statements if isinstance(st, ast.LanguageSystemStatement)]": Loop(
            index="i",
            seq="R",
            invariants={
                # ghost witness wl[(tag, language)] = a position of R that contributed the pair
                "sound": "all(all((t, l) in wl and 0 <= wl[(t, l)] and wl[(t, l)] < i and R[wl[(t, l)]].script == t and R[wl[(t, l)]].language == l"
                " and not (t == 'DFLT' and excludeDflt) for l in languagesByScript[t]) for t in languagesByScript)",
            },
        ),
        "for (script, languages) in languagesByScript.items()": Loop(
            index="j",
            seq="KT",
            invariants={
                "script": "all(all(c20_ot_script(e[0]) == sc for e in langSysMap[sc]) for sc in langSysMap)",
                "tag": "all(all(e[0] in languagesByScript for e in langSysMap[sc]) for sc in langSysMap)",
                "languages": "all(all(e[1] == languagesByScript[e[0]] for e in langSysMap[sc]) for sc in langSysMap)",
            },
        ),
    },
)


def _gsls_cases(rng, n):
    tags = [("DFLT", "dflt"), ("latn", "dflt"), ("latn", "TRK"), ("latn", "AZE"), ("arab", "dflt"), ("arab", "URD"), ("dev2", "dflt"), ("deva", "dflt"), ("deva", "MAR")]
    out = [{"pairs": [["DFLT", "dflt"], ["latn", "dflt"], ["arab", "dflt"], ["latn", "TRK"], ["arab", "URD"]], "exclude": True}]
    for _ in range(n - 1):
        ps = rng.sample(tags, rng.randint(0, 6))
        if ("DFLT", "dflt") in ps:
            ps.remove(("DFLT", "dflt"))
            ps.insert(0, ("DFLT", "dflt"))
        out.append({"pairs": [list(p) for p in ps], "exclude": rng.random() < 0.6})
    return out


CONTRACTS["ufo2ft.featureWriters.ast:getScriptLanguageSystems"].runtime = Runtime(
    _gsls_cases,
    lambda d: {"feaFile": c17.parse_fea("".join(f"languagesystem {s} {l};\n" for s, l in d["pairs"]) + "feature liga {\n    sub a by b;\n} liga;\n"), "excludeDflt": d["exclude"]},
    call=lambda fn, a: fn(a["feaFile"], a["excludeDflt"]),
)
