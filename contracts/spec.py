"""Spec functions shared by the contracts.

Each is an ordinary Python function: executed natively by the run-time interpreter
(cross-check, replay) and executed *symbolically* by pyvc to obtain its defining equation
at the argument terms that occur in an obligation (ground unfolding, fuel-bounded).
They are structurally recursive on an integer argument (termination is by inspection and by
the native cross-check; it is listed as an assumption).
"""
from pyvc.api import BOOL, INT, REAL, STR, Dict, List, Opt, Set, Tuple, specfn


@specfn(Set(STR), O=List(STR), i=INT)
def elems_upto(O, i):
    """set of the first i entries of O"""
    if i <= 0:
        return set()
    return elems_upto(O, i - 1) | {O[i - 1]}


@specfn(List(STR), O=List(STR), S=Set(STR), i=INT)
def firsts(O, S, i):
    """members of S among O[:i], each at its first occurrence, in list order"""
    if i <= 0:
        return []
    prev = firsts(O, S, i - 1)
    x = O[i - 1]
    if x in S and x not in elems_upto(O, i - 1):
        return prev + [x]
    return prev


@specfn(Set(STR), keys=Set(STR))
def without_notdef(keys):
    return keys - {".notdef"}


@specfn(List(STR), keys=Set(STR))
def notdef_head(keys):
    if ".notdef" in keys:
        return [".notdef"]
    return []


@specfn(List(STR), keys=Set(STR), O=List(STR))
def official_order(keys, O):
    """The glyph order of property C03: .notdef, then listed names, then the rest sorted."""
    S = without_notdef(keys)
    return notdef_head(keys) + firsts(O, S, len(O)) + sorted(S - elems_upto(O, len(O)))


@specfn(INT, opaque=True, s=STR)
def int_hex(s):
    """int(s, 16) — uninterpreted in the logic (the same symbol the code's int(x, 16) is encoded with)"""
    return int(s, 16)


@specfn(Tuple(INT, Opt(STR)), hv=STR, gm=Dict(STR, STR), M=Dict(INT, STR))
def uvs_entry(hv, gm, M):
    """format-14 entry for base value hv: default (None) iff it names the base mapping's glyph"""
    v = int_hex(hv)
    if gm[hv] == M[v]:
        return (v, None)
    return (v, gm[hv])


@specfn(BOOL, L=List(Tuple(INT, Opt(STR))), gm=Dict(STR, STR), M=Dict(INT, STR))
def uvs_list_ok(L, gm, M):
    """L lists one entry per base value of gm, in gm's order"""
    K = list(gm)
    return len(L) == len(K) and all(L[b] == uvs_entry(K[b], gm, M) for b in range(len(K)))
