"""C06 — run-time side: independent reference semantics, the end-to-end GPOS observer, bounded harnesses.

Nothing in this file is imported from the mark feature writer except to *run* it: the expected side
(anchor-name grammar, quantisation, which pairs attach, where) is written from the property statement
and from the OpenType GPOS lookup semantics, with exact rational arithmetic.
"""
from __future__ import annotations

import itertools
import math
from fractions import Fraction

# ---------------------------------------------------------------------------------------------------------
# reference semantics of anchor names (property: 'x', '_x', 'x_N'; regex-free, character level)

DIGITS = "0123456789"


class Invalid(Exception):
    pass


def ref_parse(name):
    """(isMark, key, number, isContextual, isIgnorable) of an anchor name, or raise Invalid.

    Grammar (markFeatureWriter docstrings + property C06): a leading '*' marks a contextual anchor whose
    name ends at the first '.'; a maximal run of trailing digits preceded by '_' is the ligature component
    number; a leading '_' (with something left after it) marks a mark anchor, which must not be numbered
    and must not be empty; a key that does not start with a letter is ignorable."""
    assert name
    ctx = False
    if name[0] == "*":
        ctx = True
        name = name[1:]
        dot = name.find(".")
        if dot >= 0:
            name = name[:dot]
    n = len(name)
    d = n
    while d > 0 and name[d - 1] in DIGITS and name[d - 1].isdigit():
        d -= 1
    key, number = name, None
    if d < n and d > 0 and name[d - 1] == "_":
        key, number = name[: d - 1], int(name[d:])
    if name[:1] == "_" and key != "":
        if number is not None:
            raise Invalid("numbered mark anchor")
        key = key[1:]
        if key == "":
            raise Invalid("empty mark key")
        mark = True
    else:
        mark = False
    ignorable = key != "" and not key[0].isalpha()
    return mark, key, number, ctx, ignorable


def round_q(v, q):
    """nearest multiple of q (ties upwards), exact: q * floor(v/q + 1/2)"""
    v = Fraction(str(v))
    return q * math.floor(v / q + Fraction(1, 2))


# ---------------------------------------------------------------------------------------------------------
# expected attachments of a small UFO description (the specification side of the observer)


def expected_attachments(desc):
    """-> (pairs, ncomp): pairs[(kind, glyph, component, markGlyph)] = set of (dx, dy) candidates;
    ncomp[ligatureGlyph] = number of components its MarkLigPos records must have."""
    q = desc.get("q", 1)
    cats = desc.get("categories") or None
    glyphs = desc["glyphs"]
    parsed = {}
    for g, gd in glyphs.items():
        if cats is not None and g not in cats:
            continue  # GDEF classes defined: glyphs outside every class take no part
        seen = {}
        for nm, x, y in gd.get("anchors", []):
            if not nm:
                continue
            mark, key, number, ctx, ign = ref_parse(nm)
            if ctx or ign:
                continue
            seen[nm] = (mark, key, number, round_q(x, q), round_q(y, q))
        if seen:
            parsed[g] = seen
    mark_anchor_names = {nm for an in parsed.values() for nm, a in an.items() if a[0]}
    attaching_keys = {a[1] for an in parsed.values() for a in an.values() if not a[0] and a[1] and "_" + a[1] in mark_anchor_names}
    mark_glyphs = set()
    for g, an in parsed.items():
        if cats is not None and cats.get(g) != "mark":
            continue
        if any(a[0] and a[1] in attaching_keys for a in an.values()):
            mark_glyphs.add(g)
    pairs = {}
    ncomp = {}
    for g, an in parsed.items():
        for nm, (mark, key, number, x, y) in an.items():
            if mark:
                continue
            if g in mark_glyphs:
                kind, comp = "mkmk", 0
                if number is not None:
                    continue
            elif number is None:
                kind, comp = "base", 0
                if cats is not None and cats.get(g) != "base":
                    continue
            else:
                kind, comp = "liga", number - 1
                if cats is not None and cats.get(g) != "ligature":
                    continue
                if key in attaching_keys or key == "":
                    ncomp[g] = max(ncomp.get(g, 0), number)
            if key not in attaching_keys:
                continue
            for m in sorted(mark_glyphs):
                ma = parsed[m].get("_" + key)
                if ma is None:
                    continue
                pairs.setdefault((kind, g, comp, m), set()).add((x - ma[3], y - ma[4]))
    # a ligature whose only entries are bare '_N' placeholders produces no statement at all
    ncomp = {g: n for g, n in ncomp.items() if any(k[0] == "liga" and k[1] == g for k in pairs)}
    return pairs, ncomp


# ---------------------------------------------------------------------------------------------------------
# independent interpreter of the compiled GPOS (OpenType spec: lookup types 4, 5, 6; extension type 9)


def _anchor(a):
    return None if a is None else (a.XCoordinate, a.YCoordinate)


def observed_attachments(ttFont):
    """-> (pairs, ncomp, per_feature): every (kind, glyph, component, markGlyph) -> set of offsets that some
    lookup of some feature applies; ncomp[glyph] = set of component counts seen in MarkLigPos records."""
    pairs, ncomp, feats = {}, {}, {}
    if "GPOS" not in ttFont:
        return pairs, ncomp, feats
    table = ttFont["GPOS"].table
    for fr in table.FeatureList.FeatureRecord:
        for li in fr.Feature.LookupListIndex:
            lk = table.LookupList.Lookup[li]
            for st in lk.SubTable:
                if lk.LookupType == 9:
                    st = st.ExtSubTable
                name = type(st).__name__
                if name == "MarkBasePos":
                    marks, bases, kind = st.MarkCoverage.glyphs, st.BaseCoverage.glyphs, "base"
                    recs = [[br.BaseAnchor] for br in st.BaseArray.BaseRecord]
                    markrecs = st.MarkArray.MarkRecord
                elif name == "MarkMarkPos":
                    marks, bases, kind = st.Mark1Coverage.glyphs, st.Mark2Coverage.glyphs, "mkmk"
                    recs = [[br.Mark2Anchor] for br in st.Mark2Array.Mark2Record]
                    markrecs = st.Mark1Array.MarkRecord
                elif name == "MarkLigPos":
                    marks, bases, kind = st.MarkCoverage.glyphs, st.LigatureCoverage.glyphs, "liga"
                    recs = [[cr.LigatureAnchor for cr in la.ComponentRecord] for la in st.LigatureArray.LigatureAttach]
                    markrecs = st.MarkArray.MarkRecord
                else:
                    continue
                for bi, g in enumerate(bases):
                    if kind == "liga":
                        ncomp.setdefault(g, set()).add(len(recs[bi]))
                    for ci, anchors in enumerate(recs[bi]):
                        for mi, m in enumerate(marks):
                            mr = markrecs[mi]
                            ba = _anchor(anchors[mr.Class])
                            ma = _anchor(mr.MarkAnchor)
                            if ba is None or ma is None:
                                continue
                            off = (ba[0] - ma[0], ba[1] - ma[1])
                            pairs.setdefault((kind, g, ci, m), set()).add(off)
                            feats.setdefault((kind, g, ci, m), set()).add(fr.FeatureTag)
    return pairs, ncomp, feats


def compile_gpos(desc):
    """Real UFO -> real MarkFeatureWriter -> feaLib -> TTFont with GPOS (no outlines needed)."""
    from fontTools.ttLib import TTFont

    from ufo2ft.featureCompiler import FeatureCompiler
    from ufo2ft.featureWriters import MarkFeatureWriter

    from . import rtlib

    d = dict(desc)
    lib = dict(d.get("lib", {}))
    if d.get("categories"):
        lib["public.openTypeCategories"] = dict(d["categories"])
    d["lib"] = lib
    ufo = rtlib.build_ufo(d)
    tt = TTFont()
    tt.setGlyphOrder([g.name for g in ufo])
    w = MarkFeatureWriter(quantization=d.get("q", 1), groupMarkClasses=bool(d.get("group", False)), **({"mode": d["mode"]} if d.get("mode") else {}))
    fc = FeatureCompiler(ufo, tt, featureWriters=[w])
    fc.compile()
    return tt


def observe_case(desc):
    """-> list of discrepancies between the compiled GPOS and the property (empty = conforms)."""
    exp, exp_n = expected_attachments(desc)
    tt = compile_gpos(desc)
    obs, obs_n, _ = observed_attachments(tt)
    out = []
    for k in sorted(set(exp) | set(obs)):
        e, o = exp.get(k, set()), obs.get(k, set())
        if not e:
            out.append(f"unexpected attachment {k}: offsets {sorted(o)} but no matching anchor pair in the source")
        elif not o:
            out.append(f"missing attachment {k}: source defines {sorted(e)}")
        elif e != o:
            out.append(f"wrong offset {k}: compiled {sorted(o)} != quantised base - quantised mark {sorted(e)}")
    for g in sorted(set(exp_n) | set(obs_n)):
        if obs_n.get(g, set()) != {exp_n.get(g)}:
            out.append(f"ligature {g}: component counts {sorted(obs_n.get(g, set()))} != {exp_n.get(g)}")
    return out


# ---------------------------------------------------------------------------------------------------------
# observer case generator: small UFOs (fractional coordinates, even steps, ligature gaps, unmatched names)

_XS = [0, 0.4, 4.5, 5, 14.6, 95, 104.6, 104.5, 105, 250.4, -45.4, -5.5, 700.5, 704.5, 333.3]
_QS = [1, 1, 2, 5, 10, 10, 20]


def _xy(rng):
    return rng.choice(_XS), rng.choice(_XS)


FIXED_CASES = [
    # ligature gap top_1 + top_3, even step with coordinates just below the half step
    {"q": 10, "glyphs": {
        "a": {"unicodes": [97], "anchors": [["top", 250.4, 504.6], ["bottom", 250, -14.6]]},
        "f_f_i": {"anchors": [["top_1", 104.6, 700.5], ["top_3", 704.5, 695]]},
        "acutecomb": {"unicodes": [0x301], "anchors": [["_top", 0.4, 494.6], ["top", 5, 650.2]]},
        "dotbelow": {"unicodes": [0x323], "anchors": [["_bottom", 0, -5.5]]}}},
    # gap created by an anchor class without any mark (ogonek_2), explicit NULL placeholder _2 elsewhere
    {"q": 1, "glyphs": {
        "f_f_l": {"anchors": [["top_1", 100, 700], ["ogonek_2", 300, 0], ["top_3", 500, 700]]},
        "f_i": {"anchors": [["_1", 0, 0], ["top_2", 300.5, 700]]},
        "f_f": {"anchors": [["top_2", 300.5, 700]]},
        "gravecomb": {"unicodes": [0x300], "anchors": [["_top", 0, 500]]}}},
    # unmatched names: 'ring' has no '_ring', '_cedilla' has no 'cedilla'; top.alt vs top
    {"q": 2, "group": True, "glyphs": {
        "a": {"unicodes": [97], "anchors": [["top", 101, 501], ["ring", 100, 400], ["top.alt", 120, 520]]},
        "b": {"unicodes": [98], "anchors": [["bottom", 99, -11]]},
        "acutecomb": {"unicodes": [0x301], "anchors": [["_top", 1, 3], ["_top.alt", 5, 5], ["_cedilla", 0, 0]]},
        "macronbelow": {"unicodes": [0x331], "anchors": [["_bottom", 7, -7], ["_top", 7, 7]]}}},
]


def observer_cases(rng, n):
    out = [dict(c) for c in FIXED_CASES]
    keys = ["top", "bottom", "ogonek", "top.alt"]
    while len(out) < n:
        glyphs = {}
        nb, nm, nl = rng.randint(0, 2), rng.randint(1, 3), rng.randint(0, 2)
        used = rng.sample(keys, rng.randint(1, 3))
        for i in range(nm):
            an = []
            for k in rng.sample(used, rng.randint(1, len(used))):
                an.append(["_" + k, *_xy(rng)])
            if rng.random() < 0.4:  # mark-to-mark
                an.append([rng.choice(keys), *_xy(rng)])
            glyphs["mark%d" % i] = {"unicodes": [0x300 + i], "anchors": an}
        for i in range(nb):
            an = [[k, *_xy(rng)] for k in rng.sample(keys, rng.randint(0, 3))]
            glyphs["base%d" % i] = {"unicodes": [0x915 + i] if rng.random() < 0.25 else [97 + i], "anchors": an}
        for i in range(nl):
            an = []
            for comp in rng.sample([1, 2, 3, 4], rng.randint(1, 3)):
                r = rng.random()
                if r < 0.2:
                    an.append(["_%d" % comp, 0, 0])
                else:
                    for k in rng.sample(keys, rng.randint(1, 2)):
                        an.append(["%s_%d" % (k, comp), *_xy(rng)])
            rng.shuffle(an)
            glyphs["liga%d" % i] = {"anchors": an}
        d = {"q": rng.choice(_QS), "group": rng.random() < 0.4, "glyphs": glyphs}
        if rng.random() < 0.3:
            cats = {}
            for g in glyphs:
                if rng.random() < 0.85:
                    cats[g] = "mark" if g.startswith("mark") else "ligature" if g.startswith("liga") else "base"
            d["categories"] = cats
        out.append(d)
    return out[:n]


# ---------------------------------------------------------------------------------------------------------
# real writer objects at a chosen stage of MarkFeatureWriter._write (run-time harness of the function contracts)

STAGES = ("context", "pruned", "classes", "assigned")


def writer_at(desc, stage="assigned"):
    """A real MarkFeatureWriter on the UFO described by `desc`, with the real context, advanced by the real
    methods to: context (setContext done) < pruned (_pruneUnusedAnchors) < classes (_makeMarkClassDefinitions)
    < assigned (_setBaseAnchorMarkClasses)."""
    from fontTools.feaLib import ast as fea_ast

    from ufo2ft.featureWriters import MarkFeatureWriter

    from . import rtlib

    d = dict(desc)
    lib = dict(d.get("lib", {}))
    if d.get("categories"):
        lib["public.openTypeCategories"] = dict(d["categories"])
    d["lib"] = lib
    ufo = rtlib.build_ufo(d)
    w = MarkFeatureWriter(quantization=d.get("q", 1), groupMarkClasses=bool(d.get("group", False)))
    w.setContext(ufo, fea_ast.FeatureFile())
    k = STAGES.index(stage)
    if k >= 1:
        w._pruneUnusedAnchors()
    if k >= 2:
        w._makeMarkClassDefinitions()
    if k >= 3:
        w._setBaseAnchorMarkClasses()
    return w


def stage_cases(rng, n):
    return observer_cases(rng, n)


def group_attachments_check(desc):
    """_groupAttachments on the real base/ligature attachments of `desc`: every (glyph, component, anchor) of the input
    is in exactly one lookup; no lookup holds two mark classes sharing a mark glyph; component counts are kept."""
    out = []
    w = writer_at(desc, "assigned")
    for kind, atts in (("base", w._makeMarkToBaseAttachments()), ("liga", w._makeMarkToLigaAttachments())):
        lookups = w._groupAttachments(atts)

        def items(att):
            comps = att.marks if kind == "liga" else [att.marks]
            return [(att.name, ci, id(a)) for ci, comp in enumerate(comps) for a in comp]

        want = [it for att in atts for it in items(att)]
        got = [it for lk in lookups for att in lk for it in items(att)]
        if sorted(want) != sorted(got):
            out.append(f"{kind}: attachments after grouping differ from the input (each must be in exactly one lookup): {len(want)} in, {len(got)} out")
        for li, lk in enumerate(lookups):
            classes = {}
            for att in lk:
                comps = att.marks if kind == "liga" else [att.marks]
                for comp in comps:
                    for a in comp:
                        classes[a.markClass.name] = set(a.markClass.glyphs)
                if kind == "liga":
                    src = [x for x in atts if x.name == att.name][0]
                    if len(att.marks) != len(src.marks):
                        out.append(f"liga lookup {li}: {att.name} has {len(att.marks)} components, input had {len(src.marks)}")
            names = sorted(classes)
            for i1 in range(len(names)):
                for i2 in range(i1 + 1, len(names)):
                    both = classes[names[i1]] & classes[names[i2]]
                    if both:
                        out.append(f"{kind} lookup {li}: mark classes {names[i1]} and {names[i2]} share {sorted(both)}")
    return out


# ---------------------------------------------------------------------------------------------------------
# bounded enumeration of the anchor-name grammar through the REAL parseAnchorName

ALPHABET = "ab_*.012"


def parse_real(name):
    """('ok', isMark, key, number, isContextual, bool(isIgnorable)) or ('ValueError',) / ('AssertionError',) from the real code"""
    from ufo2ft.featureWriters.markFeatureWriter import parseAnchorName

    try:
        r = parseAnchorName(name)
    except ValueError:
        return ("ValueError",)
    return ("ok", r[0], r[1], r[2], r[3], bool(r[4]))


def parse_ref(name):
    try:
        r = ref_parse(name)
    except Invalid:
        return ("ValueError",)
    return ("ok", r[0], r[1], r[2], r[3], bool(r[4]))


def parse_enumeration(maxlen, extra=()):
    """-> (evaluations, failures): every non-empty string over ALPHABET up to maxlen (+ extra names)."""
    fails = []
    n = 0
    names = itertools.chain.from_iterable(("".join(t) for t in itertools.product(ALPHABET, repeat=k)) for k in range(1, maxlen + 1))
    for name in itertools.chain(names, extra):
        n += 1
        real, ref = parse_real(name), parse_ref(name)
        if real != ref:
            fails.append({"name": name, "clause": "summary", "real": list(real), "expected": list(ref)})
        elif real[0] == "ok":
            _, mark, key, number, ctx, ign = real
            if mark and (key == "" or number is not None):
                fails.append({"name": name, "clause": "mark-has-key", "real": list(real)})
        if len(fails) > 20:
            break
    return n, fails


def grammar_clauses(keys, numbers):
    """the property's own sentences about names, through the real function: key_N -> (False, key, N); _key -> mark key;
    _key_N is rejected; a plain key is a base anchor of that key."""
    fails = []
    n = 0
    for key in keys:
        for N in numbers:
            n += 3
            if parse_real(f"{key}_{N}")[:4] != ("ok", False, key, N):
                fails.append({"name": f"{key}_{N}", "clause": "x_N is key x on component N", "real": list(parse_real(f"{key}_{N}"))})
            if parse_real(f"_{key}_{N}") != ("ValueError",):
                fails.append({"name": f"_{key}_{N}", "clause": "numbered mark anchor is rejected", "real": list(parse_real(f"_{key}_{N}"))})
            if parse_real(f"_{N}")[:4] != ("ok", False, "", N):
                fails.append({"name": f"_{N}", "clause": "bare _N is the NULL anchor of component N", "real": list(parse_real(f"_{N}"))})
        n += 2
        if parse_real(key)[:4] != ("ok", False, key, None):
            fails.append({"name": key, "clause": "x is base anchor x", "real": list(parse_real(key))})
        if parse_real("_" + key)[:4] != ("ok", True, key, None):
            fails.append({"name": "_" + key, "clause": "_x is the mark anchor of x", "real": list(parse_real("_" + key))})
    return n, fails


GRAMMAR_KEYS = ["top", "bottom", "a", "top.alt", "top.alt01x", "ogonek", "a_b", "x1y", "t_1x", "caron.case", "Ünder"]


# ---------------------------------------------------------------------------------------------------------
# bounded enumeration of colorGraph / _groupMarkClasses


def color_graph_enumeration(nmax):
    """all undirected graphs on up to nmax named vertices through the real colorGraph: the groups partition the vertices
    and no edge joins two members of one group."""
    from ufo2ft.featureWriters.markFeatureWriter import colorGraph

    names = ["MC_top", "MC_bottom", "MC_a", "MC_b", "MC_c", "MC_d"]
    n_eval, fails = 0, []
    for n in range(0, nmax + 1):
        vs = names[:n]
        pairs = list(itertools.combinations(range(n), 2))
        for mask in range(1 << len(pairs)):
            adj = {v: set() for v in vs}
            for bit, (i, j) in enumerate(pairs):
                if mask >> bit & 1:
                    adj[vs[i]].add(vs[j])
                    adj[vs[j]].add(vs[i])
            n_eval += 1
            groups = colorGraph({k: sorted(v) for k, v in adj.items()})
            flat = [v for g in groups for v in g]
            ok = sorted(flat) == sorted(vs) and all(b not in adj[a] for g in groups for a in g for b in g)
            if not ok:
                fails.append({"adjacency": {k: sorted(v) for k, v in adj.items()}, "groups": groups})
                if len(fails) > 5:
                    return n_eval, fails
    return n_eval, fails


# ---------------------------------------------------------------------------------------------------------
# bounded harness of _defineMarkClass on real feaLib objects (the contract has no Runtime: its clauses compare object identities across old())


def define_mark_class_enumeration():
    """every registry over classes {MC_top, MC_top_1} x glyphs {acutecomb, gravecomb} x anchors {(10,20),(1,1)} (each glyph absent or present),
    every call (glyph, anchor): None iff the same anchor is already defined; otherwise a definition at the own anchor, in MC_top unless the glyph
    is already there with another anchor, in which case in a class whose name was not registered; no registered class or definition is replaced."""
    from fontTools.feaLib import ast as fea

    from ufo2ft.featureWriters import MarkFeatureWriter

    anchors = [(10, 20), (1, 1)]
    glyphs = ["acutecomb", "gravecomb"]
    opts = [None] + anchors  # per (class, glyph): absent or defined at that anchor
    n, fails = 0, []
    for layout in itertools.product(opts, repeat=4):
        for has_second in (False, True):
            for glyph in glyphs:
                for (x, y) in anchors:
                    reg = {}
                    spec = {"MC_top": dict(zip(glyphs, layout[:2]))}
                    if has_second:
                        spec["MC_top_1"] = dict(zip(glyphs, layout[2:]))
                    elif any(v is not None for v in layout[2:]):
                        continue
                    for cn, defs in spec.items():
                        if cn == "MC_top" and all(v is None for v in defs.values()) and has_second is False and layout[0] is None:
                            pass
                        mc = fea.MarkClass(cn)
                        for g, a in defs.items():
                            if a is not None:
                                mc.addDefinition(fea.MarkClassDefinition(mc, fea.Anchor(x=a[0], y=a[1]), fea.GlyphName(g)))
                        reg[cn] = mc
                    before = {cn: (mc, dict(mc.glyphs), {g: (d.anchor.x, d.anchor.y) for g, d in mc.glyphs.items()}) for cn, mc in reg.items()}
                    n += 1
                    w = MarkFeatureWriter()
                    r = w._defineMarkClass(glyph, x, y, "MC_top", reg)
                    old = spec["MC_top"].get(glyph)
                    why = None
                    if (r is None) != (old == (x, y)):
                        why = "None iff same anchor already defined"
                    for cn, (mc, defs, coords) in before.items():
                        if reg.get(cn) is not mc:
                            why = f"class {cn} replaced"
                        for g, d in defs.items():
                            if mc.glyphs.get(g) is not d or (d.anchor.x, d.anchor.y) != coords[g]:
                                why = f"definition of {g} in {cn} overwritten"
                    if r is not None:
                        cn = r.markClass.name
                        if reg.get(cn) is not r.markClass or r.markClass.glyphs.get(glyph) is not r or (r.anchor.x, r.anchor.y) != (x, y):
                            why = "new definition not registered at its own anchor"
                        if old is None and cn != "MC_top":
                            why = "no conflict but another class used"
                        if old is not None and cn in before:
                            why = "conflict but an existing class was reused"
                    if why:
                        fails.append({"registry": spec, "call": [glyph, x, y], "clause": why})
                        if len(fails) > 5:
                            return n, fails
    return n, fails
