"""C18 (second wave) — the data-reading helpers of the GDEF writer under deductive contract:

  * BaseFeatureWriter._getAnchor, variant #c18_DW   (static font, no `anchor=` argument, writer without a `quantization` option: the
                                                     Gdef and Curs writers) -> None iff the glyph is not in the font or has no anchor of
                                                     that name, else the un-rounded (x, y) of an anchor of that name of the FONT's glyph
  * GdefFeatureWriter._sortedGlyphClass             exactly the exported glyph names that are in the category, in increasing order
  * GdefFeatureWriter._getLigatureCarets            (see below)

Assumed (library semantics, contract-local models): `sorted(xs)` returns a list with the same elements and the same length in
non-decreasing order; `otRound`; Python containers.
"""
import z3

from pyvc import models as _models
from pyvc import ty as T
from fontTools.misc.fixedTools import otRound  # noqa: F401  (used by the spec function c18_round)

from pyvc.api import BOOL, CLASSES, CONTRACTS, INT, REAL, STR, Const, Dict, List, Loop, Opt, Ref, Runtime, Set, Tuple, cls, contract, specfn, trusted
from pyvc.core import Unsupported, Val, fresh, fresh_name, lift
from pyvc.symex import FuncRef

from . import c17_model as M

# ---- vocabulary -------------------------------------------------------------------------------------------------------------------
cls("c18_UAnchor", fields={"name": Opt(STR), "x": REAL, "y": REAL}, notes="a UFO anchor: name (may be None), x, y (numbers)")
cls("c18_UGlyph", fields={"name": STR, "anchors": List(Ref("c18_UAnchor"))}, notes="a UFO glyph: name, anchors")
GLYPHS = Dict(STR, Ref("c18_UGlyph"))


def _font_contains(ex, st, self, x):
    d = ex.read_field(st, self, "glyphs")
    return z3.Select(d.ty.sort().dom(lift(d)), lift(x, STR))


def _font_getitem(ex, st, self, idx, node):
    return ex.getitem(ex.read_field(st, self, "glyphs"), idx, st, node)


cls("c18_UFont", fields={"glyphs": GLYPHS}, contains=_font_contains, getitem=_font_getitem,
    views={"glyphs": lambda o: {n: o[n] for n in o.keys()}},
    notes="the source font of the writer's context: `name in font`, `font[name]` (a mapping from glyph names to glyphs)")
cls("c18_DOpts", fields={}, absent=("quantization",), notes="self.options of a Gdef / Curs writer: no `quantization` option (class attribute options = {})")
cls("c18_DCtx", fields={"isVariable": BOOL, "font": Ref("c18_UFont"), "orderedGlyphSet": GLYPHS},
    views={"orderedGlyphSet": lambda o: dict(o.orderedGlyphSet)}, notes="the writer's context namespace (static font)")
cls("c18_DW", fields={"context": Ref("c18_DCtx"), "options": Ref("c18_DOpts")}, repo="ufo2ft.featureWriters.gdefFeatureWriter:GdefFeatureWriter",
    notes="a GdefFeatureWriter with its context set")

# ---- sorted(): contract-local library model -----------------------------------------------------------------------------------------


_SORTED_CLAUSE = ("sorted(xs) for a list / set / generator of str or numbers: a list r with len(r) == len(xs) (for a set: empty iff the set is, every r[k] in the set, every element at exactly one position, strictly increasing), the same elements "
                  "(a permutation of the positions: r[k] is xs[sigma(k)], xs[j] is r[tau(j)], sigma and tau inverse to each other; `x in r` iff `x in xs`), and r[k1] <= r[k2] for k1 < k2 (library semantics of the builtin; "
                  "consequences of 'sorted permutation').  Variants that assume only some of these facts are used where the others are not needed.")


def make_sorted(tag, elements=True, order=True, distinct=False):
    """a contract-local model of the builtin `sorted` assuming a SUBSET of its library semantics (fewer hypotheses on the path);
    distinct: for a SET argument, the weaker consequence of the strict order "no element twice" (no string comparison in the logic)"""

    @M.shim_function("sorted_" + tag, _SORTED_CLAUSE + f"  [this variant: length{', elements' if elements else ''}{', order' if order else ''}{', a set is enumerated without repetition' if distinct else ''}]")
    def _sorted(ex, st, args, kwargs, node):
        if len(args) != 1 or kwargs:
            raise Unsupported("sorted(key=/reverse=)", node)
        v = _models.materialize(ex, args[0])
        if isinstance(v.ty, T.Dict) and not v.is_py:
            v = Val(T.Set(v.ty.k), v.ty.sort().dom(lift(v)))  # sorted(d) sorts the keys of d
        if isinstance(v.ty, T.Set) and not v.is_py and v.ty.elem in (STR, INT, REAL):
            # a SET: the result enumerates exactly its elements, each once, so the order is strict
            et = v.ty.elem
            sv = lift(v)
            # (sorted is a function of its argument: the same set gives the same list, so a clause can name the list again)
            r = z3.Function("c18_sorted_set_" + T._mangle(et), v.ty.sort(), T.List(et).sort())(sv)
            if ("c18sorted", tag, r.get_id()) in st.ghost:  # the facts about this very list are already on the path
                return Val(T.List(et), r)
            st.ghost[("c18sorted", tag, r.get_id())] = r
            k, k2 = z3.Int(fresh_name("sk")), z3.Int(fresh_name("sk2"))
            x = fresh(et, "sx")
            st.assume((z3.Length(r) == 0) == (sv == z3.K(et.sort(), z3.BoolVal(False))))
            if elements:
                # position function of the enumeration and its inverse law: without `pos(r[k]) == k` the two facts instantiate each other for ever
                # (r[k] in S -> a position of r[k] -> the element there is in S -> ..); with it the new position IS k
                pos = z3.Function(fresh_name("sortpos"), et.sort(), z3.IntSort())
                st.assume(z3.ForAll([k], z3.Implies(z3.And(0 <= k, k < z3.Length(r)), z3.And(z3.Select(sv, r[k]), pos(r[k]) == k))))
                st.assume(z3.ForAll([x], z3.Implies(z3.Select(sv, x), z3.And(0 <= pos(x), pos(x) < z3.Length(r), r[pos(x)] == x))))
            if order:
                st.assume(z3.ForAll([k, k2], z3.Implies(z3.And(0 <= k, k < k2, k2 < z3.Length(r)), r[k] < r[k2])))
            elif distinct and not elements:  # (with `elements` the position function already makes the enumeration injective: pos(r[k]) == k)
                st.assume(z3.ForAll([k, k2], z3.Implies(z3.And(0 <= k, k < k2, k2 < z3.Length(r)), r[k] != r[k2])))
            return Val(T.List(et), r)
        if not isinstance(v.ty, T.List) or v.ty.elem not in (STR, INT, REAL):
            raise Unsupported(f"sorted() of {v.ty}", node)
        t = v.ty
        s = lift(v)
        r = z3.Function("c18_sorted_list_" + T._mangle(t.elem), t.sort(), t.sort())(s)
        if ("c18sorted", tag, r.get_id()) in st.ghost:
            return Val(t, r)
        st.ghost[("c18sorted", tag, r.get_id())] = r
        k, j, k2 = z3.Int(fresh_name("sk")), z3.Int(fresh_name("sj")), z3.Int(fresh_name("sk2"))
        x = fresh(t.elem, "sx")
        st.assume(z3.Length(r) == z3.Length(s))
        if elements:
            # the sorting permutation and its inverse as functions (sorted(xs)[k] is xs[sigma(k)]; xs[j] is at position tau(j)); the inverse laws keep the
            # two facts from instantiating each other for ever
            sigma = z3.Function(fresh_name("sigma"), z3.IntSort(), z3.IntSort())
            tau = z3.Function(fresh_name("tau"), z3.IntSort(), z3.IntSort())
            st.assume(z3.ForAll([k], z3.Implies(z3.And(0 <= k, k < z3.Length(r)), z3.And(0 <= sigma(k), sigma(k) < z3.Length(s), r[k] == s[sigma(k)], tau(sigma(k)) == k))))
            st.assume(z3.ForAll([j], z3.Implies(z3.And(0 <= j, j < z3.Length(s)), z3.And(0 <= tau(j), tau(j) < z3.Length(r), r[tau(j)] == s[j], sigma(tau(j)) == j))))
            st.assume(z3.ForAll([x], z3.Contains(r, z3.Unit(x)) == z3.Contains(s, z3.Unit(x))))
            st.assume(z3.ForAll([x], z3.Implies(z3.Contains(s, z3.Unit(x)), z3.Exists([k], z3.And(0 <= k, k < z3.Length(r), r[k] == x)))))
        if order:
            st.assume(z3.ForAll([k, k2], z3.Implies(z3.And(0 <= k, k < k2, k2 < z3.Length(r)), r[k] <= r[k2])))
        return Val(t, r)

    return M.native_global(Val.obj(FuncRef(_sorted, "c17shim.sorted_" + tag)), sorted)


SORTED = make_sorted("full")
SORTED_LEN = make_sorted("len", elements=False, order=False)
SORTED_ORDER = make_sorted("order", elements=False, order=True)
SORTED_ELEMS = make_sorted("elems", elements=True, order=False)

# ---- _getAnchor (static font, writer without a `quantization` option) ---------------------------------------------------------------
_FG = "self.context.font.glyphs"
_A = f"{_FG}[glyphName].anchors"
GETANCHOR = dict(
    props=["C18"],
    returns=Opt(Tuple(REAL, REAL)),
    requires=["not self.context.isVariable"],  # plain UFOs (the variable branch is not modelled)
    ensures={
        # called with the anchor object itself (what the writers do for the glyph they are exporting): that anchor's own coordinates, not rounded
        "own-coordinates-of-a-given-anchor": "implies(anchor is not None, result is not None and result[0] == anchor.x and result[1] == anchor.y)",
        # called by name only: looked up in the context's FONT
        "none-iff-no-such-anchor": f"implies(anchor is None, iff(result is None, glyphName not in {_FG} or not any({_A}[b].name == anchorName for b in range(len({_A})))))",
        # (anchor names are unique within a glyph by UFO convention; with duplicates the code reads the first one, which this clause does not pin down:
        # the filtered comprehension is order-agnostic in the logic)
        "coordinates-of-that-anchor": f"implies(anchor is None and result is not None, any({_A}[b].name == anchorName and result[0] == {_A}[b].x and result[1] == {_A}[b].y for b in range(len({_A}))))",
    },
    canaries={"always-none": "result is None", "origin": "result is None or result[0] == 0"},
    locals={"anchors": List(Ref("c18_UAnchor"))},
)
contract(
    "ufo2ft.featureWriters.baseFeatureWriter:BaseFeatureWriter._getAnchor",
    name="c18_DW",  # (a variant named after the receiver class is what `self._getAnchor(...)` resolves to for a c18_DW receiver)
    params={"self": Ref("c18_DW"), "glyphName": STR, "anchorName": STR, "anchor": Opt(Ref("c18_UAnchor"))},
    **GETANCHOR,
)

# ---- _sortedGlyphClass ----------------------------------------------------------------------------------------------------------------
_OGS = "self.context.orderedGlyphSet"
contract(
    "ufo2ft.featureWriters.gdefFeatureWriter:GdefFeatureWriter._sortedGlyphClass",
    props=["C18"],
    params={"self": Ref("c18_DW"), "glyphNames": Set(STR)},
    returns=List(STR),
    globals={"sorted": SORTED},
    ensures={
        # the class lists only exported glyphs of the category ...
        "only-exported-members": f"all(n in {_OGS} and n in glyphNames for n in result)",
        # ... all of them ...
        "every-exported-member": f"all(implies(n in glyphNames, n in result) for n in {_OGS})",
        # ... in increasing order
        "increasing": "all(all(implies(k1 < k2, result[k1] <= result[k2]) for k2 in range(len(result))) for k1 in range(len(result)))",
        "no-longer-than-the-glyph-set": f"len(result) <= len({_OGS})",
    },
    canaries={"empty": "len(result) == 0", "everything": f"all(n in result for n in {_OGS})"},
)

# ---- _getLigatureCarets -----------------------------------------------------------------------------------------------------------------
# One contract variant per clause group (each carries only the invariants its own postcondition needs; see contracts/c06liga.py).
# Since /repo 018bc33 the function passes `anchor=anchor`: every caret_ / vcaret_ anchor of the EXPORTED glyph contributes its OWN coordinate
# (before, the coordinate was looked up by name in the context's font: finding F-C18-b, notes/C18.md).
_GA = _OGS + "[{g}].anchors"


def _is_c(a):
    return f"({a}.name is not None and {a}.name.startswith('caret_'))"


def _is_v(a):
    return f"({a}.name is not None and {a}.name.startswith('vcaret_'))"


def _has_caret(g, bound=None):
    A = _GA.format(g=g)
    return f"any({_is_c(A + '[b]')} or {_is_v(A + '[b]')} for b in range({bound or 'len(' + A + ')'}))"


GLC = "ufo2ft.featureWriters.gdefFeatureWriter:GdefFeatureWriter._getLigatureCarets"
_K = f"list({_OGS})"
GLC_COMMON = dict(
    props=["C18"], params={"self": Ref("c18_DW")}, returns=Dict(STR, List(INT)),
    requires=["not self.context.isVariable"],
    merge_branches=False,
    dict_key_positions=False,  # (no clause goes from `k in d` to a position of the key list: without the extra quantified fact the steps are fast)
)
GLC_LOCALS = {"carets": Dict(STR, List(INT)), "glyphCarets": Set(REAL)}
OUTER = "for (glyphName, glyph) in self.context.orderedGlyphSet.items()"
INNER = "for anchor in glyph.anchors"

contract(
    GLC,
    name="keys",
    **GLC_COMMON,
    globals={"sorted": SORTED_LEN},
    ensures={
        # a glyph gets a caret list iff it is exported and has at least one caret_ / vcaret_ anchor
        "only-glyphs-with-caret-anchors": f"all(g in {_OGS} and {_has_caret('g')} for g in result)",
        "every-glyph-with-caret-anchors": f"all(implies({_has_caret(_K + '[a]')}, {_K}[a] in result) for a in range(len({_K})))",
    },
    canaries={"empty": "len(result) == 0"},
    locals=GLC_LOCALS,
    loops={
        OUTER: Loop(index="i", invariants={
            "only": f"all(g in {_OGS} and {_has_caret('g')} for g in carets)",
            "every": f"all(implies({_has_caret(_K + '[a]')}, {_K}[a] in carets) for a in range(i))",
        }),
        INNER: Loop(index="j", invariants={
            "nonempty-iff": "iff(glyphCarets, any(" + _is_c("glyph.anchors[b]") + " or " + _is_v("glyph.anchors[b]") + " for b in range(j)))",
        }),
    },
)

contract(
    GLC,
    name="sorted",
    **GLC_COMMON,
    globals={"sorted": SORTED_ORDER},
    ensures={
        # caret positions are listed in increasing order (non-decreasing: positions that differ before rounding may collide after it); never an empty list
        "increasing": "all(len(result[g]) >= 1 and all(all(implies(k1 < k2, result[g][k1] <= result[g][k2]) for k2 in range(len(result[g]))) for k1 in range(len(result[g]))) for g in result)",
    },
    canaries={"empty": "len(result) == 0", "single": "all(len(result[g]) == 1 for g in result)"},
    locals=GLC_LOCALS,
    loops={
        OUTER: Loop(index="i", invariants={
            "increasing": "all(len(carets[g]) >= 1 and all(all(implies(k1 < k2, carets[g][k1] <= carets[g][k2]) for k2 in range(len(carets[g]))) for k1 in range(len(carets[g]))) for g in carets)",
        }),
    },
)


@specfn(INT, v=REAL)
def c18_round(v):
    """otRound: the nearest integer, ties upwards"""
    return otRound(v)


ASSIGN = "carets[glyphName] = [otRound(c) for c in sorted(glyphCarets)]"
_FRAME = "all(g in carets and (g == glyphName or carets[g] == c0[g]) for g in c0) and all(g in c0 or g == glyphName for g in carets)"
_NEW = "len(carets[glyphName]) == len(sorted(glyphCarets)) and all(carets[glyphName][k] == c18_round(sorted(glyphCarets)[k]) for k in range(len(carets[glyphName])))"
GLC_C0 = dict(locals={**GLC_LOCALS, "c0": Dict(STR, List(INT))}, ghost_vars={"c0": (Dict(STR, List(INT)), "{}")}, ghost={"glyphCarets = set()": ["c0 = {**carets}"]})


def _cv(A, b):
    """the coordinate a caret anchor contributes: its own x for caret_, its own y for vcaret_"""
    return f"({A}[{b}].x if {_is_c(A + '[' + b + ']')} else {A}[{b}].y)"


def _src(A, v, bound=None):
    """v is the coordinate contributed by some caret_ / vcaret_ anchor of the exported glyph"""
    return f"any(({_is_c(A + '[b]')} or {_is_v(A + '[b]')}) and {_cv(A, 'b')} == {v} for b in range({bound or 'len(' + A + ')'}))"


def _rsrc(A, v):
    return f"any(({_is_c(A + '[b]')} or {_is_v(A + '[b]')}) and c18_round({_cv(A, 'b')}) == {v} for b in range(len({A})))"


contract(
    GLC,
    name="sound",
    **GLC_COMMON,
    globals={"sorted": SORTED_ELEMS},
    ensures={
        # every listed position is the rounded x of a caret_ anchor of the exported glyph, or the rounded y of a vcaret_ anchor: the anchor's OWN coordinate
        "positions-are-rounded-anchor-coordinates": f"all(g in {_OGS} and all(" + _rsrc(_GA.format(g="g"), "result[g][k]") + " for k in range(len(result[g]))) for g in result)",
    },
    canaries={"empty": "len(result) == 0"},
    **GLC_C0,
    hints={
        ASSIGN: [_NEW, "all(sorted(glyphCarets)[k] in glyphCarets for k in range(len(sorted(glyphCarets))))",
                 "all(" + _src(_GA.format(g="glyphName"), "sorted(glyphCarets)[k]") + " for k in range(len(sorted(glyphCarets))))",
                 "all(" + _rsrc(_GA.format(g="glyphName"), "carets[glyphName][k]") + " for k in range(len(carets[glyphName])))", _FRAME],
    },
    loops={
        OUTER: Loop(index="i", invariants={
            "positions": f"all(g in {_OGS} and all(" + _rsrc(_GA.format(g="g"), "carets[g][k]") + " for k in range(len(carets[g]))) for g in carets)",
        }),
        INNER: Loop(index="j", invariants={"from-anchors": "all(" + _src("glyph.anchors", "c", "j") + " for c in glyphCarets)"}),
    },
)


def _listed(d, g):
    A = _GA.format(g=g)
    return ("all(implies(" + _is_c(A + "[b]") + " or " + _is_v(A + "[b]") + ", any(" + d + "[" + g + "][k] == c18_round(" + _cv(A, "b") + ") for k in range(len(" + d + "[" + g + "]))))"
            " for b in range(len(" + A + ")))")


contract(
    GLC,
    name="complete",
    **GLC_COMMON,
    globals={"sorted": SORTED_ELEMS},
    ensures={
        # the rounded coordinate of every caret_ / vcaret_ anchor of a listed glyph is one of its positions
        "every-caret-anchor-is-listed": f"all(g in {_OGS} and " + _listed("result", "g") + " for g in result)",
    },
    canaries={"empty": "len(result) == 0"},
    **GLC_C0,
    hints={
        ASSIGN: [_NEW,
                 # every collected value is at some position of the sorted list ...
                 "all(implies(" + _is_c(_GA.format(g="glyphName") + "[b]") + " or " + _is_v(_GA.format(g="glyphName") + "[b]")
                 + ", any(sorted(glyphCarets)[k] == " + _cv(_GA.format(g="glyphName"), "b") + " for k in range(len(sorted(glyphCarets))))) for b in range(len(" + _GA.format(g="glyphName") + ")))",
                 # ... hence its rounding at the same position of the new entry
                 _listed("carets", "glyphName"), _FRAME,
                 f"all(implies(g != glyphName, g in {_OGS} and " + _listed("carets", "g") + ") for g in carets)"],
    },
    loops={
        OUTER: Loop(index="i", invariants={"listed": f"all(g in {_OGS} and " + _listed("carets", "g") + " for g in carets)"}),
        INNER: Loop(index="j", invariants={
            "all-anchors": "all(implies(" + _is_c("glyph.anchors[b]") + " or " + _is_v("glyph.anchors[b]") + ", " + _cv("glyph.anchors", "b") + " in glyphCarets) for b in range(j))",
        }),
    },
)


# ---- run-time side: real GdefFeatureWriter objects on small UFOs ------------------------------------------------------------------------
_ANCHOR_NAMES = ["caret_1", "caret_2", "caret_", "vcaret_1", "top", "caretx", "Caret_1", "vcaret_", "_caret_1"]
_GLYPH_NAMES = ["a", "b", "f_i", "acutecomb", "x.comp", "skipped"]


def gdef_cases(rng, n):
    out = []
    for _ in range(n):
        glyphs = {}
        for nm in _GLYPH_NAMES:
            names = rng.sample(_ANCHOR_NAMES, rng.randint(0, 3))
            if rng.random() < 0.15 and names:
                names.append(names[0])  # a duplicate name (each anchor contributes its own coordinate)
            if rng.random() < 0.15:
                names.append(None)  # an unnamed anchor
            glyphs[nm] = {"anchors": [[an, rng.choice([100, 100.4, 100.5, 250, 99.6, 0, -20.5]), rng.choice([0, 300, 300.5, 10])] for an in names]}
        order = list(_GLYPH_NAMES)
        rng.shuffle(order)  # an explicit glyph order that is NOT alphabetical (without one the exported glyphs come sorted by name)
        out.append({"glyphs": glyphs, "order": order, "skip": rng.choice([[], ["skipped"], ["skipped", "b"]]),
                    "names": rng.sample(_GLYPH_NAMES + ["ghost"], rng.randint(0, 5)), "g": rng.choice(_GLYPH_NAMES + ["ghost"]), "a": rng.choice(_ANCHOR_NAMES)})
    return out


def gdef_writer(d):
    import logging

    from ufo2ft.featureWriters import GdefFeatureWriter

    from . import c17, rtlib

    logging.getLogger("ufo2ft").setLevel(logging.CRITICAL)
    ufo = rtlib.build_ufo({"glyphs": d["glyphs"], "order": d.get("order") or list(d["glyphs"]), "lib": {"public.skipExportGlyphs": list(d["skip"])} if d["skip"] else {}})
    w = GdefFeatureWriter()
    w.setContext(ufo, c17.parse_fea(""))
    return w


def getanchor_build(d, writer=None):
    """`anchor` is None (look-up by name in the font) or, every other case, an anchor object of some exported glyph (the way the writers call it)"""
    w = (writer or gdef_writer)(d)
    anchor = None
    if d.get("given"):
        pool = [a for g in w.getOrderedGlyphSet().values() for a in g.anchors]
        anchor = pool[d["given"] % len(pool)] if pool else None
    return {"self": w, "glyphName": d["g"], "anchorName": d["a"], "anchor": anchor}


def getanchor_cases(rng, n):
    out = gdef_cases(rng, n)
    for k, d in enumerate(out):
        d["given"] = (k + 1) if k % 2 else 0
    return out


CONTRACTS["ufo2ft.featureWriters.baseFeatureWriter:BaseFeatureWriter._getAnchor#c18_DW"].runtime = Runtime(
    getanchor_cases, getanchor_build, call=lambda fn, a: fn(a["self"], a["glyphName"], a["anchorName"], anchor=a["anchor"]))
CONTRACTS["ufo2ft.featureWriters.gdefFeatureWriter:GdefFeatureWriter._sortedGlyphClass"].runtime = Runtime(
    gdef_cases, lambda d: {"self": gdef_writer(d), "glyphNames": set(d["names"])}, call=lambda fn, a: fn(a["self"], a["glyphNames"]))
for _v in ("keys", "sorted", "sound", "complete"):
    CONTRACTS[GLC + "#" + _v].runtime = Runtime(gdef_cases, lambda d: {"self": gdef_writer(d)}, call=lambda fn, a: fn(a["self"]))


# ---- the same helpers for the receiver class of the first-wave GDEF contracts (c17_Writer: context = SimpleNamespace model c17_NS) ------------
# `GdefFeatureWriter._write#classdefs` and `setContext` (contracts/c18.py) used opaque stand-ins for `_sortedGlyphClass` / `_getLigatureCarets`;
# with these variants they call the real functions' contracts.
contract(
    "ufo2ft.featureWriters.gdefFeatureWriter:GdefFeatureWriter._sortedGlyphClass",
    name="c17_Writer",
    props=["C18"],
    params={"self": Ref("c17_Writer"), "glyphNames": Set(STR)},
    returns=List(STR),
    globals={"sorted": SORTED},
    ensures={
        "only-exported-members": f"all(n in {_OGS} and n in glyphNames for n in result)",
        "every-exported-member": f"all(implies(n in glyphNames, n in result) for n in {_OGS})",
        "increasing": "all(result[k] <= result[k + 1] for k in range(len(result) - 1))",
    },
    canaries={"empty": "len(result) == 0"},
)

# The same contract in two halves for callers that need only one of them: z3's string order (`str.<=`) is slow as a HYPOTHESIS of goals that do not
# concern the order (every obligation of `_write#classdefs` fell through to cvc5 with the four `increasing` facts on its path).
_SGC = "ufo2ft.featureWriters.gdefFeatureWriter:GdefFeatureWriter._sortedGlyphClass"
_full = CONTRACTS[_SGC + "#c17_Writer"]
# (`every-exported-member` by POSITION of the glyph order: provable without the key-position fact of the dict, which callers do not want on their paths)
contract(_SGC, name="c17_members", props=["C18"], params=dict(_full.params), returns=_full.returns, globals={"sorted": SORTED_ELEMS}, dict_key_positions=False,
         ensures={"only-exported-members": _full.ensures["only-exported-members"],
                  "every-exported-member": f"all(implies({_K}[a] in glyphNames, {_K}[a] in result) for a in range(len({_K})))"},
         canaries={"empty": "len(result) == 0"})
contract(_SGC, name="c17_order", props=["C18"], params=dict(_full.params), returns=_full.returns, globals={"sorted": SORTED_ORDER}, dict_key_positions=False,
         ensures={"increasing": _full.ensures["increasing"]}, canaries={"empty": "len(result) == 0"})

from . import c18 as _c18  # noqa: E402,F401  (defines the class c17_Writer's GDEF vocabulary; imported late: c18 does not depend on this file)



def _sgc_dispatch(ex, st, recv, args, kwargs, node):
    """glue, not a model: `self._sortedGlyphClass(..)` on a c17_Writer goes to the CONTRACT of the real function (variant #c17_Writer, or the half of it that
    the calling contract selects with `calls=`; the engine applies `calls=` only to methods it resolves through a `repo=` class, c17_Writer has none)"""
    key = _SGC + "#c17_Writer"
    key = ex.c.calls.get(key, key)
    ex.assumptions_used.discard("c17_Writer._sortedGlyphClass")  # (a proved contract, not an assumption)
    return ex.call_contract(CONTRACTS[key], [recv] + list(args), kwargs, st, node, implicit=1)


CLASSES["c17_Writer"].methods["_sortedGlyphClass"] = _sgc_dispatch
