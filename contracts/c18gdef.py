"""C18 (second wave) — the data-reading helpers of the GDEF writer under deductive contract:

  * BaseFeatureWriter._getAnchor, variant #c18_DW   (static font, no `anchor=` argument, writer without a `quantization` option: the
                                                     Gdef and Curs writers) -> None iff the glyph is not in the font or has no anchor of
                                                     that name, else the un-rounded (x, y) of an anchor of that name of the FONT's glyph
  * GdefFeatureWriter._sortedGlyphClass             exactly the exported glyph names that are in the category, in increasing order
  * GdefFeatureWriter._getLigatureCarets            (see below)

Assumed (library semantics, contract-local models): `sorted(xs)` returns a list with the same elements and the same length in
non-decreasing order; `otRound`; Python containers.
"""
import z3

from pyvc import models as _models
from pyvc import ty as T
from fontTools.misc.fixedTools import otRound  # noqa: F401  (used by the spec function c18_round)

from pyvc.api import BOOL, CLASSES, CONTRACTS, INT, REAL, STR, Const, Dict, List, Loop, Opt, Ref, Runtime, Set, Tuple, cls, contract, specfn, trusted
from pyvc.core import Unsupported, Val, fresh, fresh_name, lift
from pyvc.symex import FuncRef

from . import c17_model as M

# ---- vocabulary -------------------------------------------------------------------------------------------------------------------
cls("c18_UAnchor", fields={"name": Opt(STR), "x": REAL, "y": REAL}, notes="a UFO anchor: name (may be None), x, y (numbers)")
cls("c18_UGlyph", fields={"name": STR, "anchors": List(Ref("c18_UAnchor"))}, notes="a UFO glyph: name, anchors")
GLYPHS = Dict(STR, Ref("c18_UGlyph"))


def _font_contains(ex, st, self, x):
    d = ex.read_field(st, self, "glyphs")
    return z3.Select(d.ty.sort().dom(lift(d)), lift(x, STR))


def _font_getitem(ex, st, self, idx, node):
    return ex.getitem(ex.read_field(st, self, "glyphs"), idx, st, node)


cls("c18_UFont", fields={"glyphs": GLYPHS}, contains=_font_contains, getitem=_font_getitem,
    views={"glyphs": lambda o: {n: o[n] for n in o.keys()}},
    notes="the source font of the writer's context: `name in font`, `font[name]` (a mapping from glyph names to glyphs)")
cls("c18_DOpts", fields={}, absent=("quantization",), notes="self.options of a Gdef / Curs writer: no `quantization` option (class attribute options = {})")
cls("c18_DCtx", fields={"isVariable": BOOL, "font": Ref("c18_UFont"), "orderedGlyphSet": GLYPHS},
    views={"orderedGlyphSet": lambda o: dict(o.orderedGlyphSet)}, notes="the writer's context namespace (static font)")
cls("c18_DW", fields={"context": Ref("c18_DCtx"), "options": Ref("c18_DOpts")}, repo="ufo2ft.featureWriters.gdefFeatureWriter:GdefFeatureWriter",
    notes="a GdefFeatureWriter with its context set")

# ---- sorted(): contract-local library model -----------------------------------------------------------------------------------------


_SORTED_CLAUSE = ("sorted(xs) for a list / set / generator of str or numbers: a list r with len(r) == len(xs) (for a set: empty iff the set is, every r[k] in the set, every element at some position, strictly increasing), the same elements "
                  "(every r[k] is some xs[j], every xs[j] is some r[k], `x in r` iff `x in xs`), and r[k1] <= r[k2] for k1 < k2 (library semantics of the builtin; "
                  "consequences of 'sorted permutation').  Variants that assume only some of these facts are used where the others are not needed.")


def make_sorted(tag, elements=True, order=True):
    """a contract-local model of the builtin `sorted` assuming a SUBSET of its library semantics (fewer hypotheses on the path)"""

    @M.shim_function("sorted_" + tag, _SORTED_CLAUSE + f"  [this variant: length{', elements' if elements else ''}{', order' if order else ''}]")
    def _sorted(ex, st, args, kwargs, node):
        if len(args) != 1 or kwargs:
            raise Unsupported("sorted(key=/reverse=)", node)
        v = _models.materialize(ex, args[0])
        if isinstance(v.ty, T.Set) and not v.is_py and v.ty.elem in (STR, INT, REAL):
            # a SET: the result enumerates exactly its elements, each once, so the order is strict
            et = v.ty.elem
            sv = lift(v)
            # (sorted is a function of its argument: the same set gives the same list, so a clause can name the list again)
            r = z3.Function("c18_sorted_set_" + T._mangle(et), v.ty.sort(), T.List(et).sort())(sv)
            if ("c18sorted", tag, r.get_id()) in st.ghost:  # the facts about this very list are already on the path
                return Val(T.List(et), r)
            st.ghost[("c18sorted", tag, r.get_id())] = r
            k, k2 = z3.Int(fresh_name("sk")), z3.Int(fresh_name("sk2"))
            x = fresh(et, "sx")
            st.assume((z3.Length(r) == 0) == (sv == z3.K(et.sort(), z3.BoolVal(False))))
            if elements:
                st.assume(z3.ForAll([k], z3.Implies(z3.And(0 <= k, k < z3.Length(r)), z3.Select(sv, r[k]))))
                st.assume(z3.ForAll([x], z3.Implies(z3.Select(sv, x), z3.Exists([k], z3.And(0 <= k, k < z3.Length(r), r[k] == x)))))
            if order:
                st.assume(z3.ForAll([k, k2], z3.Implies(z3.And(0 <= k, k < k2, k2 < z3.Length(r)), r[k] < r[k2])))
            return Val(T.List(et), r)
        if not isinstance(v.ty, T.List) or v.ty.elem not in (STR, INT, REAL):
            raise Unsupported(f"sorted() of {v.ty}", node)
        t = v.ty
        s = lift(v)
        r = z3.Function("c18_sorted_list_" + T._mangle(t.elem), t.sort(), t.sort())(s)
        if ("c18sorted", tag, r.get_id()) in st.ghost:
            return Val(t, r)
        st.ghost[("c18sorted", tag, r.get_id())] = r
        k, j, k2 = z3.Int(fresh_name("sk")), z3.Int(fresh_name("sj")), z3.Int(fresh_name("sk2"))
        x = fresh(t.elem, "sx")
        st.assume(z3.Length(r) == z3.Length(s))
        if elements:
            st.assume(z3.ForAll([k], z3.Implies(z3.And(0 <= k, k < z3.Length(r)), z3.Exists([j], z3.And(0 <= j, j < z3.Length(s), r[k] == s[j])))))
            st.assume(z3.ForAll([j], z3.Implies(z3.And(0 <= j, j < z3.Length(s)), z3.Exists([k], z3.And(0 <= k, k < z3.Length(r), r[k] == s[j])))))
            st.assume(z3.ForAll([x], z3.Contains(r, z3.Unit(x)) == z3.Contains(s, z3.Unit(x))))
            st.assume(z3.ForAll([x], z3.Implies(z3.Contains(s, z3.Unit(x)), z3.Exists([k], z3.And(0 <= k, k < z3.Length(r), r[k] == x)))))
        if order:
            st.assume(z3.ForAll([k, k2], z3.Implies(z3.And(0 <= k, k < k2, k2 < z3.Length(r)), r[k] <= r[k2])))
        return Val(t, r)

    return M.native_global(Val.obj(FuncRef(_sorted, "c17shim.sorted_" + tag)), sorted)


SORTED = make_sorted("full")
SORTED_LEN = make_sorted("len", elements=False, order=False)
SORTED_ORDER = make_sorted("order", elements=False, order=True)
SORTED_ELEMS = make_sorted("elems", elements=True, order=False)

# ---- _getAnchor by name ---------------------------------------------------------------------------------------------------------------
_FG = "self.context.font.glyphs"
_A = f"{_FG}[glyphName].anchors"
contract(
    "ufo2ft.featureWriters.baseFeatureWriter:BaseFeatureWriter._getAnchor",
    name="c18_DW",  # (a variant named after the receiver class is what `self._getAnchor(...)` resolves to for a c18_DW receiver)
    props=["C18"],
    params={"self": Ref("c18_DW"), "glyphName": STR, "anchorName": STR, "anchor": Const(None)},
    returns=Opt(Tuple(REAL, REAL)),
    requires=["not self.context.isVariable"],  # plain UFOs (the variable branch is not modelled)
    ensures={
        "none-iff-no-such-anchor": f"iff(result is None, glyphName not in {_FG} or not any({_A}[b].name == anchorName for b in range(len({_A}))))",
        # the coordinates of AN anchor of that name of the FONT's glyph, not rounded (anchor names are unique within a glyph by UFO convention;
        # with duplicates the code reads the first one, which this clause does not pin down: the filtered comprehension is order-agnostic in the logic)
        "coordinates-of-that-anchor": f"implies(result is not None, any({_A}[b].name == anchorName and result[0] == {_A}[b].x and result[1] == {_A}[b].y for b in range(len({_A}))))",
    },
    canaries={"always-none": "result is None", "origin": "result is None or result[0] == 0"},
    locals={"anchors": List(Ref("c18_UAnchor"))},
)

# ---- _sortedGlyphClass ----------------------------------------------------------------------------------------------------------------
_OGS = "self.context.orderedGlyphSet"
contract(
    "ufo2ft.featureWriters.gdefFeatureWriter:GdefFeatureWriter._sortedGlyphClass",
    props=["C18"],
    params={"self": Ref("c18_DW"), "glyphNames": Set(STR)},
    returns=List(STR),
    globals={"sorted": SORTED},
    ensures={
        # the class lists only exported glyphs of the category ...
        "only-exported-members": f"all(n in {_OGS} and n in glyphNames for n in result)",
        # ... all of them ...
        "every-exported-member": f"all(implies(n in glyphNames, n in result) for n in {_OGS})",
        # ... in increasing order
        "increasing": "all(all(implies(k1 < k2, result[k1] <= result[k2]) for k2 in range(len(result))) for k1 in range(len(result)))",
        "no-longer-than-the-glyph-set": f"len(result) <= len({_OGS})",
    },
    canaries={"empty": "len(result) == 0", "everything": f"all(n in result for n in {_OGS})"},
)

# ---- _getLigatureCarets -----------------------------------------------------------------------------------------------------------------
# One contract variant per clause group (each carries only the invariants its own postcondition needs; see contracts/c06liga.py).
#
# Precondition CONSISTENT: the exported glyph set is derived from the context's font glyph by glyph and the glyph-set filters keep the
# anchors' names and order: every exported glyph is a glyph of the font with the same anchor names at the same positions.  (Without it
# `self._getAnchor(glyphName, anchor.name)` may return None and the subscript raises TypeError: the code relies on it.)  The COORDINATES may
# differ: _getAnchor reads them from the FONT's glyph, not from the exported glyph (see Findings in notes/C18.md).
_FGL = "self.context.font.glyphs"
_GA = _OGS + "[{g}].anchors"
_FA = _FGL + "[{g}].anchors"
CONSISTENT = (f"all(g in {_FGL} and len({_FA.format(g='g')}) == len({_GA.format(g='g')})"
              f" and all({_FA.format(g='g')}[b].name == {_GA.format(g='g')}[b].name for b in range(len({_GA.format(g='g')}))) for g in {_OGS})")


def _is_c(a):
    return f"({a}.name is not None and {a}.name.startswith('caret_'))"


def _is_v(a):
    return f"({a}.name is not None and {a}.name.startswith('vcaret_'))"


def _has_caret(g, bound=None):
    A = _GA.format(g=g)
    return f"any({_is_c(A + '[b]')} or {_is_v(A + '[b]')} for b in range({bound or 'len(' + A + ')'}))"


GLC = "ufo2ft.featureWriters.gdefFeatureWriter:GdefFeatureWriter._getLigatureCarets"
_K = f"list({_OGS})"
GLC_COMMON = dict(
    props=["C18"], params={"self": Ref("c18_DW")}, returns=Dict(STR, List(INT)),
    requires=["not self.context.isVariable", CONSISTENT],
    merge_branches=False,
)
GLC_LOCALS = {"carets": Dict(STR, List(INT)), "glyphCarets": Set(REAL)}
OUTER = "for (glyphName, glyph) in self.context.orderedGlyphSet.items()"
INNER = "for anchor in glyph.anchors"

contract(
    GLC,
    name="keys",
    **GLC_COMMON,
    globals={"sorted": SORTED_LEN},
    ensures={
        # a glyph gets a caret list iff it is exported and has at least one caret_ / vcaret_ anchor
        "only-glyphs-with-caret-anchors": f"all(g in {_OGS} and {_has_caret('g')} for g in result)",
        "every-glyph-with-caret-anchors": f"all(implies({_has_caret(_K + '[a]')}, {_K}[a] in result) for a in range(len({_K})))",
    },
    canaries={"empty": "len(result) == 0"},
    locals=GLC_LOCALS,
    loops={
        OUTER: Loop(index="i", invariants={
            "only": f"all(g in {_OGS} and {_has_caret('g')} for g in carets)",
            "every": f"all(implies({_has_caret(_K + '[a]')}, {_K}[a] in carets) for a in range(i))",
        }),
        INNER: Loop(index="j", invariants={
            "nonempty-iff": "iff(glyphCarets, any(" + _is_c("glyph.anchors[b]") + " or " + _is_v("glyph.anchors[b]") + " for b in range(j)))",
        }),
    },
)

contract(
    GLC,
    name="sorted",
    **GLC_COMMON,
    globals={"sorted": SORTED_ORDER},
    ensures={
        # caret positions are listed in increasing order (non-decreasing: positions that differ before rounding may collide after it); never an empty list
        "increasing": "all(len(result[g]) >= 1 and all(all(implies(k1 < k2, result[g][k1] <= result[g][k2]) for k2 in range(len(result[g]))) for k1 in range(len(result[g]))) for g in result)",
    },
    canaries={"empty": "len(result) == 0", "single": "all(len(result[g]) == 1 for g in result)"},
    locals=GLC_LOCALS,
    loops={
        OUTER: Loop(index="i", invariants={
            "increasing": "all(len(carets[g]) >= 1 and all(all(implies(k1 < k2, carets[g][k1] <= carets[g][k2]) for k2 in range(len(carets[g]))) for k1 in range(len(carets[g]))) for g in carets)",
        }),
    },
)


@specfn(INT, v=REAL)
def c18_round(v):
    """otRound: the nearest integer, ties upwards"""
    return otRound(v)


# Precondition UNIQUE (UFO convention; with duplicate names `_getAnchor` reads the first anchor of the name for every one of them — an observation
# recorded in notes/C18.md, outside these two clause groups): the named anchors of a font glyph have pairwise different names.
UNIQUE = (f"all(all(all(implies(b1 < b2 and {_FA.format(g='g')}[b1].name is not None, {_FA.format(g='g')}[b1].name != {_FA.format(g='g')}[b2].name)"
          f" for b2 in range(len({_FA.format(g='g')}))) for b1 in range(len({_FA.format(g='g')}))) for g in {_FGL})")
ASSIGN = "carets[glyphName] = [otRound(c) for c in sorted(glyphCarets)]"
ADDX = "glyphCarets.add(self._getAnchor(glyphName, anchor.name)[0])"
ADDY = "glyphCarets.add(self._getAnchor(glyphName, anchor.name)[1])"
WL = Dict(STR, List(REAL))  # ghost: glyph -> the sorted, NOT yet rounded coordinates its caret list was made from
_FAJ = _FGL + "[glyphName].anchors"
_ROUNDED = "all(g in wl and len(carets[g]) == len(wl[g]) and all(carets[g][k] == c18_round(wl[g][k]) for k in range(len(wl[g]))) for g in carets)"
_FRAME = "all(g in carets and (g == glyphName or carets[g] == c0[g]) for g in c0) and all(g in c0 or g == glyphName for g in carets)"
_NEW = "len(carets[glyphName]) == len(sorted(glyphCarets)) and all(carets[glyphName][k] == c18_round(sorted(glyphCarets)[k]) for k in range(len(carets[glyphName])))"
GLC_W = dict(
    locals={**GLC_LOCALS, "c0": Dict(STR, List(INT)), "wl": WL},
    ghost_vars={"c0": (Dict(STR, List(INT)), "{}"), "wl": (WL, "{}")},
    ghost={"glyphCarets = set()": ["c0 = {**carets}"], ASSIGN: ["wl = {**wl, glyphName: sorted(glyphCarets)}"]},
)


GLC_C0 = dict(locals={**GLC_LOCALS, "c0": Dict(STR, List(INT))}, ghost_vars={"c0": (Dict(STR, List(INT)), "{}")}, ghost={"glyphCarets = set()": ["c0 = {**carets}"]})


def _cv(A, FA, b):
    """the coordinate a caret anchor contributes: x of the font anchor at that position for caret_, y for vcaret_"""
    return f"({FA}[{b}].x if {_is_c(A + '[' + b + ']')} else {FA}[{b}].y)"


def _src(A, FA, v, bound=None):
    """v is the coordinate contributed by some caret_ / vcaret_ anchor of the exported glyph"""
    return f"any(({_is_c(A + '[b]')} or {_is_v(A + '[b]')}) and {_cv(A, FA, 'b')} == {v} for b in range({bound or 'len(' + A + ')'}))"


def _rsrc(A, FA, v):
    return f"any(({_is_c(A + '[b]')} or {_is_v(A + '[b]')}) and c18_round({_cv(A, FA, 'b')}) == {v} for b in range(len({A})))"


contract(
    GLC,
    name="sound",
    props=["C18"], params={"self": Ref("c18_DW")}, returns=Dict(STR, List(INT)),
    requires=["not self.context.isVariable", CONSISTENT, UNIQUE],
    merge_branches=False,
    globals={"sorted": SORTED_ELEMS},
    ensures={
        # every listed position is the rounded x of the (font's) anchor at the position of a caret_ anchor of the glyph, or the rounded y for a vcaret_ anchor
        "positions-are-rounded-anchor-coordinates": f"all(g in {_OGS} and g in {_FGL} and all(" + _rsrc(_GA.format(g="g"), _FA.format(g="g"), "result[g][k]") + " for k in range(len(result[g]))) for g in result)",
    },
    canaries={"empty": "len(result) == 0"},
    **GLC_C0,
    hints={
        ADDX: [f"{_FAJ}[j].x in glyphCarets"],
        ADDY: [f"{_FAJ}[j].y in glyphCarets"],
        ASSIGN: [_NEW, "all(sorted(glyphCarets)[k] in glyphCarets for k in range(len(sorted(glyphCarets))))",
                 "all(" + _src(_GA.format(g="glyphName"), _FAJ, "sorted(glyphCarets)[k]") + " for k in range(len(sorted(glyphCarets))))",
                 "all(" + _rsrc(_GA.format(g="glyphName"), _FAJ, "carets[glyphName][k]") + " for k in range(len(carets[glyphName])))", _FRAME],
    },
    loops={
        OUTER: Loop(index="i", invariants={
            "positions": f"all(g in {_OGS} and g in {_FGL} and all(" + _rsrc(_GA.format(g="g"), _FA.format(g="g"), "carets[g][k]") + " for k in range(len(carets[g]))) for g in carets)",
        }),
        INNER: Loop(index="j", invariants={"from-anchors": "all(" + _src("glyph.anchors", _FAJ, "c", "j") + " for c in glyphCarets)"}),
    },
)

def _listed(d, g):
    A, FA = _GA.format(g=g), _FA.format(g=g)
    return ("all(implies(" + _is_c(A + "[b]") + ", any(" + d + "[" + g + "][k] == c18_round(" + FA + "[b].x) for k in range(len(" + d + "[" + g + "]))))"
            " and implies(not " + _is_c(A + "[b]") + " and " + _is_v(A + "[b]") + ", any(" + d + "[" + g + "][k] == c18_round(" + FA + "[b].y) for k in range(len(" + d + "[" + g + "]))))"
            " for b in range(len(" + A + ")))")


contract(
    GLC,
    name="complete",
    props=["C18"], params={"self": Ref("c18_DW")}, returns=Dict(STR, List(INT)),
    requires=["not self.context.isVariable", CONSISTENT, UNIQUE],
    merge_branches=False,
    globals={"sorted": SORTED_ELEMS},
    ensures={
        # the rounded coordinate of every caret_ / vcaret_ anchor of a listed glyph is one of its positions
        "every-caret-anchor-is-listed": f"all(g in {_OGS} and g in {_FGL} and " + _listed("result", "g") + " for g in result)",
    },
    canaries={"empty": "len(result) == 0"},
    **GLC_C0,
    hints={
        ADDX: [f"{_FAJ}[j].x in glyphCarets"],
        ADDY: [f"{_FAJ}[j].y in glyphCarets"],
        ASSIGN: [_NEW,
                 # every collected value is at some position of the sorted list ...
                 "all(implies(" + _is_c(_GA.format(g="glyphName") + "[b]") + f", any(sorted(glyphCarets)[k] == {_FAJ}[b].x for k in range(len(sorted(glyphCarets)))))"
                 " and implies(not " + _is_c(_GA.format(g="glyphName") + "[b]") + " and " + _is_v(_GA.format(g="glyphName") + "[b]") + f", any(sorted(glyphCarets)[k] == {_FAJ}[b].y for k in range(len(sorted(glyphCarets)))))"
                 " for b in range(len(" + _GA.format(g="glyphName") + ")))",
                 # ... hence its rounding at the same position of the new entry
                 _listed("carets", "glyphName"), _FRAME,
                 f"all(implies(g != glyphName, g in {_OGS} and g in {_FGL} and " + _listed("carets", "g") + ") for g in carets)"],
    },
    loops={
        OUTER: Loop(index="i", invariants={"listed": f"all(g in {_OGS} and g in {_FGL} and " + _listed("carets", "g") + " for g in carets)"}),
        INNER: Loop(index="j", invariants={
            "all-anchors": "all(implies(" + _is_c("glyph.anchors[b]") + f", {_FAJ}[b].x in glyphCarets) and implies(not " + _is_c("glyph.anchors[b]") + " and " + _is_v("glyph.anchors[b]") + f", {_FAJ}[b].y in glyphCarets) for b in range(j))",
        }),
    },
)


# ---- run-time side: real GdefFeatureWriter objects on small UFOs ------------------------------------------------------------------------
_ANCHOR_NAMES = ["caret_1", "caret_2", "caret_", "vcaret_1", "top", "caretx", "Caret_1", "vcaret_", "_caret_1"]
_GLYPH_NAMES = ["a", "b", "f_i", "acutecomb", "x.comp", "skipped"]


def gdef_cases(rng, n):
    out = []
    for _ in range(n):
        glyphs = {}
        for nm in _GLYPH_NAMES:
            names = rng.sample(_ANCHOR_NAMES, rng.randint(0, 3))
            if rng.random() < 0.1 and names:
                names.append(names[0])  # a duplicate name: UNIQUE is false, the two clause groups that need it skip the case
            glyphs[nm] = {"anchors": [[an, rng.choice([100, 100.4, 100.5, 250, 99.6, 0, -20.5]), rng.choice([0, 300, 300.5, 10])] for an in names]}
        out.append({"glyphs": glyphs, "skip": rng.choice([[], ["skipped"], ["skipped", "b"]]),
                    "names": rng.sample(_GLYPH_NAMES + ["ghost"], rng.randint(0, 5)), "g": rng.choice(_GLYPH_NAMES + ["ghost"]), "a": rng.choice(_ANCHOR_NAMES)})
    return out


def gdef_writer(d):
    import logging

    from ufo2ft.featureWriters import GdefFeatureWriter

    from . import c17, rtlib

    logging.getLogger("ufo2ft").setLevel(logging.CRITICAL)
    ufo = rtlib.build_ufo({"glyphs": d["glyphs"], "lib": {"public.skipExportGlyphs": list(d["skip"])} if d["skip"] else {}})
    w = GdefFeatureWriter()
    w.setContext(ufo, c17.parse_fea(""))
    return w


CONTRACTS["ufo2ft.featureWriters.baseFeatureWriter:BaseFeatureWriter._getAnchor#c18_DW"].runtime = Runtime(
    gdef_cases, lambda d: {"self": gdef_writer(d), "glyphName": d["g"], "anchorName": d["a"]}, call=lambda fn, a: fn(a["self"], a["glyphName"], a["anchorName"]))
CONTRACTS["ufo2ft.featureWriters.gdefFeatureWriter:GdefFeatureWriter._sortedGlyphClass"].runtime = Runtime(
    gdef_cases, lambda d: {"self": gdef_writer(d), "glyphNames": set(d["names"])}, call=lambda fn, a: fn(a["self"], a["glyphNames"]))
for _v in ("keys", "sorted", "sound", "complete"):
    CONTRACTS[GLC + "#" + _v].runtime = Runtime(gdef_cases, lambda d: {"self": gdef_writer(d)}, call=lambda fn, a: fn(a["self"]))
