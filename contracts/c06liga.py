"""C06 — MarkFeatureWriter._makeMarkToLigaAttachments, one contract VARIANT per clause group.

Every variant is a contract on the same real function (same parameters, same preconditions); each carries only the loop
invariants its own postconditions need.  The engine keeps every fact of the path in the hypotheses of every obligation, so
one contract with all invariants gave obligations with ~50 quantified hypotheses that the solvers discharged only in the
60 s round (unstable on a loaded machine).  Split like this each obligation is small.

  #glyphs    one statement per eligible glyph (not a mark glyph, in GDEF ligature when defined), no glyph twice
  #numbered  every anchor in marks[N-1] has number N, a key, a mark class, is not contextual
  #source    every anchor in marks[N-1] is an anchor of THAT glyph
  #count     len(marks) == the largest component number among the glyph's counted anchors (gaps stay as empty components)
"""
from pyvc.api import CONTRACTS, INT, STR, Dict, List, Loop, Ref, Runtime, Set, contract  # noqa

from . import c06rt
from .c06 import AL, KEYS, MARK2LIGA, NA, W, _ALL_ANCHORS, _at, _bare, _counted, _liga_glyph, _named

FN = W + "MarkFeatureWriter._makeMarkToLigaAttachments"
APPEND = "result.append(MarkToLigaPos(glyphName, ligatureMarks))"
OUTER = "for (glyphName, anchors) in self.context.anchorLists.items()"
INNER = "for anchor in anchors"
FILL = "for number in range(1, max(componentAnchors.keys()) + 1)"
SETBARE = "componentAnchors[number] = []"
SETAPP = "componentAnchors.setdefault(number, []).append(anchor)"

REQUIRES = [
    # class invariants of NamedAnchor (NamedAnchor.__init__ 'component-index-from-1'; a mark anchor has a non-empty key: parseAnchorName);
    # anchors with a mark class are not mark anchors (_setBaseAnchorMarkClasses only touches non-mark anchors, __init__ starts with None)
    _ALL_ANCHORS.format(body=f"implies({_at('a', 'b')}.number is not None, {_at('a', 'b')}.number >= 1)"),
    _ALL_ANCHORS.format(body=f"implies({_at('a', 'b')}.isMark, {_at('a', 'b')}.key != '' and {_at('a', 'b')}.markClass is None)"),
]
LOCALS = {"result": List(MARK2LIGA), "componentAnchors": Dict(INT, List(NA)), "ligatureMarks": List(List(NA))}
COMMON = dict(props=["C06"], params={"self": Ref("C06_Writer")}, returns=List(MARK2LIGA), requires=REQUIRES, merge_branches=False, dict_key_positions=False)
_RT = Runtime(c06rt.stage_cases, lambda d: {"self": c06rt.writer_at(d, "assigned")}, call=lambda fn, a: fn(a["self"]))



# `max(d.keys())` through the key SET of the dict (the builtin model goes through the key list: `n <= max` for a key n then needs the key-position
# fact of every dict on the path, which the other obligations of the function pay for)
def _make_max_keys():
    import z3

    from pyvc import models as _models
    from pyvc.core import Val, fresh
    from pyvc.symex import FuncRef

    from . import c17_model as M

    @M.shim_function("max_keys", "max(d.keys()) for a dict d with int keys: ValueError iff d is empty; otherwise a key of d that is not smaller than any key of d")
    def _max_keys(ex, st, args, kwargs, node):
        info = _models.carrier_info(args[0]) if len(args) == 1 else None
        meta = getattr(info, "dict_items", None) if info is not None else None
        if kwargs or meta is None or meta[2] != "keys" or meta[0].k != INT:
            return _models.BUILTIN_MODELS["builtins.max"].model(ex, st, args, kwargs, node)
        dt, d, _ = meta
        dom = dt.sort().dom(d)
        ex.safety(st, dom != z3.K(z3.IntSort(), z3.BoolVal(False)), "ValueError", node)
        m, x = fresh(INT, "maxkey"), fresh(INT, "mx")
        st.assume(z3.Select(dom, m))
        st.assume(z3.ForAll([x], z3.Implies(z3.Select(dom, x), m >= x)))
        return Val(INT, m)

    return M.native_global(Val.obj(FuncRef(_max_keys, "c17shim.max_keys")), max)


MAX_KEYS = _make_max_keys()

# the appended record, position by position (r0: ghost copy of `result` taken when ligatureMarks is created)
_APPENDED = [
    "len(result) == len(r0) + 1 and result[len(r0)].name == glyphName and result[len(r0)].marks == ligatureMarks",
    "all(result[k] == r0[k] for k in range(len(r0)))",
]
_R0 = {"r0": (List(MARK2LIGA), "[]")}
_R0_GHOST = {"ligatureMarks = []": ["r0 = result + []"]}

# ---------------------------------------------------------------------------------------------------------------------
contract(
    FN,
    name="glyphs",
    **COMMON,
    ensures={
        "one-statement-per-eligible-glyph": f"all(result[k].name in {AL} and {_liga_glyph('result[k].name')} for k in range(len(result)))"
        " and all(all(implies(k1 != k2, result[k1].name != result[k2].name) for k2 in range(len(result))) for k1 in range(len(result)))",
    },
    canaries={"never-empty": "len(result) > 0"},
    locals={**LOCALS, "r0": List(MARK2LIGA)},
    ghost_vars={**_R0, "src": (List(INT), "[]")},
    ghost={**_R0_GHOST, APPEND: ["src = src + [i]"]},
    hints={APPEND: _APPENDED},
    loops={
        OUTER: Loop(index="i", invariants={
            "len": "len(src) == len(result)",
            "glyph": f"all(0 <= src[k] and src[k] < i and result[k].name == {KEYS}[src[k]] and {_liga_glyph(KEYS + '[src[k]]')} for k in range(len(result)))",
            "order": "all(all(implies(k1 < k2, src[k1] < src[k2]) for k2 in range(len(src))) for k1 in range(len(src)))",
        }),
    },
    runtime=_RT,
)

# ---------------------------------------------------------------------------------------------------------------------
# marks[N-1] holds only anchors numbered N (with a key, a mark class, not contextual)
_CA_PROP = "all(all(" + _named("componentAnchors[n][m]") + " and componentAnchors[n][m].number == n for m in range(len(componentAnchors[n]))) for n in componentAnchors)"
_FILLED = "all((ligatureMarks[u] == componentAnchors[u + 1]) if (u + 1) in componentAnchors else (len(ligatureMarks[u]) == 0) for u in range(t))"
_LM_PROP = "all(all(" + _named("ligatureMarks[n][m]") + " and ligatureMarks[n][m].number == n + 1 for m in range(len(ligatureMarks[n]))) for n in range(len(ligatureMarks)))"

contract(
    FN,
    name="numbered",
    **COMMON,
    ensures={
        "component-N-holds-anchors-numbered-N": "all(all(all(result[k].marks[n][m].number == n + 1 and " + _named("result[k].marks[n][m]")
        + " for m in range(len(result[k].marks[n]))) for n in range(len(result[k].marks))) for k in range(len(result)))",
    },
    canaries={"never-empty": "len(result) > 0"},
    locals={**LOCALS, "r0": List(MARK2LIGA), "ca0": Dict(INT, List(NA))},
    ghost_vars={**_R0, "ca0": (Dict(INT, List(NA)), "{}")},
    ghost={**_R0_GHOST, "number = anchor.number": ["ca0 = {**componentAnchors}"]},
    hints={
        APPEND: _APPENDED,
        # the updated entry, element by element (ca0: ghost copy of the dict before the update)
        SETAPP: [
            "all(implies(n != number, n in componentAnchors and componentAnchors[n] == ca0[n]) for n in ca0)",
            "all(n in ca0 or n == number for n in componentAnchors)",
            "(number + 0) in componentAnchors and componentAnchors[number] == (ca0[number] if (number + 0) in ca0 else []) + [anchor]",
            "implies((number + 0) not in ca0, len(componentAnchors[number]) == 1 and componentAnchors[number][0] == anchor)",
            "implies((number + 0) in ca0, len(componentAnchors[number]) == len(ca0[number]) + 1)",
            "implies((number + 0) in ca0, componentAnchors[number][len(ca0[number])] == anchor)",
            "implies((number + 0) in ca0, all(componentAnchors[number][m] == ca0[number][m] for m in range(len(ca0[number]))))",
            "all(" + _named("componentAnchors[number][m]") + " and componentAnchors[number][m].number == number for m in range(len(componentAnchors[number])))",
        ],
        SETBARE: [
            "all(implies(n != number, n in componentAnchors and componentAnchors[n] == ca0[n]) for n in ca0)",
            "all(n in ca0 or n == number for n in componentAnchors)",
            "(number + 0) in componentAnchors and len(componentAnchors[number]) == 0",
        ],
        "for number in range(1, max(componentAnchors.keys()) + 1):": [_LM_PROP],
    },
    loops={
        OUTER: Loop(index="i", invariants={
            "numbered": "all(all(all(" + _named("result[k].marks[n][m]") + " and result[k].marks[n][m].number == n + 1"
            " for m in range(len(result[k].marks[n]))) for n in range(len(result[k].marks))) for k in range(len(result)))",
        }),
        INNER: Loop(index="j", invariants={"elem-prop": _CA_PROP}),
        FILL: Loop(index="t", invariants={"len": "len(ligatureMarks) == t", "filled": _FILLED}),
    },
    runtime=_RT,
)

# ---------------------------------------------------------------------------------------------------------------------
# marks[N-1] holds only anchors OF THAT GLYPH.  Ghost `seen`: the set of anchor objects put into componentAnchors for the current
# glyph; `seens[k]`: that set for the glyph of result[k].  The existential ("is anchors[b] for some b") is stated once, about the flat
# set, instead of under three nested quantifiers over the nested lists.
SET_NA = Set(NA)
_CA_SEEN = "all(all(componentAnchors[n][m] in seen for m in range(len(componentAnchors[n]))) for n in componentAnchors)"
_SEEN_SRC = "all(any(anchors[b] == x for b in range({j})) for x in seen)"
_LM_SEEN = "all(all(ligatureMarks[n][m] in seen for m in range(len(ligatureMarks[n]))) for n in range(len(ligatureMarks)))"
_RES_SRC = (f"all(result[k].name in {AL} and all(all(any(result[k].marks[n][m] == {AL}[result[k].name][b] for b in range(len({AL}[result[k].name])))"
            " for m in range(len(result[k].marks[n]))) for n in range(len(result[k].marks))) for k in range(len(result)))")
_FRAME = [
    "all(implies(n != number, n in componentAnchors and componentAnchors[n] == ca0[n]) for n in ca0)",
    "all(n in ca0 or n == number for n in componentAnchors)",
]

contract(
    FN,
    name="source",
    **COMMON,
    ensures={"component-anchors-are-anchors-of-that-glyph": _RES_SRC},
    canaries={"never-empty": "len(result) > 0"},
    locals={**LOCALS, "r0": List(MARK2LIGA), "ca0": Dict(INT, List(NA)), "seen": SET_NA, "seens": List(SET_NA)},
    ghost_vars={**_R0, "ca0": (Dict(INT, List(NA)), "{}"), "seen": (SET_NA, "set()"), "seens": (List(SET_NA), "[]")},
    ghost={**_R0_GHOST, "number = anchor.number": ["ca0 = {**componentAnchors}"], "componentAnchors = {}": ["seen = set()"],
           SETAPP: ["seen.add(anchor)"], APPEND: ["seens = seens + [seen]"]},
    hints={
        APPEND: _APPENDED,
        SETAPP: _FRAME + [
            "(number + 0) in componentAnchors and componentAnchors[number] == (ca0[number] if (number + 0) in ca0 else []) + [anchor]",
            "implies((number + 0) not in ca0, len(componentAnchors[number]) == 1 and componentAnchors[number][0] == anchor)",
            "implies((number + 0) in ca0, len(componentAnchors[number]) == len(ca0[number]) + 1)",
            "implies((number + 0) in ca0, componentAnchors[number][len(ca0[number])] == anchor)",
            "implies((number + 0) in ca0, all(componentAnchors[number][m] == ca0[number][m] for m in range(len(ca0[number]))))",
            "all(componentAnchors[number][m] in seen for m in range(len(componentAnchors[number])))",
        ],
        SETBARE: _FRAME + ["(number + 0) in componentAnchors and len(componentAnchors[number]) == 0"],
        "for number in range(1, max(componentAnchors.keys()) + 1):": [_LM_SEEN],
    },
    loops={
        OUTER: Loop(index="i", invariants={
            "len": "len(seens) == len(result)",
            "name": f"all(result[k].name in {AL} for k in range(len(result)))",
            "in-seen": "all(all(all(result[k].marks[n][m] in seens[k] for m in range(len(result[k].marks[n]))) for n in range(len(result[k].marks))) for k in range(len(result)))",
            "seen-source": f"all(all(any({AL}[result[k].name][b] == x for b in range(len({AL}[result[k].name]))) for x in seens[k]) for k in range(len(result)))",
        }),
        INNER: Loop(index="j", invariants={"in-seen": _CA_SEEN, "seen-source": _SEEN_SRC.format(j="j")}),
        FILL: Loop(index="t", invariants={"len": "len(ligatureMarks) == t", "filled": _FILLED}),
    },
    runtime=_RT,
)

# ---------------------------------------------------------------------------------------------------------------------
# the component count is the largest component number among the glyph's counted anchors (missing numbers stay as empty components)
_CNT_IN = "all(implies(" + _counted("anchors[b]") + ", (anchors[b].number + 0) in componentAnchors) for b in range(j))"
_CNT_KEY = "all(n >= 1 and any(" + _counted("anchors[b]") + " and anchors[b].number == n for b in range({j})) for n in componentAnchors)"
_G = f"{AL}[result[k].name]"
_RES_COUNT = (f"all(result[k].name in {AL} and len(result[k].marks) >= 1 and all(implies({_counted(_G + '[b]')}, {_G}[b].number <= len(result[k].marks)) for b in range(len({_G})))"
              f" and any({_counted(_G + '[b]')} and {_G}[b].number == len(result[k].marks) for b in range(len({_G}))) for k in range(len(result)))")

contract(
    FN,
    name="count",
    **COMMON,
    globals={"max": MAX_KEYS},
    ensures={"component-count-preserved": _RES_COUNT},
    canaries={"never-empty": "len(result) > 0", "always-one-component": "all(len(result[k].marks) == 1 for k in range(len(result)))"},
    locals={**LOCALS, "r0": List(MARK2LIGA), "ca0": Dict(INT, List(NA))},
    ghost_vars={**_R0, "ca0": (Dict(INT, List(NA)), "{}")},
    ghost={**_R0_GHOST, "number = anchor.number": ["ca0 = {**componentAnchors}"]},
    hints={
        APPEND: _APPENDED,
        SETAPP: ["all(n in componentAnchors for n in ca0)", "all(n in ca0 or n == number for n in componentAnchors)", "(number + 0) in componentAnchors"],
        SETBARE: ["all(n in componentAnchors for n in ca0)", "all(n in ca0 or n == number for n in componentAnchors)", "(number + 0) in componentAnchors"],
        "for number in range(1, max(componentAnchors.keys()) + 1):": [
            "len(ligatureMarks) == max(componentAnchors.keys())",
            "len(ligatureMarks) in componentAnchors and all(n <= len(ligatureMarks) for n in componentAnchors)",
            "len(ligatureMarks) >= 1",
            "all(implies(" + _counted("anchors[b]") + ", anchors[b].number <= len(ligatureMarks)) for b in range(len(anchors)))",
            "any(" + _counted("anchors[b]") + " and anchors[b].number == len(ligatureMarks) for b in range(len(anchors)))",
        ],
    },
    loops={
        OUTER: Loop(index="i", invariants={"count": _RES_COUNT}),
        INNER: Loop(index="j", invariants={"counted-in": _CNT_IN, "key-witness": _CNT_KEY.format(j="j")}),
        FILL: Loop(index="t", invariants={"len": "len(ligatureMarks) == t"}),
    },
    runtime=_RT,
)

# ---------------------------------------------------------------------------------------------------------------------
# completeness: every named anchor numbered N that is not reset by a LATER bare '_N' of the same glyph is in marks[N-1].
# Ghosts: for the current glyph mem[n] = the set of anchor objects in componentAnchors[n]; for result[k]: mems[k] (= mem at the end of that glyph's anchors).
SET_NA2 = Set(NA)
MEM = Dict(INT, SET_NA2)

_MEM_LIST = "all(n in componentAnchors and all(x in componentAnchors[n] for x in mem[n]) for n in mem)"
_LM_MEM = "all(all(x in ligatureMarks[n - 1] for x in mem[n]) for n in mem)"

_GK = f"{AL}[result[k].name]"
_NO_LATER_BARE = f"not any({_bare(_GK + '[c]')} and {_GK}[c].number == {_GK}[b].number for c in range(b + 1, len({_GK})))"
# the ghost-free statement (run-time checked on the real function; deductively it is the composition of #kept and #listed below: x kept => x in mems[k][N];
# mems[k][N] is within marks[N-1] — lemma C06.lemma.liga-complete; the ghosts of the two variants are the same deterministic function of the run)
_COMPLETE = (f"all(result[k].name in {AL} and all(implies({_named(_GK + '[b]')} and {_NO_LATER_BARE},"
             f" {_GK}[b].number <= len(result[k].marks) and {_GK}[b] in result[k].marks[{_GK}[b].number - 1])"
             f" for b in range(len({_GK}))) for k in range(len(result)))")
_CLOCALS = {**LOCALS, "r0": List(MARK2LIGA), "ca0": Dict(INT, List(NA)), "mem": MEM, "mems": Dict(INT, MEM), "mem0": MEM, "mtmp": SET_NA2}
_CGHOST_VARS = {**_R0, "mtmp": (SET_NA2, "set()"), "ca0": (Dict(INT, List(NA)), "{}"), "mem": (MEM, "{}"), "mems": (Dict(INT, MEM), "{}"), "mem0": (MEM, "{}")}
_CGHOST = {**_R0_GHOST, "number = anchor.number": ["ca0 = {**componentAnchors}", "mem0 = {**mem}"],
           "componentAnchors = {}": ["mem = {}"],
           SETBARE: ["mem = {**mem, number: set()}"],
           SETAPP: ["mtmp = mem[number] if (number + 0) in mem else set()", "mtmp.add(anchor)", "mem = {**mem, number: mtmp}"],
           # (per record k: a dict keyed by k, not a list — an update is an array store, no sequence reasoning for the earlier records)
           APPEND: ["mems = {**mems, len(r0): mem}"]}
_MEM_UPD = "all(implies(n != number, n in mem and mem[n] == mem0[n]) for n in mem0) and all(n in mem0 or n == number for n in mem)"

# ---- #kept: an anchor that no later bare '_N' resets is a member of the ghost set mems[k][N] of its record -----------------------------------------------
def _alive(A, b, hi):
    """named anchor A[b] with no bare anchor of the same number at the positions b+1 .. hi-1"""
    return f"({_named(A + '[b]')} and not any({_bare(A + '[c]')} and {A}[c].number == {A}[b].number for c in range(b + 1, {hi})))"


contract(
    FN,
    name="kept",
    **COMMON,
    globals={"max": MAX_KEYS},
    portfolio=["z3-5.1", "z3-5.1/noext"],  # (under load the outer step has been found by the no-extensionality configuration: make it the second attempt)
    ensures={
        "kept-anchors-are-members": f"all(result[k].name in {AL} and all(implies({_alive(_GK, 'b', 'len(' + _GK + ')')},"
        f" ({_GK}[b].number + 0) in mems[k] and {_GK}[b] in mems[k][{_GK}[b].number]) for b in range(len({_GK}))) for k in range(len(result)))",
    },
    canaries={"never-empty": "len(result) > 0"},
    locals=_CLOCALS, ghost_vars=_CGHOST_VARS, ghost=_CGHOST,
    hints={
        APPEND: _APPENDED + ["mems[len(r0)] == mem"],
        SETAPP: [_MEM_UPD, "(number + 0) in mem and anchor in mem[number]", "implies((number + 0) in mem0, all(x in mem[number] for x in mem0[number]))"],
        SETBARE: [_MEM_UPD],
    },
    loops={
        OUTER: Loop(index="i", invariants={
            "names": f"all(result[k].name in {AL} for k in range(len(result)))",
            "kept": f"all(all(implies({_alive(_GK, 'b', 'len(' + _GK + ')')}, ({_GK}[b].number + 0) in mems[k] and {_GK}[b] in mems[k][{_GK}[b].number])"
            f" for b in range(len({_GK}))) for k in range(len(result)))",
        }),
        INNER: Loop(index="j", invariants={
            "kept": "all(implies(" + _alive("anchors", "b", "j") + ", (anchors[b].number + 0) in mem and anchors[b] in mem[anchors[b].number]) for b in range(j))",
        }),
        FILL: Loop(index="t", invariants={}),
    },
)

# the ghost-free statement on the real function at run time (a contract with ghost postconditions cannot carry the run-time harness: natively there are no ghosts)
contract(
    FN,
    name="complete",
    **COMMON,
    globals={"max": MAX_KEYS},
    bounded_ensures={"kept-anchors-in-their-component": _COMPLETE},
    locals=LOCALS,
    loops={OUTER: Loop(index="i", invariants={}), INNER: Loop(index="j", invariants={}), FILL: Loop(index="t", invariants={})},
    runtime=_RT,
)

# ---- #listed: the ghost set mems[k][N] of a record is within component N of its statement ------------------------------------------------------------------
_LISTED = "all(all(n >= 1 and n <= len(result[k].marks) and all(x in result[k].marks[n - 1] for x in mems[k][n]) for n in mems[k]) for k in range(len(result)))"
contract(
    FN,
    name="listed",
    **COMMON,
    globals={"max": MAX_KEYS},
    ensures={"members-are-listed": _LISTED},
    canaries={"never-empty": "len(result) > 0"},
    locals=_CLOCALS, ghost_vars=_CGHOST_VARS, ghost=_CGHOST,
    hints={
        APPEND: _APPENDED + ["mems[len(r0)] == mem"],
        SETAPP: [
            "all(implies(n != number, n in componentAnchors and componentAnchors[n] == ca0[n]) for n in ca0)",
            "all(n in ca0 or n == number for n in componentAnchors)",
            "(number + 0) in componentAnchors and componentAnchors[number] == (ca0[number] if (number + 0) in ca0 else []) + [anchor]",
            # (membership, not positions: what the solvers know natively about `x in (xs + [a])`)
            "anchor in componentAnchors[number]",
            _MEM_UPD,
            "all(x in componentAnchors[number] for x in mem[number])",
        ],
        SETBARE: [
            "all(implies(n != number, n in componentAnchors and componentAnchors[n] == ca0[n]) for n in ca0)",
            "all(n in ca0 or n == number for n in componentAnchors)",
            "(number + 0) in componentAnchors and len(componentAnchors[number]) == 0",
            _MEM_UPD,
        ],
        "for number in range(1, max(componentAnchors.keys()) + 1):": [
            "len(ligatureMarks) == max(componentAnchors.keys())",
            "all(n >= 1 and n <= len(ligatureMarks) for n in componentAnchors)",
            "all(n >= 1 and n <= len(ligatureMarks) and ligatureMarks[n - 1] == componentAnchors[n] for n in mem)",
            _LM_MEM,
        ],
    },
    loops={
        OUTER: Loop(index="i", invariants={"listed": _LISTED}),
        INNER: Loop(index="j", invariants={
            "keys": "all(n in componentAnchors for n in mem) and all(n >= 1 for n in componentAnchors)",
            "mem-listed": _MEM_LIST,
        }),
        FILL: Loop(index="t", invariants={"len": "len(ligatureMarks) == t", "filled": _FILLED}),
    },
)

# ---- composition of #kept and #listed (per record; x: an anchor, N: its component number) -------------------------------------------------------------
from pyvc.api import lemma  # noqa: E402

lemma(
    "C06.lemma.liga-complete",
    props=["C06"],
    vars={"mem": MEM, "marks": List(List(NA)), "x": NA, "N": INT},
    hyps=[
        "(N + 0) in mem and x in mem[N]",  # #kept: an anchor that no later bare '_N' resets is a member of the record's ghost set for N
        "all(n >= 1 and n <= len(marks) and all(y in marks[n - 1] for y in mem[n]) for n in mem)",  # #listed, for that record
    ],
    concl={"in-its-component": "N >= 1 and N <= len(marks) and x in marks[N - 1]"},
    canaries={"first-component": "x in marks[0]"},
)
