"""C06 — MarkFeatureWriter._getAnchorPairs ("only anchors with a counterpart attach"), one contract VARIANT per clause group.

  #recorded     every recorded pair maps the name of a base anchor to '_' + that anchor's key
  #complete     every base anchor whose '_' + key is the name of some mark anchor is recorded          (needs: every mark anchor name is in the set)
  #counterpart  a pair is recorded only if SOME glyph carries a mark anchor of exactly that name       (needs: the set holds only mark anchor names)

The two directions of "markAnchorNames == names of the mark anchors" need different facts about `S.update(<filtered generator>)`: the
forall-exists membership axiom (comp_membership) that #counterpart needs makes the pure-forall direction time out in every solver
configuration, so each variant carries only the hypotheses of its own direction (notes/C06.requests.md R13, R14).
"""
from pyvc.api import INT, STR, Dict, Loop, Ref, Runtime, Set, contract

from . import c06rt
from .c06sets import NAMESET, NAMESET_CTOR
from .c06 import AL, KEYS, W, _ALL_ANCHORS, _at, _m_complete, _m_sound, _p_complete, _p_wit, _some_mark_named

FN = W + "MarkFeatureWriter._getAnchorPairs"
LOOP1 = "for anchors in self.context.anchorLists.values()#1"
LOOP2 = "for anchors in self.context.anchorLists.values()#2"
INNER = "for anchor in anchors"
UPD = "markAnchorNames.update((a.name for a in anchors if a.isMark))"
# class invariant of NamedAnchor: the key is a function of the name (NamedAnchor.__init__ 'classified')
KEY_OF_NAME = _ALL_ANCHORS.format(body=f"{_at('a', 'b')}.key == an_key({_at('a', 'b')}.name)")
COMMON = dict(props=["C06"], params={"self": Ref("C06_Writer")}, returns=Dict(STR, STR), dict_key_positions=False)
LOCALS = {"markAnchorNames": Set(STR), "anchorPairs": Dict(STR, STR)}
_RT = Runtime(c06rt.stage_cases, lambda d: {"self": c06rt.writer_at(d, "context")}, call=lambda fn, a: fn(a["self"]))

contract(
    FN,
    name="recorded",
    **COMMON,
    ensures={
        "base-anchor-of-that-key": f"all(any(any(not {_at('a', 'b')}.isMark and {_at('a', 'b')}.name == k and result[k] == '_' + {_at('a', 'b')}.key"
        f" for b in range(len({AL}[{KEYS}[a]]))) for a in range(len({KEYS}))) for k in result)",
    },
    canaries={"empty": "len(result) == 0"},
    locals=LOCALS,
    # wa[k], wb[k]: ghost witnesses (glyph position, anchor position) of the base anchor that recorded key k last
    ghost_vars={"wa": (Dict(STR, INT), "{}"), "wb": (Dict(STR, INT), "{}")},
    ghost={"anchorPairs[anchor.name] = markAnchorName": ["wa = {**wa, anchor.name: i2}", "wb = {**wb, anchor.name: j}"]},
    loops={
        LOOP2: Loop(index="i2", invariants={"wit": _p_wit("wa[k] < i2")}),
        INNER: Loop(index="j", invariants={"wit": _p_wit("(wa[k] < i2 or (wa[k] == i2 and wb[k] < j))")}),
    },
    runtime=_RT,
)

contract(
    FN,
    name="complete",
    **COMMON,
    requires=[KEY_OF_NAME],
    # `markAnchorNames` as a set OBJECT (contracts/c06sets.py): `S.update(<generator>)` adds the element of every passing position
    globals={"set": NAMESET_CTOR},
    modifies=[NAMESET + ".elems"],  # (the local set object)
    ensures={
        "every-matching-anchor-pairs": f"all(all(implies(not {_at('a', 'b')}.isMark and {_some_mark_named(chr(39) + '_' + chr(39) + ' + ' + _at('a', 'b') + '.key')},"
        f" {_at('a', 'b')}.name in result and result[{_at('a', 'b')}.name] == '_' + {_at('a', 'b')}.key) for b in range(len({AL}[{KEYS}[a]]))) for a in range(len({KEYS})))",
    },
    canaries={"empty": "len(result) == 0"},
    locals={"markAnchorNames": Ref(NAMESET), "anchorPairs": Dict(STR, STR)},
    loops={
        LOOP1: Loop(index="i1", invariants={"m-complete": _m_complete("i1")}),
        LOOP2: Loop(index="i2", invariants={"complete": _p_complete("i2")}),
        INNER: Loop(index="j", invariants={
            "complete": _p_complete("i2"),
            "complete-cur": "all(implies(not anchors[b].isMark and ('_' + anchors[b].key) in markAnchorNames, anchors[b].name in anchorPairs and anchorPairs[anchors[b].name] == '_' + anchors[b].key) for b in range(j))",
        }),
    },
    runtime=_RT,
)

contract(
    FN,
    name="counterpart",
    **COMMON,
    # `markAnchorNames` as a set OBJECT whose update is the union with the image set of the generator (contracts/c06sets.py): the
    # value-level encoding of `S.update(<generator>)` goes through an intermediate list whose facts make this direction seed-sensitive
    globals={"set": NAMESET_CTOR},
    modifies=[NAMESET + ".elems"],  # (the local set object)
    ensures={
        # equality of names, not prefix
        "only-with-counterpart": f"all({_some_mark_named('result[k]')} for k in result)",
    },
    canaries={"empty": "len(result) == 0"},
    locals={"markAnchorNames": Ref(NAMESET), "anchorPairs": Dict(STR, STR)},
    loops={
        LOOP1: Loop(index="i1", invariants={"m-sound": _m_sound("i1")}),
        LOOP2: Loop(index="i2", invariants={"in-marks": "all(anchorPairs[k] in markAnchorNames for k in anchorPairs)"}),
        INNER: Loop(index="j", invariants={"in-marks": "all(anchorPairs[k] in markAnchorNames for k in anchorPairs)"}),
    },
    runtime=_RT,
)
