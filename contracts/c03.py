"""C03 — glyph order and character map follow the source exactly."""
import z3

from pyvc import ty as T
from pyvc.api import BOOL, INT, STR, Const, Dict, List, Loop, Opt, Ref, Set, Tuple, cls, contract
from pyvc.core import Unsupported, Val

from . import spec  # noqa: F401


def _keys(ex, st, self, args, kwargs, node):
    return ex.read_field(st, self, "keyset")


def _contains(ex, st, self, x):
    return z3.Select(ex.read_field(st, self, "keyset").term, ex_lift(x, STR))


def ex_lift(v, t):
    from pyvc.core import lift

    return lift(v, t)


# a glyph set as the functions of C03 see it: a mapping name -> glyph (dict or Font)
cls(
    "GlyphMap",
    fields={"keyset": Set(STR), "glyphOrder": List(STR)},
    methods={"keys": _keys},
    contains=_contains,
    notes="duck-typed glyph collection: keys(), `in`; font.glyphOrder present (Font objects)",
)
cls(
    "GlyphDict",
    fields={"keyset": Set(STR)},
    methods={"keys": _keys},
    contains=_contains,
    absent=("glyphOrder",),
    notes="plain dict glyph set: no glyphOrder attribute (getattr default is taken)",
)

_ORDER_LOOP = {
    "for name in glyphOrder": Loop(
        index="i",
        invariants={
            "order": "order == notdef_head(font.keyset) + firsts(glyphOrder, without_notdef(font.keyset), i)",
            "names": "names == without_notdef(font.keyset) - elems_upto(glyphOrder, i)",
            # "each exported glyph exactly once", directly on the loop: `order` and `names` partition the glyph names
            "members": "all(order[k] in font.keyset and order[k] not in names for k in range(len(order)))",
            "distinct": "distinct(order)",
            "covered": "all(x in names or x in order for x in font.keyset)",
        },
    )
}
# each exported glyph exactly once: no name twice, only glyph names, every glyph name  (`sorted` of the remaining names contributes
# exactly those names, once each: the trusted axioms of sorting, `sorted_axioms=True`)
_EACH_ONCE = {
    "no-name-twice": "distinct(result)",
    "only-glyph-names": "all(result[k] in font.keyset for k in range(len(result)))",
    "every-glyph-name": "all(x in result for x in font.keyset)",
}

contract(
    "ufo2ft.util:makeOfficialGlyphOrder",
    name="explicit",
    props=["C03", "C13"],
    params={"font": Ref("GlyphMap"), "glyphOrder": Opt(List(STR))},
    returns=List(STR),
    requires=["glyphOrder is not None"],
    ensures={"order": "result == official_order(font.keyset, glyphOrder)", **_EACH_ONCE},
    canaries={"shifted": "result == official_order(font.keyset, glyphOrder) + ['x']", "nothing-exported": "len(result) == 0"},
    loops=_ORDER_LOOP,
    locals={"order": List(STR), "names": Set(STR)},
    sorted_axioms=True,
)

contract(
    "ufo2ft.util:makeOfficialGlyphOrder",
    name="from-font",
    props=["C03"],
    params={"font": Ref("GlyphMap"), "glyphOrder": Const(None)},
    returns=List(STR),
    ensures={"order": "result == official_order(font.keyset, font.glyphOrder)", **_EACH_ONCE},
    canaries={"shifted": "result == official_order(font.keyset, font.glyphOrder) + ['x']"},
    loops=_ORDER_LOOP,
    locals={"order": List(STR), "names": Set(STR), "glyphOrder": List(STR)},
    sorted_axioms=True,
)

contract(
    "ufo2ft.util:makeOfficialGlyphOrder",
    name="dict-no-order",
    props=["C03"],
    params={"font": Ref("GlyphDict"), "glyphOrder": Const(None)},
    returns=List(STR),
    ensures={"order": "result == official_order(font.keyset, [])", **_EACH_ONCE},
    canaries={"shifted": "len(result) == 0"},
    locals={"order": List(STR), "names": Set(STR)},
    sorted_axioms=True,
)


# =====================================================================================================
# makeUnicodeToGlyphNameMapping

from pyvc.api import Map  # noqa: E402
from pyvc.core import lift as _lift  # noqa: E402

cls("Glyph", fields={"name": STR, "unicodes": List(INT), "width": T.REAL, "height": T.REAL}, dynamic=False)


def _gs_getitem(ex, st, self, idx, node):
    return ex.getitem(ex.read_field(st, self, "glyphs"), idx, st, node)


def _gs_keyset(ex, st, self):
    d = ex.read_field(st, self, "glyphs")
    return Val(Set(STR), d.ty.sort().dom(d.term))


def _gs_uni(ex, st, self):
    """name -> list of code points of the glyph stored under that name (a heap-derived view)."""
    d = ex.read_field(st, self, "glyphs")
    n = z3.Const("n!uni", z3.StringSort())
    arr = ex.field_array(st, "Glyph", "unicodes")
    return Val(Map(STR, List(INT)), z3.Lambda([n], z3.Select(arr, z3.Select(d.ty.sort().map(d.term), n))))


def _gs_contains(ex, st, self, x):
    d = ex.read_field(st, self, "glyphs")
    return z3.Select(d.ty.sort().dom(d.term), _lift(x, STR))


cls(
    "GlyphSet",
    fields={"glyphs": Dict(STR, Ref("Glyph"))},
    derived={"keyset": _gs_keyset, "uni": _gs_uni},
    getitem=_gs_getitem,
    contains=_gs_contains,
    methods={"keys": lambda ex, st, self, a, k, n: _gs_keyset(ex, st, self)},
    views={"keyset": lambda o: set(o.keys()), "uni": lambda o: {k: list(g.unicodes) for k, g in o.items()}},
    notes="glyph set mapping names to glyph objects (dict or Font); uni = name -> glyph.unicodes",
)

_UNI_MAPS = "all(all(u in mapping and mapping[u] == glyphOrder[a] for u in font.uni[glyphOrder[a]]) for a in range(i))"
# ghost witnesses: wi[u], wj[u] = the (glyph index, position) entry that inserted code point u
_UNI_WIT = (
    "all(u in wi and u in wj and 0 <= wi[u] and wi[u] < len(glyphOrder) and 0 <= wj[u] and wj[u] < len(font.uni[glyphOrder[wi[u]]])"
    " and font.uni[glyphOrder[wi[u]]][wj[u]] == u and mapping[u] == glyphOrder[wi[u]] and {bound} for u in mapping)"
)
# every processed entry is the witness of its own code point (hence no two entries share one)
_UNI_INJ = "all(all(font.uni[glyphOrder[a]][b] in mapping and wi[font.uni[glyphOrder[a]][b]] == a and wj[font.uni[glyphOrder[a]][b]] == b for b in range(len(font.uni[glyphOrder[a]]))) for a in range(i))"

def _no_uni_view(txt, recv="font"):
    """rewrite `<recv>.uni[<expr>]` to `<recv>.glyphs[<expr>].unicodes` (a field read through the dict instead of the lambda-defined
    Map view: `select(lambda, x)` under a quantifier is not beta-reduced before instantiation, which blocked the composition proofs)"""
    key = recv + ".uni["
    out = ""
    k = 0
    while True:
        p = txt.find(key, k)
        if p < 0:
            return out + txt[k:]
        out += txt[k:p]
        depth, q = 1, p + len(key)
        while depth:
            depth += {"[": 1, "]": -1}.get(txt[q], 0)
            q += 1
        out += f"{recv}.glyphs[{_no_uni_view(txt[p + len(key):q - 1], recv)}].unicodes"
        k = q


def _umap_contract(name, cls_name, tr=lambda t: t):
  def _map_clauses(d):
      return {k: tr(v) for k, v in d.items()}

  return _umap_contract_raw(name, cls_name, tr, _map_clauses)


def _umap_contract_raw(name, cls_name, tr, _mc):
  return contract(
    "ufo2ft.util:makeUnicodeToGlyphNameMapping",
    name=name,
    props=["C03"],
    params={"font": Ref(cls_name), "glyphOrder": Opt(List(STR))},
    returns=Dict(INT, STR),
    requires=["glyphOrder is not None", "all(n in font.keyset for n in glyphOrder)"],
    ensures=_mc({
        # every declared code point is mapped to the glyph that declares it ...
        "maps": "all(all(u in result and result[u] == glyphOrder[i] for u in font.uni[glyphOrder[i]]) for i in range(len(glyphOrder)))",
        # ... and nothing else is mapped
        "only": "all(any(any(font.uni[glyphOrder[i]][j] == u for j in range(len(font.uni[glyphOrder[i]]))) for i in range(len(glyphOrder))) for u in result)",
    }),
    raises=_mc({
        # rejected exactly when two different (glyph, position) entries carry the same code point
        "InvalidFontData": "any(any(any(any((a != i or b != j) and font.uni[glyphOrder[a]][b] == font.uni[glyphOrder[i]][j]"
        " for b in range(len(font.uni[glyphOrder[a]]))) for a in range(len(glyphOrder)))"
        " for j in range(len(font.uni[glyphOrder[i]]))) for i in range(len(glyphOrder)))",
    }),
    canaries=_mc({"maps-wrong": "all(all(result[u] == glyphOrder[0] for u in font.uni[glyphOrder[i]]) for i in range(len(glyphOrder)))"}),
    locals={"mapping": Dict(INT, STR)},
    ghost_vars={"wi": (Dict(INT, INT), "{}"), "wj": (Dict(INT, INT), "{}")},
    ghost={"mapping[uni] = glyphName": ["wi = {**wi, uni: i}", "wj = {**wj, uni: j}"]},
    loops={
        "for glyphName in glyphOrder": Loop(
            index="i",
            invariants=_mc({
                "wit": _UNI_WIT.format(bound="wi[u] < i"),
                "inj": _UNI_INJ,
            }),
        ),
        "for uni in unicodes": Loop(
            index="j",
            invariants=_mc({
                "wit": _UNI_WIT.format(bound="(wi[u] < i or (wi[u] == i and wj[u] < j))"),
                "inj": _UNI_INJ,
                "inj-cur": "all(unicodes[b] in mapping and wi[unicodes[b]] == i and wj[unicodes[b]] == b for b in range(j))",
            }),
        ),
    },
)


_umap_contract(None, "GlyphSet")


# =====================================================================================================
# BaseOutlineCompiler.setupTable_cmap

from pyvc.api import specfn  # noqa: E402

from . import lib  # noqa: E402,F401


# branch-free restatements of spec.uvs_entry / spec.uvs_list_ok (an `if` inside a spec function that is inlined under a
# contradictory guard leaves no feasible return path in the engine: see notes/C03.requests.md)
@specfn(Tuple(INT, Opt(STR)), hv=STR, gm=Dict(STR, STR), M=Dict(INT, STR))
def uvs_entry_of(hv, gm, M):
    """format-14 entry for base value hv: the DEFAULT form (value, None) iff the sequence names the base mapping's glyph"""
    return (int_hex(hv), None if gm[hv] == M[int_hex(hv)] else gm[hv])


@specfn(BOOL, L=List(Tuple(INT, Opt(STR))), gm=Dict(STR, STR), M=Dict(INT, STR))
def uvs_list_of(L, gm, M):
    """L lists one entry per base value of gm, in gm's order"""
    return len(L) == len(list(gm)) and all(L[b] == uvs_entry_of(list(gm)[b], gm, M) for b in range(len(list(gm))))


from .spec import int_hex  # noqa: E402,F401  (natively used by the two functions above)

_M = "self.unicodeToGlyphNameMapping"
_UVS = "self.ufo.lib['public.unicodeVariationSequences']"
_HAS_UVS = "(self.ufo.lib.get('public.unicodeVariationSequences') is not None and len(self.ufo.lib['public.unicodeVariationSequences']) > 0)"
_CM = "self.otf['cmap']"
_LAST = f"{_CM}.tables[len({_CM}.tables) - 1]"

contract(
    "ufo2ft.outlineCompiler:BaseOutlineCompiler.setupTable_cmap",
    props=["C03"],
    params={"self": Ref("OutlineCompiler")},
    requires=[
        "'cmap' in self.tables",
        # the code indexes the base mapping with every UVS base value (KeyError otherwise): precondition taken from the code
        f"implies({_HAS_UVS}, all(all(int_hex(hv) in {_M} for hv in {_UVS}[vs]) for vs in {_UVS}))",
        # variation-selector keys parse to pairwise different integers
        f"implies({_HAS_UVS}, all(all(implies(int_hex(a) == int_hex(b), a == b) for b in {_UVS}) for a in {_UVS}))",
    ],
    ensures={
        # (one fact per clause: a conjunction of five heap reads took the solvers several seconds)
        "at-least-two": f"len({_CM}.tables) >= 2",
        "bmp-subtable-0": f"{_CM}.tables[0].format == 4 and {_CM}.tables[0].platformID == 0 and {_CM}.tables[0].platEncID == 3",
        "bmp-subtable-1": f"{_CM}.tables[1].format == 4 and {_CM}.tables[1].platformID == 3 and {_CM}.tables[1].platEncID == 1",
        # format 4 holds exactly the mappings with cp <= 0xFFFF
        # (stated point-wise: same mapping as `cmap == {k: v for k, v in M.items() if k <= 65535}`, without an equality
        #  between lambda-defined dict values, on which the solvers were slow and unstable)
        **{f"bmp-has-every-{t}": f"all(implies(k <= 65535, k in {_CM}.tables[{t}].cmap and {_CM}.tables[{t}].cmap[k] == {_M}[k]) for k in {_M})" for t in (0, 1)},
        **{f"bmp-nothing-else-{t}": f"all(k in {_M} and k <= 65535 for k in {_CM}.tables[{t}].cmap)" for t in (0, 1)},
        # format 12 exists iff some code point is supplementary, and then holds ALL mappings
        "full-iff-nonbmp": f"iff(any(k > 65535 for k in {_M}), len({_CM}.tables) >= 4 and {_CM}.tables[2].format == 12)",
        "full-subtable-2": f"implies(any(k > 65535 for k in {_M}), {_CM}.tables[2].platformID == 0 and {_CM}.tables[2].platEncID == 4)",
        "full-subtable-3": f"implies(any(k > 65535 for k in {_M}), {_CM}.tables[3].format == 12 and {_CM}.tables[3].platformID == 3 and {_CM}.tables[3].platEncID == 10)",
        **{f"full-has-every-{t}": f"implies(any(k > 65535 for k in {_M}), all(k in {_CM}.tables[{t}].cmap and {_CM}.tables[{t}].cmap[k] == {_M}[k] for k in {_M}))" for t in (2, 3)},
        **{f"full-nothing-else-{t}": f"implies(any(k > 65535 for k in {_M}), all(k in {_M} for k in {_CM}.tables[{t}].cmap))" for t in (2, 3)},
        # exactly these subtables: 2 (+2 when some code point is supplementary) (+1 when variation sequences are declared)
        "count": f"len({_CM}.tables) == 2 + ite(any(k > 65535 for k in {_M}), 2, 0) + ite({_HAS_UVS}, 1, 0)",
        "uvs-subtable": f"implies({_HAS_UVS}, {_LAST}.format == 14 and {_LAST}.platformID == 0 and {_LAST}.platEncID == 5)",
        # format 14: one list per declared selector, one entry per base value in the declared order; the entry is the
        # DEFAULT form (value, None) iff the sequence names the base mapping's glyph, else (value, glyph name)
        "uvs": f"implies({_HAS_UVS}, all(int_hex(vs) in {_LAST}.uvsDict and uvs_list_of({_LAST}.uvsDict[int_hex(vs)], {_UVS}[vs], {_M}) for vs in {_UVS}))",
        # ... and no list for a selector that is not declared
        "uvs-only-declared": f"implies({_HAS_UVS}, all(any(int_hex(vs) == k for vs in {_UVS}) for k in {_LAST}.uvsDict))",
    },
    canaries={
        "bmp-has-everything": f"all(k in {_CM}.tables[0].cmap for k in {_M})",
        "uvs-all-default": f"implies({_HAS_UVS}, all(all({_LAST}.uvsDict[k][b][1] is None for b in range(len({_LAST}.uvsDict[k]))) for k in {_LAST}.uvsDict))",
        "never-uvs": f"len({_CM}.tables) == 2 + ite(any(k > 65535 for k in {_M}), 2, 0)",
    },
    # every `if` keeps its two paths apart ((non-BMP or not) x (UVS or not)): four simple post-states instead of one
    # with ite-merged heap arrays and lambda-defined dicts (which took the solvers 5-16 s per clause)
    merge_branches=False,
    # `mapping` / `nonBMP` are stored into two subtables each and never mutated afterwards (nonBMP.update runs BEFORE it is stored;
    # `mapping = nonBMP` re-binds the name): value semantics for the shared dicts is justified
    alias_ok=("mapping", "nonBMP"),
    modifies=["TTFont.tbl:cmap"],  # frame: the only pre-existing object written is the font (its 'cmap' slot); everything else is new
    locals={"uvsList": List(lib.UVS_ENTRY), "uvsDict": Dict(INT, List(lib.UVS_ENTRY))},
    hints={"uvsDict = dict()": [f"all(k in mapping and mapping[k] == {_M}[k] for k in {_M})"]},
    ghost_vars={"wv": (Dict(INT, INT), "{}")},
    ghost={"uvsDict[int(hexvs, 16)] = uvsList": ["wv = {**wv, int_hex(hexvs): i}"]},
    loops={
        "for (hexvs, glyphMapping) in uvsMapping.items()": Loop(
            index="i", seq="VS",
            invariants={
                # (one fact per invariant: keys present / list lengths / list entries)
                "done-keys": "all(int_hex(VS[a]) in uvsDict for a in range(i))",
                "done-len": "all(len(uvsDict[int_hex(VS[a])]) == len(list(uvsMapping[VS[a]])) for a in range(i))",
                "done": f"all(all(uvsDict[int_hex(VS[a])][b] == uvs_entry_of(list(uvsMapping[VS[a]])[b], uvsMapping[VS[a]], {_M}) for b in range(len(list(uvsMapping[VS[a]])))) for a in range(i))",
                # ghost wv: selector key -> position of the declared selector that produced it
                "only": "all(k in wv and 0 <= wv[k] and wv[k] < i and int_hex(VS[wv[k]]) == k for k in uvsDict)",
            },
        ),
        "for (hexvalue, glyphName) in glyphMapping.items()": Loop(
            index="j", seq="HV",
            invariants={
                "len": "len(uvsList) == j",
                "entries": "all(uvsList[b] == uvs_entry_of(HV[b], glyphMapping, mapping) for b in range(j))",
            },
        ),
    },
)


# ---- run-time side (cross-check, replay) -------------------------------------------------------
import itertools  # noqa: E402

from pyvc.api import CLASSES, CONTRACTS, Runtime  # noqa: E402


class _FakeFont(dict):
    glyphOrder = ()


for _cn in ("GlyphMap", "GlyphDict"):
    CLASSES[_cn].views.update(keyset=lambda o: set(o.keys()), glyphOrder=lambda o: list(o.glyphOrder))


def _order_cases(rng, n):
    names = [".notdef", "a", "b", "c"]
    pool = [".notdef", "a", "b", "z"]
    cases = []
    for k in range(len(names) + 1):
        for sub in itertools.combinations(names, k):
            for ln in range(4):
                for order in itertools.product(pool, repeat=ln):
                    cases.append({"names": list(sub), "order": list(order)})
    rng.shuffle(cases)
    return cases[:n]


def _build_explicit(d):
    f = _FakeFont({n: None for n in d["names"]})
    return {"font": f, "glyphOrder": list(d["order"])}


def _build_fromfont(d):
    f = _FakeFont({n: None for n in d["names"]})
    f.glyphOrder = list(d["order"])
    return {"font": f, "glyphOrder": None}


def _build_dict(d):
    return {"font": {n: None for n in d["names"]}, "glyphOrder": None}


CONTRACTS["ufo2ft.util:makeOfficialGlyphOrder#explicit"].runtime = Runtime(_order_cases, _build_explicit)
CONTRACTS["ufo2ft.util:makeOfficialGlyphOrder#from-font"].runtime = Runtime(_order_cases, _build_fromfont)
CONTRACTS["ufo2ft.util:makeOfficialGlyphOrder#dict-no-order"].runtime = Runtime(_order_cases, _build_dict)


# ---- run-time harness for setupTable_cmap -------------------------------------------------------------
def _cmap_cases(rng, n):
    cps = [0x41, 0x42, 0x9089, 0x1F600, 0x2F800]
    out = []
    for _ in range(n):
        k = rng.randint(0, 4)
        names = ["a", "b", "c", "d"][:k]
        pool = cps[:]
        rng.shuffle(pool)
        if rng.random() < 0.4:
            pool = [c for c in pool if c <= 0xFFFF] + [0x43, 0x44]
        uni = {}
        for nm in names:
            uni[nm] = [pool.pop() for _ in range(rng.randint(0, 2)) if pool]
        mapped = {u: g for g, us in uni.items() for u in us}
        uvs = {}
        if mapped and rng.random() < 0.7:
            for vs in rng.sample(["FE00", "FE01", "E0100"], rng.randint(1, 2)):
                ent = {}
                for u in rng.sample(sorted(mapped), rng.randint(1, min(2, len(mapped)))):
                    ent["%04X" % u] = mapped[u] if rng.random() < 0.5 else rng.choice(names)
                uvs[vs] = ent
        out.append({"unicodes": uni, "uvs": uvs})
    return out


def _cmap_build(d):
    import ufoLib2
    from fontTools.ttLib import TTFont

    from ufo2ft.outlineCompiler import OutlineOTFCompiler

    f = ufoLib2.Font()
    for nm, us in d["unicodes"].items():
        g = f.newGlyph(nm)
        g.unicodes = list(us)
    if d["uvs"]:
        f.lib["public.unicodeVariationSequences"] = {k: dict(v) for k, v in d["uvs"].items()}
    comp = OutlineOTFCompiler(f)
    comp.otf = TTFont()
    return {"self": comp}


CONTRACTS["ufo2ft.outlineCompiler:BaseOutlineCompiler.setupTable_cmap"].runtime = Runtime(
    _cmap_cases, _cmap_build, call=lambda fn, args: fn(args["self"])
)


def _umap_cases(rng, n):
    out = []
    for _ in range(n):
        names = ["a", "b", "c"][: rng.randint(0, 3)]
        uni = {nm: [rng.choice([65, 66, 67, 0x1F600]) for _ in range(rng.randint(0, 2))] for nm in names}
        order = list(names)
        rng.shuffle(order)
        out.append({"unicodes": uni, "order": order})
    return out


def _umap_build(d):
    import ufoLib2

    f = ufoLib2.Font()
    for nm, us in d["unicodes"].items():
        f.newGlyph(nm).unicodes = list(us)
    return {"font": {g.name: g for g in f}, "glyphOrder": list(d["order"])}


CONTRACTS["ufo2ft.util:makeUnicodeToGlyphNameMapping"].runtime = Runtime(_umap_cases, _umap_build)


# =====================================================================================================
# '.notdef' synthesis: StubGlyph.__init__, util._copyGlyph (the variant the compilers call: default factory, contour
# direction chosen by the flavour) and BaseOutlineCompiler / OutlineTTFCompiler.makeMissingRequiredGlyphs.
#
# One class `StubGlyph` stands for EVERY glyph object these functions see (source glyphs, copies, stubs): they are
# duck-typed in the code, and a dict value type is one class in the encoding.  Its constructor is the real
# StubGlyph.__init__ (through the contract below).
import z3 as _z3  # noqa: E402,F811
from fontTools.misc.fixedTools import otRound as _otRound  # noqa: E402

import ufo2ft.fontInfoData as _fid  # noqa: E402
from pyvc.api import REAL, trusted  # noqa: E402
from pyvc.symex import FuncRef  # noqa: E402


class _Fn(FuncRef):
    """a real function usable in clauses by both interpreters (symbolic: the FuncRef and so its model; CPython: the function)"""

    def __init__(self, obj):
        FuncRef.__init__(self, obj, f"{obj.__module__}.{obj.__qualname__}")

    def __call__(self, *a, **k):
        return self.obj(*a, **k)


_G = {"getAttrWithFallback": _Fn(_fid.getAttrWithFallback), "otRound": _Fn(_otRound)}


def _bound(name):
    def m(ex, st, self, args, kwargs, node):
        return Val.const(None)

    m.__name__ = name
    return m


def _g_getPointPen(ex, st, self, args, kwargs, node):
    p = ex.new_object(st, "C03_PointPen")
    ex.write_field(st, p, "target", self, node)
    ex.write_field(st, p, "reversing", Val.const(False), node)
    return p


def _g_drawPoints(ex, st, self, args, kwargs, node):
    """glyph.drawPoints(pen): the pen's target glyph receives this glyph's outline — recorded as (source glyph, reversed?)"""
    pen = args[0]
    tgt = ex.read_field(st, pen, "target")
    ex.write_field(st, tgt, "drawn_from", Val(Opt(Ref("StubGlyph")), Opt(Ref("StubGlyph")).sort().some(ex_lift(self, Ref("StubGlyph")))), node)
    ex.write_field(st, tgt, "drawn_reversed", ex.read_field(st, pen, "reversing"), node)
    return Val.const(None)


_g_drawPoints.modifies = ["StubGlyph.drawn_from", "StubGlyph.drawn_reversed"]

cls("C03_PointPen", fields={"target": Ref("StubGlyph"), "reversing": BOOL}, notes="point pen writing into a glyph; `reversing`: wrapped in ReverseContourPointPen (assumed pen protocol)")
cls("C03_Component", fields={"baseGlyph": STR}, notes="component reference")
cls(
    "StubGlyph",
    fields={
        "name": STR, "width": REAL, "height": REAL, "unicodes": List(INT), "unitsPerEm": INT, "ascender": INT, "descender": INT,
        "components": List(Ref("C03_Component")), "anchors": List(Dict(STR, STR)), "unicode": Opt(INT), "reverseContour": BOOL, "lib": Dict(STR, STR),
        "drawn_from": Opt(Ref("StubGlyph")), "drawn_reversed": BOOL,
    },
    dynamic=True,
    methods={"_drawDefaultNotdef": _bound("_drawDefaultNotdef"), "_drawDefaultNotdefPoints": _bound("_drawDefaultNotdefPoints"), "getPointPen": _g_getPointPen, "drawPoints": _g_drawPoints},
    repo="ufo2ft.outlineCompiler:StubGlyph",
    notes="a glyph object as the '.notdef' machinery sees it (source glyph, copy or StubGlyph): name, metrics, unicodes; drawn_from / drawn_reversed = "
          "ghost record of the last drawPoints into it",
)

def _stub_contract(name, uni_ty, uni_expr, first_expr):
    return contract(
        "ufo2ft.outlineCompiler:StubGlyph.__init__",
        name=name,
        props=["C03"],
        params={"self": Ref("StubGlyph"), "name": STR, "width": INT, "unitsPerEm": INT, "ascender": INT, "descender": INT, "unicodes": uni_ty, "reverseContour": BOOL},
        # frame (checked): only the object under construction is written
        modifies=[f"self.{f}" for f in ("name", "width", "unitsPerEm", "ascender", "descender", "unicodes", "components", "anchors", "unicode", "reverseContour", "lib")],
        ensures={
            "name": "self.name == name",
            "metrics": "self.width == width and self.unitsPerEm == unitsPerEm and self.ascender == ascender and self.descender == descender",
            # no code points unless given: a synthesised glyph adds nothing to the character map
            "unicodes": f"self.unicodes == {uni_expr}",
            "unicode": f"self.unicode == {first_expr}",
            "empty": "len(self.components) == 0 and len(self.anchors) == 0 and len(self.lib) == 0",
            "direction": "self.reverseContour == reverseContour",
        },
        canaries={"never-reversed": "not self.reverseContour"},
    )


# (two variants because the engine does not narrow an Optional inside `a if a is not None else b`; the bare key is the one the
#  compilers use: StubGlyph(...) without `unicodes`)
_stub_contract(None, Const(None), "[]", "None")
_stub_contract("with-unicodes", List(INT), "unicodes", "(None if len(unicodes) == 0 else unicodes[0])")


def _stub_cases(rng, n):
    return [{"name": rng.choice([".notdef", "foo"]), "width": rng.choice([0, 500]), "upm": rng.choice([1000, 2048]), "asc": 800, "desc": -200,
             "unicodes": rng.choice([None, [], [65], [66, 67]]), "rev": bool(k % 2)} for k in range(n)]


def _stub_build(d):
    from ufo2ft.outlineCompiler import StubGlyph

    return {"self": StubGlyph.__new__(StubGlyph), "name": d["name"], "width": d["width"], "unitsPerEm": d["upm"], "ascender": d["asc"], "descender": d["desc"],
            "unicodes": d["unicodes"], "reverseContour": d["rev"]}


CONTRACTS["ufo2ft.outlineCompiler:StubGlyph.__init__"].runtime = Runtime(lambda rng, n: [d for d in _stub_cases(rng, 3 * n) if d["unicodes"] is None][:n], _stub_build)
CONTRACTS["ufo2ft.outlineCompiler:StubGlyph.__init__#with-unicodes"].runtime = Runtime(lambda rng, n: [d for d in _stub_cases(rng, 3 * n) if d["unicodes"] is not None][:n], _stub_build)


# ---- util._copyGlyph as the compilers call it -----------------------------------------------------------------
def _factory_call(ex, st, self, args, kwargs, node):
    g = ex.new_object(st, "StubGlyph")
    ex.write_field(st, g, "name", args[0], node)
    ex.write_field(st, g, "unicodes", Val.const([]), node)
    ex.write_field(st, g, "drawn_from", Val(Opt(Ref("StubGlyph")), Opt(Ref("StubGlyph")).sort().nil), node)
    for k, v in kwargs.items():
        if k not in ("width", "height"):
            raise Unsupported(f"glyph factory keyword {k}", node)
        ex.write_field(st, g, k, v, node)
    return g


_factory_call.modifies = ["StubGlyph.name", "StubGlyph.unicodes", "StubGlyph.drawn_from", "StubGlyph.width", "StubGlyph.height"]
cls("C03_GlyphFactory", methods={"__call__": _factory_call}, notes="newGlyph(name, **kw): a fresh EMPTY glyph object (no code points, no outline) with that name; width/height keywords stored")


@trusted("c03.getNewGlyphFactory", "ufo2ft.util._getNewGlyphFactory(glyph) returns a function making a NEW, empty glyph object of the UFO library's class with the "
         "given name (ufo2ft's thin reflection wrapper around the library constructor; bounded: run-time harness of _copyGlyph#c03 on ufoLib2 and defcon)")
def _gngf(ex, st, args, kwargs, node):
    return ex.new_object(st, "C03_GlyphFactory")


@trusted("c03.ReverseContourPointPen", "fontTools ReverseContourPointPen(pen): a pen that forwards to `pen` with every contour reversed")
def _rcpp(ex, st, args, kwargs, node):
    p = ex.new_object(st, "C03_PointPen")
    ex.write_field(st, p, "target", ex.read_field(st, args[0], "target"), node)
    ex.write_field(st, p, "reversing", Val.const(True), node)
    return p


def _deepcopy(ex, st, args, kwargs, node):
    return args[0]


_COPY = contract(
    "ufo2ft.util:_copyGlyph",
    name="c03",
    props=["C03"],
    params={"glyph": Ref("StubGlyph"), "glyphFactory": Const(None), "reverseContour": BOOL},
    returns=Ref("StubGlyph"),
    globals={"_getNewGlyphFactory": Val.obj(FuncRef(None, "c03.getNewGlyphFactory"))},
    models={"copy.deepcopy": _deepcopy, "fontTools.pens.pointPen.ReverseContourPointPen": _rcpp},
    modifies=[],  # frame (checked): nothing that existed before is written — the source glyph included; every store goes to the new copy
    ensures={
        "a-copy": "result is not glyph and fresh(result)",
        "name": "result.name == glyph.name",
        # the copy declares exactly the source glyph's code points (it enters the character map like the original)
        "unicodes": "result.unicodes == glyph.unicodes",
        "metrics": "result.width == glyph.width and result.height == glyph.height",
        "outline": "result.drawn_from == glyph and result.drawn_reversed == reverseContour",
        "source-untouched": "glyph.name == old(glyph.name) and glyph.unicodes == old(glyph.unicodes) and glyph.width == old(glyph.width)",
    },
    canaries={"never-reversed": "not result.drawn_reversed"},
)


# run-time side of _copyGlyph#c03: the ghost record (drawn_from / drawn_reversed) is recomputed from the real outlines
_SRC = [None]


def _outline(g, reverse=False):
    from fontTools.pens.pointPen import ReverseContourPointPen
    from fontTools.pens.recordingPen import RecordingPointPen

    p = RecordingPointPen()
    g.drawPoints(ReverseContourPointPen(p) if reverse else p)
    return p.value


def _view_drawn_from(o):
    s = _SRC[0]
    return s if s is not None and _outline(o) in (_outline(s), _outline(s, True)) else None


def _view_drawn_reversed(o):
    s = _SRC[0]
    return s is not None and _outline(o) == _outline(s, True) and _outline(o) != _outline(s)


CLASSES["StubGlyph"].views.update({"drawn_from": _view_drawn_from, "drawn_reversed": _view_drawn_reversed, "unicodes": lambda o: list(o.unicodes)})
_KEEP = []


def _copy_cases(rng, n):
    return [{"ufolib": ["ufoLib2", "defcon"][k % 2], "unicodes": rng.choice([[], [65], [0x1F600, 66]]), "width": rng.choice([0, 500, 612.5]),
             "name": rng.choice([".notdef", "a"]), "rev": bool((k // 2) % 2)} for k in range(n)]


def _copy_build(d):
    from . import rtlib

    f = rtlib.build_ufo({"glyphs": {d["name"]: {"width": d["width"], "unicodes": d["unicodes"], "contours": [[(0, 0, "line"), (100, 0, "line"), (50, 80, "line")]]}}}, d["ufolib"])
    _KEEP.append(f)
    del _KEEP[:-50]
    _SRC[0] = f[d["name"]]
    return {"glyph": f[d["name"]], "reverseContour": d["rev"]}


_COPY.runtime = Runtime(_copy_cases, _copy_build, call=lambda fn, a: fn(a["glyph"], reverseContour=a["reverseContour"]))
_COPY.globals["fresh"] = lambda x: True  # allocation is not observable natively


# ---- makeMissingRequiredGlyphs ---------------------------------------------------------------------------------------
from pyvc import rt as _rt  # noqa: E402

def _ngs_getitem(ex, st, self, idx, node):
    return ex.getitem(ex.read_field(st, self, "glyphs"), idx, st, node)


def _ngs_setitem(ex, st, self, idx, v, node):
    from pyvc import models

    cur = ex.read_field(st, self, "glyphs")
    ex.write_field(st, self, "glyphs", models.set_item(ex, st, cur, idx, v, node), node)


def _ngs_contains(ex, st, self, x):
    d = ex.read_field(st, self, "glyphs")
    return _z3.Select(d.ty.sort().dom(d.term), _lift(x, STR))


def _ngs_fieldmap(ex, st, self, field, t):
    """name -> <field> of the glyph stored under that name (a heap-derived view)"""
    d = ex.read_field(st, self, "glyphs")
    n = _z3.Const("n!" + field, _z3.StringSort())
    arr = ex.field_array(st, "StubGlyph", field)
    return Val(Map(STR, t), _z3.Lambda([n], _z3.Select(arr, _z3.Select(d.ty.sort().map(d.term), n))))


def _ngs_keyset(ex, st, self):
    d = ex.read_field(st, self, "glyphs")
    return Val(Set(STR), d.ty.sort().dom(d.term))


def _ngs_keys(ex, st, self, args, kwargs, node):
    return ex.call_method(ex.read_field(st, self, "glyphs"), "keys", [], {}, st, node)


cls(
    "NotdefGlyphSet",
    fields={"glyphs": Dict(STR, Ref("StubGlyph"))},
    getitem=_ngs_getitem, setitem=_ngs_setitem, contains=_ngs_contains, methods={"keys": _ngs_keys},
    derived={"ident": lambda ex, st, self: ex.read_field(st, self, "glyphs"), "uni": lambda ex, st, self: _ngs_fieldmap(ex, st, self, "unicodes", List(INT)),
             "gname": lambda ex, st, self: _ngs_fieldmap(ex, st, self, "name", STR), "keyset": lambda ex, st, self: _ngs_keyset(ex, st, self)},
    views={"glyphs": lambda o: {k: _rt.Proxy(v, CLASSES["StubGlyph"]) for k, v in o.items()}, "ident": lambda o: {k: id(v) for k, v in o.items()},
           "uni": lambda o: {k: list(v.unicodes) for k, v in o.items()}, "gname": lambda o: {k: v.name for k, v in o.items()}, "keyset": lambda o: set(o.keys())},
    notes="the glyph set handed to the compiler (a dict name -> glyph object); ident = name -> object identity",
)
cls("NotdefCompiler", fields={"compilingVFDefaultSource": BOOL}, repo="ufo2ft.outlineCompiler:BaseOutlineCompiler", notes="compiler instance as makeMissingRequiredGlyphs sees it")

_GS = "glyphSet.glyphs"
_N = f"{_GS}['.notdef']"
_ABSENT = f"'.notdef' not in old({_GS})"
_TT = "'\\x00\\x01\\x00\\x00'"


def _upm(attr):
    return f"otRound(getAttrWithFallback(font.info, '{attr}'))"


# the glyph objects in the set exist (trivially true at every call site; the heap-derived views `uni` / `gname` read references
# inside a lambda, where the engine cannot attach its "no dangling reference" assumption, and a new stub must not alias them)
_ALL_ALLOC = f"all(allocated({_GS}[g]) for g in {_GS})"

_MMRG_ENSURES = {
    "notdef-present": "'.notdef' in glyphSet",
    "glyph-objects-exist": _ALL_ALLOC,
    # the glyphs that were there keep their names and code points (what the glyph order and the character map are built from)
    "glyphs-keep-name-and-code-points": f"all(glyphSet.uni[g] == old(glyphSet.uni)[g] and glyphSet.gname[g] == old(glyphSet.gname)[g] for g in old({_GS}))",
    # every glyph that was there is still there, the same object ...
    "others-untouched": f"all(g in {_GS} and glyphSet.ident[g] == old(glyphSet.ident)[g] for g in old({_GS}))",
    # ... and nothing but '.notdef' is added
    "only-notdef-added": f"all(g == '.notdef' or g in old({_GS}) for g in {_GS})",
    # no given glyph: a stub named '.notdef', half an em wide, WITHOUT code points, drawn in the flavour's contour direction
    "synthesised": f"implies({_ABSENT} and notdefGlyph is None, {_N}.name == '.notdef' and len({_N}.unicodes) == 0 and {_N}.width == otRound({_upm('unitsPerEm')} * 0.5)"
    f" and {_N}.unitsPerEm == {_upm('unitsPerEm')} and {_N}.ascender == {_upm('ascender')} and {_N}.descender == {_upm('descender')}"
    f" and {_N}.reverseContour == (sfntVersion == {_TT}))",
    # a given glyph: a COPY of it (same name, same code points), contours reversed for TrueType
    "copied": f"implies({_ABSENT} and notdefGlyph is not None, {_N} != notdefGlyph and {_N}.name == notdefGlyph.name and {_N}.unicodes == notdefGlyph.unicodes"
    f" and {_N}.drawn_from == notdefGlyph and {_N}.drawn_reversed == (sfntVersion == {_TT}))",
}

_MMRG = contract(
    "ufo2ft.outlineCompiler:BaseOutlineCompiler.makeMissingRequiredGlyphs",
    props=["C03"],
    params={"self": Ref("NotdefCompiler"), "font": Ref("Font"), "glyphSet": Ref("NotdefGlyphSet"), "sfntVersion": STR, "notdefGlyph": Opt(Ref("StubGlyph"))},
    globals=_G,
    requires=[_ALL_ALLOC],
    calls={"ufo2ft.util:_copyGlyph": "ufo2ft.util:_copyGlyph#c03"},
    modifies=["glyphSet.glyphs"],  # frame (checked): the dict is the only pre-existing thing written; glyph objects are only created
    ensures=_MMRG_ENSURES,
    canaries={"always-synthesised": f"{_N}.name == '.notdef' and len({_N}.unicodes) == 0"},
)


def _mmrg_cases(rng, n):
    out = []
    for k in range(n):
        names = rng.sample([".notdef", "a", "b", "space"], rng.randint(0, 4))
        out.append({"names": names, "given": k % 3 == 0, "given_unicodes": rng.choice([[], [0x41]]), "tt": bool(k % 2), "ufolib": ["ufoLib2", "defcon"][(k // 2) % 2],
                    "info": rng.choice([{}, {"unitsPerEm": 2048, "ascender": 1500.5, "descender": -500}, {"unitsPerEm": 999}]), "vfdefault": k % 5 != 4})
    return out


def _mmrg_build(flavor):
    def build(d):
        from ufo2ft.outlineCompiler import OutlineOTFCompiler, OutlineTTFCompiler

        from . import rtlib

        glyphs = {nm: {"width": 300, "contours": [[(0, 0, "line"), (100, 0, "line"), (50, 80, "line")]]} for nm in d["names"]}
        if flavor == "ttf" and "a" in glyphs:
            glyphs["a"]["components"] = [["missing", [1, 0, 0, 1, 0, 0]]]
        f = rtlib.build_ufo({"glyphs": glyphs, "info": d["info"]}, d["ufolib"])
        given = None
        if d["given"]:
            f2 = rtlib.build_ufo({"glyphs": {"nd": {"width": 444, "unicodes": d["given_unicodes"], "contours": [[(0, 0, "line"), (10, 0, "line"), (5, 8, "line")]]}}}, d["ufolib"])
            _KEEP.append(f2)
            given = f2["nd"]
        _KEEP.append(f)
        del _KEEP[:-60]
        _SRC[0] = given
        klass = OutlineTTFCompiler if flavor == "ttf" else OutlineOTFCompiler
        comp = klass.__new__(klass)
        comp.ufo = f
        comp.compilingVFDefaultSource = d["vfdefault"]
        return {"self": comp, "font": f, "glyphSet": {g.name: g for g in f}, "sfntVersion": "\x00\x01\x00\x00" if d["tt"] else "OTTO", "notdefGlyph": given}

    return build


_MMRG.runtime = Runtime(_mmrg_cases, _mmrg_build("otf"), call=lambda fn, a: fn(a["self"], a["font"], a["glyphSet"], a["sfntVersion"], a["notdefGlyph"]))


# ---- OutlineTTFCompiler.makeMissingRequiredGlyphs: the base method, then (sparse non-default masters only) empty stand-ins for
# missing component bases.  What C03 needs from it: '.notdef' as in the base method; nothing that was there is touched; anything else
# that is added is an EMPTY glyph named like its key — no code points, so the character map cannot see it.
def _glyphFactory_method(ex, st, self, args, kwargs, node):
    """self.glyphFactory() == _getNewGlyphFactory(<new glyph object of the default layer>): the same kind of factory (trusted summary)"""
    return ex.new_object(st, "C03_GlyphFactory")


CLASSES["NotdefCompiler"].repo = "ufo2ft.outlineCompiler:OutlineTTFCompiler"  # (the base contract's body calls no method of self)
CLASSES["NotdefCompiler"].methods["glyphFactory"] = _glyphFactory_method
CLASSES["StubGlyph"].fields.setdefault("height", REAL)

_TT_KEPT = f"all(g in {_GS} and glyphSet.ident[g] == g1[g] and glyphSet.uni[g] == u1[g] and glyphSet.gname[g] == n1[g] for g in g1)"
_TT_ADDED = f"all(g in g1 or (glyphSet.gname[g] == g and len(glyphSet.uni[g]) == 0) for g in {_GS})"
_TT_INV = {"exist": _ALL_ALLOC, "kept": _TT_KEPT, "added-are-empty": _TT_ADDED}

_MMRG_TT = contract(
    "ufo2ft.outlineCompiler:OutlineTTFCompiler.makeMissingRequiredGlyphs",
    props=["C03"],
    params={"self": Ref("NotdefCompiler"), "font": Ref("Font"), "glyphSet": Ref("NotdefGlyphSet"), "sfntVersion": STR, "notdefGlyph": Opt(Ref("StubGlyph"))},
    globals=_G,
    requires=[_ALL_ALLOC],
    # (the stand-ins are NEW objects, but they are written inside loops, whose havoc is per field array: listed for the frame check;
    #  what happens to the glyphs that were there is stated by the ensures)
    modifies=["NotdefGlyphSet.glyphs"] + [f"StubGlyph.{f}" for f in ("name", "unicodes", "width", "height", "drawn_from")],
    ensures={
        **{k: _MMRG_ENSURES[k] for k in ("notdef-present", "glyph-objects-exist", "glyphs-keep-name-and-code-points", "others-untouched")},
        "only-notdef-added": f"implies(self.compilingVFDefaultSource, {_MMRG_ENSURES['only-notdef-added']})",
        "stand-ins-are-empty": f"all(g == '.notdef' or g in old({_GS}) or (glyphSet.gname[g] == g and len(glyphSet.uni[g]) == 0) for g in {_GS})",
        "synthesised-notdef": f"implies({_ABSENT} and notdefGlyph is None, glyphSet.gname['.notdef'] == '.notdef' and len(glyphSet.uni['.notdef']) == 0)",
        "copied-notdef": f"implies({_ABSENT} and notdefGlyph is not None, glyphSet.gname['.notdef'] == old(notdefGlyph.name) and glyphSet.uni['.notdef'] == old(notdefGlyph.unicodes))",
    },
    canaries={"never-adds-stand-ins": _MMRG_ENSURES["only-notdef-added"]},
    merge_branches=False,  # default source / sparse master: two post-states instead of one with ite-merged heap arrays
    # ghosts: the glyph set as the base method leaves it (objects, code points, names)
    ghost_vars={"g1": (Dict(STR, Ref("StubGlyph")), "glyphSet.glyphs"), "u1": (Map(STR, List(INT)), "glyphSet.uni"), "n1": (Map(STR, STR), "glyphSet.gname")},
    ghost={"super().makeMissingRequiredGlyphs(font, glyphSet, sfntVersion, notdefGlyph)": ["g1 = glyphSet.glyphs", "u1 = glyphSet.uni", "n1 = glyphSet.gname"]},
    loops={
        "for glyphName in list(glyphSet.keys())": Loop(index="i", seq="KS", invariants=dict(_TT_INV)),
        "for comp in glyph.components": Loop(index="j", invariants=dict(_TT_INV)),
    },
)
_MMRG_TT.runtime = Runtime(_mmrg_cases, _mmrg_build("ttf"), call=lambda fn, a: fn(a["self"], a["font"], a["glyphSet"], a["sfntVersion"], a["notdefGlyph"]))


# =====================================================================================================
# The compiler's own glyph set: BaseOutlineCompiler.makeOfficialGlyphOrder / makeUnicodeToGlyphNameMapping are one-line wrappers
# that apply the two util functions to `self.allGlyphs` (the glyph set AFTER makeMissingRequiredGlyphs) and `self.glyphOrder`.
# The util functions are verified once more for that receiver class (same contract texts), the wrappers against them.
CLASSES["NotdefCompiler"].fields.update({"allGlyphs": Ref("NotdefGlyphSet"), "glyphOrder": List(STR)})

contract(
    "ufo2ft.util:makeOfficialGlyphOrder",
    name="compiler-set",
    props=["C03"],
    params={"font": Ref("NotdefGlyphSet"), "glyphOrder": Opt(List(STR))},
    returns=List(STR),
    requires=["glyphOrder is not None"],
    ensures={"order": "result == official_order(font.keyset, glyphOrder)", **_EACH_ONCE},
    canaries={"shifted": "result == official_order(font.keyset, glyphOrder) + ['x']"},
    loops=_ORDER_LOOP,
    locals={"order": List(STR), "names": Set(STR)},
    sorted_axioms=True,
    runtime=Runtime(_order_cases, lambda d: {"font": {n: None for n in d["names"]}, "glyphOrder": list(d["order"])}),
)
_umap_contract("compiler-set", "NotdefGlyphSet", _no_uni_view).runtime = Runtime(_umap_cases, _umap_build)

_AGS = "self.allGlyphs"
contract(
    "ufo2ft.outlineCompiler:BaseOutlineCompiler.makeOfficialGlyphOrder",
    props=["C03"],
    params={"self": Ref("NotdefCompiler"), "glyphOrder": List(STR)},
    returns=List(STR),
    calls={"ufo2ft.util:makeOfficialGlyphOrder": "ufo2ft.util:makeOfficialGlyphOrder#compiler-set"},
    modifies=[],
    ensures={
        "order": f"result == official_order({_AGS}.keyset, glyphOrder)",
        "no-name-twice": "distinct(result)",
        "only-glyph-names": f"all(result[k] in {_AGS}.keyset for k in range(len(result)))",
        "every-glyph-name": f"all(x in result for x in {_AGS}.keyset)",
    },
    canaries={"empty": "len(result) == 0"},
)
def _nuv_self(d):
    return {k: _no_uni_view(v, "self.allGlyphs") for k, v in d.items()}


contract(
    "ufo2ft.outlineCompiler:BaseOutlineCompiler.makeUnicodeToGlyphNameMapping",
    props=["C03"],
    params={"self": Ref("NotdefCompiler")},
    returns=Dict(INT, STR),
    calls={"ufo2ft.util:makeUnicodeToGlyphNameMapping": "ufo2ft.util:makeUnicodeToGlyphNameMapping#compiler-set"},
    modifies=[],
    # the glyph order is the one makeOfficialGlyphOrder made from this very glyph set (only-glyph-names above)
    requires=[f"all(n in {_AGS}.keyset for n in self.glyphOrder)"],
    ensures=_nuv_self({
        "maps": f"all(all(u in result and result[u] == self.glyphOrder[i] for u in {_AGS}.uni[self.glyphOrder[i]]) for i in range(len(self.glyphOrder)))",
        "only": f"all(any(any({_AGS}.uni[self.glyphOrder[i]][j] == u for j in range(len({_AGS}.uni[self.glyphOrder[i]]))) for i in range(len(self.glyphOrder))) for u in result)",
    }),
    raises=_nuv_self({
        "InvalidFontData": f"any(any(any(any((a != i or b != j) and {_AGS}.uni[self.glyphOrder[a]][b] == {_AGS}.uni[self.glyphOrder[i]][j]"
        f" for b in range(len({_AGS}.uni[self.glyphOrder[a]]))) for a in range(len(self.glyphOrder)))"
        f" for j in range(len({_AGS}.uni[self.glyphOrder[i]]))) for i in range(len(self.glyphOrder)))",
    }),
    canaries={"empty": "len(result) == 0"},
)


def _wrap_cases(rng, n):
    out = []
    for k in range(n):
        names = rng.sample([".notdef", "a", "b", "c"], rng.randint(0, 4))
        uni = {nm: [rng.choice([65, 66, 67, 0x1F600]) for _ in range(rng.randint(0, 2))] for nm in names}
        order = rng.sample(names + ["zz"], rng.randint(0, len(names)))
        out.append({"unicodes": uni, "order": order})
    return out


def _wrap_build(with_order):
    def build(d):
        import ufoLib2

        from ufo2ft.outlineCompiler import OutlineOTFCompiler

        f = ufoLib2.Font()
        for nm, us in d["unicodes"].items():
            f.newGlyph(nm).unicodes = list(us)
        comp = OutlineOTFCompiler.__new__(OutlineOTFCompiler)
        comp.ufo = f
        comp.allGlyphs = {g.name: g for g in f}
        _KEEP.append(f)
        del _KEEP[:-60]
        if with_order:
            return {"self": comp, "glyphOrder": list(d["order"])}
        from ufo2ft.util import makeOfficialGlyphOrder

        comp.glyphOrder = makeOfficialGlyphOrder(comp.allGlyphs, list(d["order"]))
        return {"self": comp}

    return build


CONTRACTS["ufo2ft.outlineCompiler:BaseOutlineCompiler.makeOfficialGlyphOrder"].runtime = Runtime(_wrap_cases, _wrap_build(True), call=lambda fn, a: fn(a["self"], a["glyphOrder"]))
CONTRACTS["ufo2ft.outlineCompiler:BaseOutlineCompiler.makeUnicodeToGlyphNameMapping"].runtime = Runtime(_wrap_cases, _wrap_build(False), call=lambda fn, a: fn(a["self"]))


# =====================================================================================================
# BaseOutlineCompiler.__init__ as a COMPOSITION (TrueType receiver: the override of makeMissingRequiredGlyphs is the general case; the OTF
# receiver runs the base method, whose contract says strictly more).  The glyph set is given (the pre-processor's), the glyph order is given.
#   glyph set  -> makeMissingRequiredGlyphs -> self.allGlyphs
#   glyph order = makeOfficialGlyphOrder(self.allGlyphs, glyphOrder)          ('.notdef' first, listed, rest sorted; each glyph once)
#   character map source = makeUnicodeToGlyphNameMapping(self.allGlyphs, self.glyphOrder)
# and InvalidFontData is raised IFF two (glyph, position) entries of the FINAL glyph set declare the same code point — stated over the
# PRE-state: the given glyphs' own code points, plus the code points a given notdefGlyph brings in when '.notdef' is absent
# (a synthesised '.notdef' and the stand-ins of sparse masters declare none).
CLASSES["NotdefCompiler"].dynamic = True
CLASSES["NotdefCompiler"].fields.update({"ufo": Ref("Font"), "unicodeToGlyphNameMapping": Dict(INT, STR)})

_OG = "old(glyphSet.glyphs)"
_OU = "old(glyphSet.uni)"
_NDU = "old(notdefGlyph.unicodes)"
# the FINAL glyph set in pre-state terms (default source): the given names plus '.notdef'; a given glyph keeps its code points, a '.notdef'
# that has to be made declares those of the given notdefGlyph (copy) or none (stub)
_CASES = {
    # case -> (extra requires, final key set in pre-state terms, code points of name n in pre-state terms)
    "has-notdef": (["'.notdef' in glyphSet"], "old(glyphSet.keyset)", lambda n: f"old(glyphSet.glyphs[{n}].unicodes)"),
    "stub-notdef": (["'.notdef' not in glyphSet", "notdefGlyph is None"], "(old(glyphSet.keyset) | {'.notdef'})",
                    lambda n: f"(old(glyphSet.glyphs[{n}].unicodes) if {n} in {_OG} else [])"),
    "copied-notdef": (["'.notdef' not in glyphSet", "notdefGlyph is not None"], "(old(glyphSet.keyset) | {'.notdef'})",
                      lambda n: f"(old(glyphSet.glyphs[{n}].unicodes) if {n} in {_OG} else {_NDU})"),
}


def _dup(order, uni):
    """clause text: two different (position in the glyph order, index) entries carry the same code point"""
    return (f"any(any(any(any((a != i or b != j) and {uni(f'{order}[a]')}[b] == {uni(f'{order}[i]')}[j] for b in range(len({uni(f'{order}[a]')}))) for a in range(len({order})))"
            f" for j in range(len({uni(f'{order}[i]')}))) for i in range(len({order})))")


_SAG = "self.allGlyphs"
_INIT_READY = True


@specfn(List(STR), keys=Set(STR), O=List(STR))
def order_term(keys, O):
    """official_order(keys, O) as ONE term.  (The dummy self-call makes the engine keep an uninterpreted symbol with its defining equation
    instead of inlining the concatenation: indexing the inlined `a + b + c` expands into a case split per part, and `O[i] == (a + b + c)[i]`
    was then out of reach although `O == a + b + c` is a hypothesis; with one term it is congruence.)"""
    if len(O) < 0:
        return order_term(keys, O)
    return official_order(keys, O)


from .spec import official_order  # noqa: E402,F401  (natively used by order_term)


def _strip_old(txt):
    """`old(e)` -> `(e)`: a `raises` condition is evaluated in the pre-state anyway (and natively has no old())"""
    out, k = "", 0
    while True:
        p = txt.find("old(", k)
        if p < 0:
            return out + txt[k:]
        out += txt[k:p] + "("
        depth, q = 1, p + 4
        while depth:
            depth += {"(": 1, ")": -1}.get(txt[q], 0)
            q += 1
        out += _strip_old(txt[p + 4:q - 1]) + ")"
        k = q


def _init_contract(case):
  _REQ, _KEYS_PRE, _E = _CASES[case]
  _ORDER_PRE = f"order_term({_KEYS_PRE}, glyphOrder)"
  return contract(
    "ufo2ft.outlineCompiler:BaseOutlineCompiler.__init__",
    name="composition-" + case,
    # The `raises` iff needs the two implications "rejection condition of the mapping function, read after '.notdef' synthesis  <=>  the
    # pre-state condition of this contract": hints at L133 in the engine's `same-witnesses:` form, with canon_binders=True (the three
    # textual copies of each condition become identical terms) and `order_term` (one term for the official order).
    props=["C03"] if _INIT_READY else [],
    params={"self": Ref("NotdefCompiler"), "font": Ref("Font"), "glyphSet": Opt(Ref("NotdefGlyphSet")), "glyphOrder": Opt(List(STR)), "tables": Const(None),
            "notdefGlyph": Opt(Ref("StubGlyph")), "ftConfig": Const(None), "compilingVFDefaultSource": Const(True)},
    globals=_G,
    requires=["glyphSet is not None", "glyphOrder is not None", _ALL_ALLOC] + _REQ,
    modifies=["NotdefGlyphSet.glyphs"] + [f"StubGlyph.{f}" for f in ("name", "unicodes", "width", "height", "drawn_from")]
    + [f"self.{f}" for f in ("ufo", "compilingVFDefaultSource", "allGlyphs", "glyphOrder", "unicodeToGlyphNameMapping", "colrLayerReuse", "colrAutoClipBoxes")],
    ensures={
        "glyph-set": f"{_SAG} == glyphSet and {_SAG}.keyset == {_KEYS_PRE}",
        "given-glyphs-kept": f"all({_SAG}.ident[g] == old(glyphSet.ident)[g] for g in {_OG})",
        # (n is a bound variable: inside old(..) it keeps its post-state value, only the heap is the pre-state's)
        "code-points": f"all({_SAG}.glyphs[n].unicodes == {_E('n')} for n in {_SAG}.glyphs)",
        # '.notdef' first, the listed existing names, the rest sorted — of the final glyph set
        "order": f"self.glyphOrder == official_order({_KEYS_PRE}, glyphOrder)",
        "no-name-twice": "distinct(self.glyphOrder)",
        "only-glyph-names": f"all(self.glyphOrder[k] in {_KEYS_PRE} for k in range(len(self.glyphOrder)))",
        "every-glyph-name": f"all(x in self.glyphOrder for x in {_KEYS_PRE})",
        # the character-map source: every code point of every glyph of the order maps to that glyph, nothing else is mapped
        "maps": f"all(all(all(u in self.unicodeToGlyphNameMapping and self.unicodeToGlyphNameMapping[u] == n for u in {_E('n')}) for n in [self.glyphOrder[i]]) for i in range(len(self.glyphOrder)))",
        "only": f"all(any(any(any({_E('n')}[j] == u for j in range(len({_E('n')}))) for n in [self.glyphOrder[i]]) for i in range(len(self.glyphOrder))) for u in self.unicodeToGlyphNameMapping)",
    },
    # rejected exactly when two different (glyph of the final order, index) entries declare the same code point — the final order lists
    # every glyph exactly once (each-glyph-once), so: when two glyphs (or one glyph twice) declare the same code point
    raises={"InvalidFontData": _strip_old(_dup(_ORDER_PRE, _E))},
    canaries={"empty-map": "len(self.unicodeToGlyphNameMapping) == 0"},
    canon_binders=True,  # the same clause evaluated twice (callee's raises / hint / this contract's raises) is the identical term
    hints={"self.allGlyphs = glyphSet": [
        f"glyphSet.keyset == {_KEYS_PRE}",
        f"all(glyphSet.glyphs[n].unicodes == {_E('n')} for n in glyphSet.glyphs)",
    ], "self.glyphOrder = self.makeOfficialGlyphOrder(glyphOrder)": [
        # position-wise: the code points the mapping function will read are the pre-state entries
        f"all(all({_SAG}.glyphs[n].unicodes == {_E('n')} for n in [self.glyphOrder[i]]) for i in range(len(self.glyphOrder)))",
        f"self.glyphOrder == {_ORDER_PRE}",
        f"all(self.glyphOrder[i] == {_ORDER_PRE}[i] for i in range(len(self.glyphOrder)))",
        f"all(all({_SAG}.glyphs[self.glyphOrder[i]].unicodes == {_E('n')} for n in [{_ORDER_PRE}[i]]) for i in range(len({_ORDER_PRE})))",
        # the rejection condition of the mapping function, read in the state now, is the pre-state condition of this contract
        # (engine hint form `same-witnesses:` — the existentials of the conclusion are instantiated with the premise's witnesses)
        "same-witnesses: implies(" + _dup("self.glyphOrder", lambda x: f"{_SAG}.glyphs[{x}].unicodes") + ", " + _dup(_ORDER_PRE, _E) + ")",
        "same-witnesses: implies(" + _dup(_ORDER_PRE, _E) + ", " + _dup("self.glyphOrder", lambda x: f"{_SAG}.glyphs[{x}].unicodes") + ")",
    ]},
)


def _init_cases(case):
    def gen(rng, n):
        out = []
        for k in range(3 * n):
            names = rng.sample(["a", "b", "c", "space"], rng.randint(0, 4))
            if case == "has-notdef":
                names.append(".notdef")
            uni = {nm: [rng.choice([65, 66, 67, 0x1F600, 32]) for _ in range(rng.randint(0, 2))] for nm in names}
            if k % 4 == 0:  # mostly duplicate-free: distinct code points
                pool = [65, 66, 67, 68, 69, 0x1F600, 32, 33, 34]
                rng.shuffle(pool)
                uni = {nm: [pool.pop() for _ in range(rng.randint(0, 2))] for nm in names}
            order = rng.sample(names + ["zz"], rng.randint(0, len(names)))
            out.append({"unicodes": uni, "order": order, "given": rng.choice([[], [65], [70, 70], [0x1F600, 71]]) if case == "copied-notdef" else None,
                        "ufolib": ["ufoLib2", "defcon"][k % 2]})
        return out[:n]

    return gen


def _init_build(d):
    from ufo2ft.outlineCompiler import OutlineTTFCompiler

    from . import rtlib

    f = rtlib.build_ufo({"glyphs": {nm: {"width": 300, "unicodes": us} for nm, us in d["unicodes"].items()}}, d["ufolib"])
    given = None
    if d["given"] is not None:
        f2 = rtlib.build_ufo({"glyphs": {".notdef": {"width": 444, "unicodes": d["given"], "contours": [[(0, 0, "line"), (10, 0, "line"), (5, 8, "line")]]}}}, d["ufolib"])
        _KEEP.append(f2)
        given = f2[".notdef"]
    _KEEP.append(f)
    del _KEEP[:-80]
    _SRC[0] = given
    return {"self": OutlineTTFCompiler.__new__(OutlineTTFCompiler), "font": f, "glyphSet": {g.name: g for g in f}, "glyphOrder": list(d["order"]), "notdefGlyph": given}


for _case in _CASES:
    _init_contract(_case).runtime = Runtime(_init_cases(_case), _init_build,
                                            call=lambda fn, a: fn(a["self"], a["font"], glyphSet=a["glyphSet"], glyphOrder=a["glyphOrder"], notdefGlyph=a["notdefGlyph"]))
