"""C03 — glyph order and character map follow the source exactly."""
import z3

from pyvc import ty as T
from pyvc.api import BOOL, INT, STR, Const, Dict, List, Loop, Opt, Ref, Set, Tuple, cls, contract
from pyvc.core import Val

from . import spec  # noqa: F401


def _keys(ex, st, self, args, kwargs, node):
    return ex.read_field(st, self, "keyset")


def _contains(ex, st, self, x):
    return z3.Select(ex.read_field(st, self, "keyset").term, ex_lift(x, STR))


def ex_lift(v, t):
    from pyvc.core import lift

    return lift(v, t)


# a glyph set as the functions of C03 see it: a mapping name -> glyph (dict or Font)
cls(
    "GlyphMap",
    fields={"keyset": Set(STR), "glyphOrder": List(STR)},
    methods={"keys": _keys},
    contains=_contains,
    notes="duck-typed glyph collection: keys(), `in`; font.glyphOrder present (Font objects)",
)
cls(
    "GlyphDict",
    fields={"keyset": Set(STR)},
    methods={"keys": _keys},
    contains=_contains,
    absent=("glyphOrder",),
    notes="plain dict glyph set: no glyphOrder attribute (getattr default is taken)",
)

_ORDER_LOOP = {
    "for name in glyphOrder": Loop(
        index="i",
        invariants={
            "order": "order == notdef_head(font.keyset) + firsts(glyphOrder, without_notdef(font.keyset), i)",
            "names": "names == without_notdef(font.keyset) - elems_upto(glyphOrder, i)",
        },
    )
}

contract(
    "ufo2ft.util:makeOfficialGlyphOrder",
    name="explicit",
    props=["C03", "C13"],
    params={"font": Ref("GlyphMap"), "glyphOrder": Opt(List(STR))},
    returns=List(STR),
    requires=["glyphOrder is not None"],
    ensures={"order": "result == official_order(font.keyset, glyphOrder)"},
    canaries={"shifted": "result == official_order(font.keyset, glyphOrder) + ['x']"},
    loops=_ORDER_LOOP,
    locals={"order": List(STR), "names": Set(STR)},
)

contract(
    "ufo2ft.util:makeOfficialGlyphOrder",
    name="from-font",
    props=["C03"],
    params={"font": Ref("GlyphMap"), "glyphOrder": Const(None)},
    returns=List(STR),
    ensures={"order": "result == official_order(font.keyset, font.glyphOrder)"},
    canaries={"shifted": "result == official_order(font.keyset, font.glyphOrder) + ['x']"},
    loops=_ORDER_LOOP,
    locals={"order": List(STR), "names": Set(STR), "glyphOrder": List(STR)},
)

contract(
    "ufo2ft.util:makeOfficialGlyphOrder",
    name="dict-no-order",
    props=["C03"],
    params={"font": Ref("GlyphDict"), "glyphOrder": Const(None)},
    returns=List(STR),
    ensures={"order": "result == official_order(font.keyset, [])"},
    canaries={"shifted": "len(result) == 0"},
    locals={"order": List(STR), "names": Set(STR)},
)


# ---- run-time side (cross-check, replay) -------------------------------------------------------
import itertools  # noqa: E402

from pyvc.api import CLASSES, CONTRACTS, Runtime  # noqa: E402


class _FakeFont(dict):
    glyphOrder = ()


for _cn in ("GlyphMap", "GlyphDict"):
    CLASSES[_cn].views.update(keyset=lambda o: set(o.keys()), glyphOrder=lambda o: list(o.glyphOrder))


def _order_cases(rng, n):
    names = [".notdef", "a", "b", "c"]
    pool = [".notdef", "a", "b", "z"]
    cases = []
    for k in range(len(names) + 1):
        for sub in itertools.combinations(names, k):
            for ln in range(4):
                for order in itertools.product(pool, repeat=ln):
                    cases.append({"names": list(sub), "order": list(order)})
    rng.shuffle(cases)
    return cases[:n]


def _build_explicit(d):
    f = _FakeFont({n: None for n in d["names"]})
    return {"font": f, "glyphOrder": list(d["order"])}


def _build_fromfont(d):
    f = _FakeFont({n: None for n in d["names"]})
    f.glyphOrder = list(d["order"])
    return {"font": f, "glyphOrder": None}


def _build_dict(d):
    return {"font": {n: None for n in d["names"]}, "glyphOrder": None}


CONTRACTS["ufo2ft.util:makeOfficialGlyphOrder#explicit"].runtime = Runtime(_order_cases, _build_explicit)
CONTRACTS["ufo2ft.util:makeOfficialGlyphOrder#from-font"].runtime = Runtime(_order_cases, _build_fromfont)
CONTRACTS["ufo2ft.util:makeOfficialGlyphOrder#dict-no-order"].runtime = Runtime(_order_cases, _build_dict)
