"""C19, round 3 — Instantiator.generate_instance as a composition of its (proved) callees.

Half A, "the instance before the rule swaps" (contract `generate_instance#no-rules`: a designspace without rules, so that process_rules_swaps yields
nothing — proved from its contract — and the swap loop does not run):
  * the instance font has exactly the default source's glyph names
  * every glyph: geometry == (rounded iff round_geometry) master content at a master location / model blend elsewhere, of the glyph model that
    `variator_ok` pins to the CURRENT source layers (history independence through the cache invariant); unicodes from the default source
  * kerning / kerning groups from the kerning model's instance (rounded in place iff round_geometry), info by _generate_instance_info's contract,
    non-kerning groups copied (new lists), features copied, lib = deep copy of the default lib + skipExportGlyphs + design location
  * the Instantiator is not written except for its glyph-model cache, which still satisfies its invariant; no existing fontMath object changes
Half B, "the swaps on an instance": contracts/c19c.py (swap_glyph_names == one conjugation) + the fold lemmas `C19.lemma.swap-fold.*` below
(a list of swaps applied in order == one permutation of names / one map of component bases, built by recursion on the list).
The glue that is still missing between the halves is named in notes/C19.md.
"""
import z3

from pyvc import ty as T
from pyvc.api import BOOL, CLASSES, CONTRACTS, INT, REAL, STR, Const, Dict, List, Loop, Map, Opaque, Opt, Ref, Runtime, Set, Tuple, TRUSTED, cls, contract, lemma, specfn, trusted
from pyvc.core import PYOBJ, Unsupported, Val, fresh, fresh_name, lift

from . import c19, c19b, c19d
from .c19 import KEY, MDATA, PAIR, api_specfn
from .c19b import LOCDICT, _VOK, cache_ok

LIBVAL = Opaque("LibValue")


# ---- the instance font ----------------------------------------------------------------------------------------------------------------
def _font_new_glyph(ex, st, self, args, kwargs, node):
    """font.newGlyph(name): a new empty glyph of that name, appended to the default layer (assumed ufoLib2 / defcon API; the name is new here)"""
    (name,) = args
    g = ex.new_object(st, "OutGlyph")
    ex.write_field(st, g, "name", name, node)
    ex.write_field(st, g, "unicodes", Val(List(INT), z3.Empty(List(INT).sort())), node)
    d = ex.read_field(st, self, "glyphs")
    from pyvc import models

    ex.safety(st, z3.Not(z3.Select(d.ty.sort().dom(lift(d)), lift(name, STR))), "KeyError", node)  # newGlyph on an existing name would replace it
    ex.write_field(st, self, "glyphs", models.set_item(ex, st, d, name, g, node), node)
    return g


_font_new_glyph.modifies = ["InfoFont.glyphs"]


def _lib_setitem(ex, st, self, idx, v, node):
    if not (idx.is_py and isinstance(idx.py, str)):
        raise Unsupported("font.lib[<computed key>] = ..", node)
    f = {"public.skipExportGlyphs": "skip_export", "designspace.location": "location"}.get(idx.py)
    if f is None:
        raise Unsupported(f"font.lib[{idx.py!r}] = ..", node)
    ex.write_field(st, self, f, v, node)


cls(
    "LibObj",
    fields={"other": Dict(STR, LIBVAL), "skip_export": Opt(List(STR)), "location": Opt(List(PAIR))},
    setitem=_lib_setitem,
    views={
        "other": lambda d: {k: repr(v) for k, v in d.items() if k not in ("public.skipExportGlyphs", "designspace.location")},
        "skip_export": lambda d: (list(d["public.skipExportGlyphs"]) if "public.skipExportGlyphs" in d else None),
        "location": lambda d: ([tuple(p) for p in d["designspace.location"]] if "designspace.location" in d else None),
    },
    notes="a lib dict: the two keys generate_instance assigns as typed fields, everything else as key -> abstract value (`other`)",
)
cls("FeaturesObj", fields={"text": STR}, notes="font.features: text")
CLASSES["InfoFont"].fields.update({
    "glyphs": Dict(STR, Ref("OutGlyph")), "kerning": MDATA, "groups": Dict(STR, List(STR)), "lib": Ref("LibObj"), "features": Ref("FeaturesObj"),
})
CLASSES["InfoFont"].methods["newGlyph"] = _font_new_glyph
CLASSES["InfoFont"].views.update({
    "glyphs": lambda f: {g.name: c19._px(g, "OutGlyph") for g in f},
    # (same shape as c19.math_snapshot of a MathKerning: the pairs and the KERNING groups (fontMath keeps only those) -- extractKerning writes both into the font)
    "kerning": lambda f: ("kerning", tuple(sorted(f.kerning.items())), tuple(sorted((k, tuple(v)) for k, v in f.groups.items() if k.startswith(("public.kern1.", "public.kern2."))))),
    "groups": lambda f: {k: list(v) for k, v in f.groups.items()},
})


def _ufo_font(ex, st, self, args, kwargs, node):
    """ufo_module.Font(): a new empty font (no glyphs, no kerning, no groups, empty lib, all info attributes None)"""
    f = ex.new_object(st, "InfoFont")
    info = ex.new_object(st, "UfoInfo")
    for a, t in CLASSES["UfoInfo"].fields.items():
        if isinstance(t, T.Opt):
            ex.write_field(st, info, a, Val(t, t.sort().nil), node)
    ex.write_field(st, f, "info", info, node)
    gt = Dict(STR, Ref("OutGlyph"))
    ex.write_field(st, f, "glyphs", Val(gt, gt.sort().mk(z3.K(z3.StringSort(), z3.BoolVal(False)), fresh(Map(STR, Ref("OutGlyph")), "nog"), z3.Empty(List(STR).sort()))), node)
    grt = Dict(STR, List(STR))
    ex.write_field(st, f, "groups", Val(grt, grt.sort().mk(z3.K(z3.StringSort(), z3.BoolVal(False)), fresh(Map(STR, List(STR)), "nogr"), z3.Empty(List(STR).sort()))), node)
    lib = ex.new_object(st, "LibObj")
    ex.write_field(st, f, "lib", lib, node)
    ex.write_field(st, f, "features", ex.new_object(st, "FeaturesObj"), node)
    return f


cls("UfoModule", methods={"Font": _ufo_font}, notes="the ufoLib2 / defcon module as returned by util.importUfoModule(): Font() makes a new empty font (assumed)")
trusted("c19.importUfoModule", "util.importUfoModule(): the ufoLib2 module (or defcon)")(lambda ex, st, args, kwargs, node: ex.new_object(st, "UfoModule"))
trusted("c19.typing_cast", "typing.cast(T, x) is x")(lambda ex, st, args, kwargs, node: args[1])


class _TypingNS:
    @staticmethod
    def cast(t, x):
        return x


_TypingNS.cast.__module__ = "c19"
_TypingNS.cast.__qualname__ = "typing_cast"

# deepcopy of a lib: a new lib object with equal content
_dc_prev = TRUSTED["copy.deepcopy"].model


def _deepcopy_lib(ex, st, args, kwargs, node):
    (x,) = args
    if isinstance(x.ty, T.Ref) and x.ty.cls == "LibObj":
        r = ex.new_object(st, "LibObj")
        for f in ("other", "skip_export", "location"):
            ex.write_field(st, r, f, ex.read_field(st, x, f), node)
        return r
    return _dc_prev(ex, st, args, kwargs, node)


TRUSTED["copy.deepcopy"].model = _deepcopy_lib


# ---- kerning: MathKerning.extractKerning --------------------------------------------------------------------------------------------
@specfn(Dict(STR, List(STR)), opaque=True, data=MDATA)
def kerning_groups_of(data):
    """the kerning groups a MathKerning with this content writes into font.groups (extractKerning)"""
    return {k: list(v) for k, v in data[2]}


def _mo_extract_kerning(ex, st, self, args, kwargs, node):
    """MathKerning.extractKerning(font): font.kerning becomes the MathKerning's pairs, font.groups its groups (new lists)"""
    (font,) = args
    kind = z3.Select(ex.field_array(st, "MathObj", "kind"), lift(self))
    ex.safety(st, kind == c19.KIND_KERNING, "AttributeError", node)
    data = ex.read_field(st, self, "data")
    ex.write_field(st, font, "kerning", data, node)
    f = ex.spec_decl(api_specfn("kerning_groups_of"))
    ex.write_field(st, font, "groups", Val(Dict(STR, List(STR)), f(lift(data))), node)
    return Val.const(None)


_mo_extract_kerning.modifies = ["InfoFont.kerning", "InfoFont.groups"]
CLASSES["MathObj"].methods["extractKerning"] = _mo_extract_kerning


# ---- the Instantiator: the remaining fields, normalize, glyph_names -------------------------------------------------------------------
CLASSES["InstanceDesc"].fields["location"] = LOCDICT
CLASSES["Instantiator"].fields.update({
    "kerning_mutator": Opt(Ref("Variator")), "copy_nonkerning_groups": Dict(STR, List(STR)), "copy_feature_text": STR, "copy_lib": Ref("LibObj"),
    "skip_export_glyphs": List(STR), "designspace_rules": List(c19.RULE), "default_design_location": LOCDICT,
})


@specfn(KEY, opaque=True, d=LOCDICT)
def dict_pairs(d):
    """items() of a location dict, as a list of (axis, value) pairs"""
    return list(d.items())


def _dict_pairs_term(ex, d):
    return ex.spec_decl(api_specfn("dict_pairs"))(lift(d, LOCDICT))


_nl0 = TRUSTED["fontTools.varLib.models.normalizeLocation"].model


def _normalize_location_dict(ex, st, args, kwargs, node):
    """normalizeLocation(location, axes) with the location given as a plain dict: the same function (norm_pairs) of its items (library model, c19.py)"""
    loc, bounds = args
    if isinstance(loc.ty, T.Ref):
        return _nl0(ex, st, args, kwargs, node)
    if kwargs:
        raise Unsupported("normalizeLocation keyword arguments", node)
    r = ex.new_object(st, "Location")
    f = ex.spec_decl(api_specfn("norm_pairs"))
    ex.write_field(st, r, "pairs", Val(KEY, f(_dict_pairs_term(ex, loc), lift(bounds, c19.BOUNDS))), node)
    return r


TRUSTED["fontTools.varLib.models.normalizeLocation"].model = _normalize_location_dict

# Instantiator.normalize under contract (it was a method model until the end of round 3).  Its callers get a NEW Location described by the
# ensures -- the heap array Location.pairs, an argument of the cache invariant, stays the same term at the call site.
contract(
    "ufo2ft.instantiator:Instantiator.normalize",
    props=["C19"],
    params={"self": Ref("Instantiator"), "location": LOCDICT},
    returns=Ref("Location"),
    ensures={"normalized": "result.pairs == norm_pairs(dict_pairs(location), self.axis_bounds)", "new-object": "fresh(result)"},
    canaries={"identity": "result.pairs == dict_pairs(location)"},
)


def _inst_glyph_names(ex, st, self):
    """Instantiator.glyph_names = self.default_source_glyphs.keys() (one-line property): the keys of the default layer, in the dict's order.
    Modelled as the LIST of keys (iteration order and membership are all the callers use)."""
    from pyvc import models

    d = ex.read_field(st, c19b._inst_default_glyphs(ex, st, self), "glyphs")
    return models.BUILTIN_MODELS["builtins.list"].model(ex, st, [d], {}, None)  # (list(d): the engine adds what it knows of a dict's key list)


CLASSES["Instantiator"].derived["glyph_names"] = _inst_glyph_names
CLASSES["Instantiator"].derived["default_names"] = _inst_glyph_names
CLASSES["Instantiator"].views["default_names"] = lambda o: list(o.glyph_names)


# ---- callees in the vocabulary generate_instance uses them with ---------------------------------------------------------------------------
contract(
    "ufo2ft.instantiator:anisotropic",
    props=["C19"],
    params={"location": LOCDICT},
    returns=BOOL,
    ensures={"plain-numbers-are-isotropic": "result == False"},  # a location of plain numbers has no (x, y) tuple among its values
    canaries={"always-anisotropic": "result"},
)

_prs = CONTRACTS["ufo2ft.instantiator:process_rules_swaps"]


@trusted("c19.evaluateRule_dict", "evaluateRule(rule, location) is a function of the rule and of the location's items (no side effects); location given as a dict")
def _evaluate_rule_dict(ex, st, args, kwargs, node):
    rule, loc = args
    f = ex.spec_decl(api_specfn("rule_true"))
    pairs = ex.read_field(st, loc, "pairs") if isinstance(loc.ty, T.Ref) else Val(KEY, _dict_pairs_term(ex, loc))
    return Val(BOOL, f(lift(rule, c19.RULE), lift(pairs)))




# process_rules_swaps once more with the location as the dict generate_instance builds (same body, same clauses over dict_pairs(location))
contract(
    "ufo2ft.instantiator:process_rules_swaps",
    name="dict",
    portfolio=["z3-4.8"],  # inv.step.present: the z3 5.1 configurations give up (3 s each), z3 4.8 proves it in 1-2 s
    props=["C19"],
    params={"rules": List(c19.RULE), "location": LOCDICT, "glyphNames": List(STR)},
    returns=List(c19.SUB),
    models={"fontTools.designspaceLib.evaluateRule": _evaluate_rule_dict},
    ghost_vars={"GS": (Set(STR), "set(glyphNames)")},
    ensures={
        "rule-order": "result == swaps_upto(rules, dict_pairs(location), set(glyphNames), len(rules))",
        "only-present-glyphs": "all(s[0] in set(glyphNames) for s in result)",
    },
    canaries={"empty": "len(result) == 0"},
    hints={"swaps.append((oldName, newName))": ["oldName in GS"]},
    locals={"swaps": List(c19.SUB)},
    loops={
        "for rule in rules": Loop(index="i", invariants={
            "prefix": "swaps == swaps_upto(rules, dict_pairs(location), GS, i)",
            "present": "all(swaps[k][0] in GS for k in range(len(swaps)))",
        }),
        "for (oldName, newName) in rule.subs": Loop(index="j", invariants={
            "prefix": "swaps == swaps_upto(rules, dict_pairs(location), GS, i) + subs_picked(rule.subs, GS, j)",
            "present": "all(swaps[k][0] in GS for k in range(len(swaps)))",
        }),
    },
)


# =====================================================================================================
# generate_glyph_instance WITHOUT an output glyph: a new glyph object from the default source's glyph class (glyph_factory / new_glyph)
# =====================================================================================================
from pyvc import models as _models

# ---- Layer: len() and .values() (the default layer is asked for "any glyph" when a new glyph object is needed) -----------------------
def _layer_values(ex, st, self, args, kwargs, node):
    return _models.value_method(ex, st, ex.read_field(st, self, "glyphs"), "values", [], {}, node)

CLASSES["Layer"].methods["values"] = _layer_values
CLASSES["Layer"].length = lambda ex, st, v: Val(INT, z3.Length(Dict(STR, Ref("SrcGlyph")).sort().keys(lift(ex.read_field(st, v, "glyphs")))))

def _out_factory_call(ex, st, self, args, kwargs, node):
    """factory(name=..): a NEW empty glyph object carrying that name (no unicodes yet)"""
    if args or set(kwargs) != {"name"}:
        raise Unsupported("glyph factory arguments", node)
    g = ex.new_object(st, "OutGlyph")
    ex.write_field(st, g, "name", kwargs["name"], node)
    ex.write_field(st, g, "unicodes", Val(List(INT), z3.Empty(List(INT).sort())), node)
    return g

_out_factory_call.modifies = []
cls("OutFactory", methods={"__call__": _out_factory_call}, notes="closure returned by util._getNewGlyphFactory(glyph): factory(name=..) makes a new EMPTY glyph of that name")
trusted("c19.getNewGlyphFactoryOut", "util._getNewGlyphFactory(glyph): a factory of new empty glyphs of the same class (assumed; the argument is only inspected for its class)")(
    lambda ex, st, args, kwargs, node: ex.new_object(st, "OutFactory"))

contract(
    "ufo2ft.instantiator:Instantiator.glyph_factory",
    props=["C19"],
    params={"self": Ref("Instantiator")},
    returns=Ref("OutFactory"),
    requires=[c19b._GGI_REQUIRES[0]],
    raises={"InstantiatorError": "len(self.default_source_glyphs) == 0"},  # a default source without glyphs has no glyph object to take the class from
    ensures={"a-factory": "allocated(result)"},
    canaries={"never": "False"},
    globals={"_getNewGlyphFactory": c19b._ref("c19.getNewGlyphFactoryOut")},
)
contract(
    "ufo2ft.instantiator:Instantiator.new_glyph",
    props=["C19"],
    params={"self": Ref("Instantiator"), "name": STR},
    returns=Ref("OutGlyph"),
    requires=[c19b._GGI_REQUIRES[0]],
    raises={"InstantiatorError": "len(self.default_source_glyphs) == 0"},
    ensures={"new-empty-glyph": "fresh(result) and result.name == name and len(result.unicodes) == 0"},
    canaries={"unnamed": "result.name == ''"},
)
contract(
    "ufo2ft.instantiator:Instantiator.generate_glyph_instance",
    name="new",
    props=["C19"],
    params={"self": Ref("Instantiator"), "glyph_name": STR, "normalized_location": Ref("Location")},
    returns=Ref("OutGlyph"),
    requires=c19b._GGI_REQUIRES,
    # (the second disjunct: a default source without any glyph has no glyph object to take the class of the new glyph from)
    raises={"InstantiatorError": f"(glyph_name not in self.cached and not has_glyph({c19b._L}, {c19b._IDX}, glyph_name)) or len(self.default_source_glyphs) == 0"},
    ensures={**c19b._GGI_ENSURES, "a-new-glyph": "fresh(result) and result.name == glyph_name"},
    canaries=CONTRACTS["ufo2ft.instantiator:Instantiator.generate_glyph_instance#into"].canaries,
    modifies=["self.glyph_mutators"],
    globals={**c19b._ACCESSORS},
    merge_branches=False,
    hints=CONTRACTS["ufo2ft.instantiator:Instantiator.generate_glyph_instance#into"].hints,
)


def _ggn_build(d):
    ds, inst, at = c19b.rt_instantiator(d)
    return {"self": inst, "glyph_name": d["glyph"], "normalized_location": at}


def _nf_build(d):
    ds, inst, at = c19b.rt_instantiator(d)
    return {"self": inst, "name": d["glyph"]}


CONTRACTS["ufo2ft.instantiator:Instantiator.generate_glyph_instance#new"].runtime = Runtime(
    c19b._ggi_cases, _ggn_build, call=lambda fn, a: fn(a["self"], a["glyph_name"], a["normalized_location"])
)
CONTRACTS["ufo2ft.instantiator:Instantiator.new_glyph"].runtime = Runtime(c19b._ggi_cases, _nf_build)
CONTRACTS["ufo2ft.instantiator:Instantiator.glyph_factory"].runtime = Runtime(
    c19b._ggi_cases, lambda d: {"self": c19b.rt_instantiator(d)[1]}, call=lambda fn, a: fn.func(a["self"])
)


# =====================================================================================================
# the kerning instance: a class of its own for the NEW object (typed heap)
# =====================================================================================================
# MathKerning.round() rounds IN PLACE.  With one heap array for the content of all fontMath objects, that write changes the array which the
# glyph-model cache invariant (variator_ok, a named predicate: not unfolded under a binder) is stated over, and the invariant could not be carried
# across it.  The object that is rounded is the NEW one returned by the kerning model's instance_at; the variant `Variator.instance_at#kerning`
# (same body, same clauses) puts that new object into the class MathKern, whose content lives in an array of its own.
_KVAR = "ufo2ft.instantiator:Variator.instance_at#kerning"

def _new_cls(ex):
    return "MathKern" if getattr(getattr(ex, "c", None), "key", None) == _KVAR else "MathObj"

_dc0 = TRUSTED["copy.deepcopy"].model
def _deepcopy_k(ex, st, args, kwargs, node):
    (x,) = args
    if _new_cls(ex) == "MathKern" and isinstance(x.ty, T.Ref) and x.ty.cls == "MathObj":
        r = ex.new_object(st, "MathKern")
        ex.write_field(st, r, "data", ex.read_field(st, x, "data"), node)
        ex.write_field(st, r, "kind", ex.read_field(st, x, "kind"), node)
        return r
    return _dc0(ex, st, args, kwargs, node)
TRUSTED["copy.deepcopy"].model = _deepcopy_k

_vi0 = CLASSES["VariationModel"].methods["interpolateFromMasters"]
def _vm_interpolate_k(ex, st, self, args, kwargs, node):
    if _new_cls(ex) != "MathKern":
        return _vi0(ex, st, self, args, kwargs, node)
    loc, masters = args
    if kwargs:
        raise Unsupported("interpolateFromMasters(round=...)", node)
    f = ex.spec_decl(c19.api_specfn("vm_interp"))
    content = ex.field_array(st, "MathObj", "data")
    r = ex.new_object(st, "MathKern")
    d = f(lift(self), lift(ex.read_field(st, loc, "pairs")), lift(masters, List(Ref("MathObj"))), content)
    ex.write_field(st, r, "data", Val(MDATA, d), node)
    ms = lift(masters, List(Ref("MathObj")))
    k0 = z3.Select(ex.field_array(st, "MathObj", "kind"), ms[0])
    ex.write_field(st, r, "kind", Val(INT, z3.If(z3.Length(ms) > 0, k0, fresh(INT, "kind"))), node)
    return r
for a in ("modifies",):
    if hasattr(_vi0, a): setattr(_vm_interpolate_k, a, getattr(_vi0, a))
CLASSES["VariationModel"].methods["interpolateFromMasters"] = _vm_interpolate_k

def _mk_round(ex, st, self, args, kwargs, node):
    """MathKerning.round(): rounds self IN PLACE, returns None"""
    if args or kwargs:
        raise Unsupported("round(digits)", node)
    ex.safety(st, lift(ex.read_field(st, self, "kind")) == c19.KIND_KERNING, "AssertionError", node)  # (the in-place model is MathKerning's)
    f = ex.spec_decl(c19.api_specfn("math_rounded"))
    ex.write_field(st, self, "data", Val(MDATA, f(lift(ex.read_field(st, self, "data")))), node)
    return Val.const(None)
_mk_round.modifies = ["MathKern.data"]

def _mk_extract_kerning(ex, st, self, args, kwargs, node):
    (font,) = args
    ex.safety(st, lift(ex.read_field(st, self, "kind")) == c19.KIND_KERNING, "AttributeError", node)
    data = ex.read_field(st, self, "data")
    g = ex.read_field(st, font, "groups")
    ex.safety(st, z3.Length(g.ty.sort().keys(lift(g))) == 0, "AssertionError", node)  # model applicability: groups.update(..) on a font without groups
    ex.write_field(st, font, "kerning", data, node)
    f = ex.spec_decl(c19.api_specfn("kerning_groups_of"))
    ex.write_field(st, font, "groups", Val(Dict(STR, List(STR)), f(lift(data))), node)
    return Val.const(None)
_mk_extract_kerning.modifies = ["InfoFont.kerning", "InfoFont.groups"]

cls("MathKern", fields={"data": MDATA, "kind": INT}, methods={"round": _mk_round, "extractKerning": _mk_extract_kerning},
    views={"data": c19.math_snapshot, "kind": c19._math_kind},
    notes="the NEW fontMath object returned by the kerning model's instance_at, kept apart from the stored fontMath objects (MathObj): same two "
    "fields; a new object is in no container of MathObj references, so giving it a class of its own loses nothing and keeps the heap array that the "
    "stored objects live in syntactically untouched when the new object is rounded in place")

_o = CONTRACTS["ufo2ft.instantiator:Variator.instance_at"]
contract(
    "ufo2ft.instantiator:Variator.instance_at",
    name="kerning",
    props=["C19"],
    params=dict(_o.params),
    returns=Ref("MathKern"),
    requires=list(_o.requires),
    ensures={k: v for k, v in _o.ensures.items() if k != "not-a-master"},
    bounded_ensures=dict(_o.bounded_ensures),
    canaries=dict(_o.canaries),
    globals=dict(_o.globals),
)
CONTRACTS[_KVAR].runtime = _o.runtime


# =====================================================================================================
# generate_instance, half A: the instance before the rule swaps (a designspace without rules)
# =====================================================================================================
from pyvc.symex import FuncRef  # noqa: E402
from .c19b import _IDX, _L, _M  # noqa: E402
from .c19d import _IM  # noqa: E402

CLASSES["Instantiator"].fields["kerning_mutator"] = Opt(Ref("Variator"))

@trusted("c19.swap_unreachable", "stand-in for swap_glyph_names in the variant without rules: calling it is an error to be excluded (obligation False)")
def _swap_unreachable(ex, st, args, kwargs, node):
    ex.safety(st, z3.BoolVal(False), "AssertionError", node)
    return Val.const(None)

_KM = "self.kerning_mutator"
_MERGED = "{**self.default_design_location, **instance.location}"
_NP = f"norm_pairs(dict_pairs({_MERGED}), self.axis_bounds)"

def glyph_ok(n, font, pairs):
    V = f"{_M}[{n}]"; g = f"{font}.glyphs[{n}]"; key = f"lockey({pairs})"
    return {
        "cached": f"{n} in self.cached",
        "name": f"{g}.name == {n}",
        "unicodes-from-default": f"{g}.unicodes == self.default_source_glyphs[{n}].unicodes",
        "master-at-master-location": f"implies({key} in {V}.location_to_master, {g}.geometry == maybe_rounded(self.round_geometry, {V}.location_to_master[{key}].data))",
        "blend-elsewhere": f"implies({key} not in {V}.location_to_master, {g}.geometry == maybe_rounded(self.round_geometry, vm_interp({V}.model, {pairs}, {V}.masters, self.content)))",
    }

_RT_NP, _RT_LOC = [], {}
_REQ = [
    f"0 <= {_IDX} and {_IDX} < len({_L})",
    f"all(allocated({_L}[a][0]) and allocated({_L}[a][1]) for a in range(len({_L})))",
    f"all(all(implies(has_glyph({_L}, a, n), len({_L}[a][1][n]) >= 0) for a in range(len({_L}))) for n in self.glyph_names)",
    *cache_ok().values(),
    # the kerning / info models (built by from_designspace with Variator.from_masters(collect_*_masters(..))): MathKerning / MathInfo objects
    f"implies({_KM} is not None, all(allocated(m) and m.kind == 2 for m in {_KM}.masters) and all(allocated({_KM}.location_to_master[k]) and {_KM}.location_to_master[k].kind == 2 for k in {_KM}.location_to_master) and len({_KM}.masters) >= 1)",
    f"all(allocated(m) and m.kind == 1 for m in {_IM}.masters) and all(allocated({_IM}.location_to_master[k]) and {_IM}.location_to_master[k].kind == 1 for k in {_IM}.location_to_master) and len({_IM}.masters) >= 1",
    "all(self.special_axes[t].name in self.default_design_location for t in self.special_axes)",
    "allocated(self.copy_info) and allocated(self.copy_lib)",
    "len(self.designspace_rules) == 0",
]
_IDATA = c19d._FINAL.replace("location_normalized.pairs", "NP")
_KKEY = "lockey(NP)"

contract(
    "ufo2ft.instantiator:Instantiator.generate_instance",
    name="no-rules",
    props=["C19"],
    params={"self": Ref("Instantiator"), "instance": Ref("InstanceDesc")},
    returns=Ref("InfoFont"),
    requires=_REQ,
    raises={"InstantiatorError": "False"},
    ghost_vars={"gw": (Dict(STR, INT), "{}"), "NP": (c19.KEY, "[]"), "LOC": (c19b.LOCDICT, "{}")},
    merge_branches=True,
    hints={"font.groups[key] = [name for name in glyph_names]": ["font.groups[key] == glyph_names"],
    },
    ghost={"location = {**self.default_design_location, **instance.location}": ["LOC = location"],
           "location_normalized = self.normalize(location)": ["NP = location_normalized.pairs"],
           "glyph = font.newGlyph(glyph_name)": ["gw = {**gw, glyph_name: gi}"]},
    ensures={
        "new-font": "fresh(result)",
        "glyph-set.all-default-names": "all(n in result.glyphs for n in self.glyph_names)",
        "glyph-set.only-default-names": "all(n in self.default_source_glyphs for n in result.glyphs)",
        # LOC (ghost) = the instance's design location: the default design location overridden by the instance's own entries; NP its normalisation
        # kerning: the kerning model's instance -- master content at a master location, the model's blend elsewhere -- and its groups
        "kerning.master-at-master-location": f"implies({_KM} is not None and {_KKEY} in {_KM}.location_to_master, result.kerning == maybe_rounded(self.round_geometry, {_KM}.location_to_master[{_KKEY}].data))",
        "kerning.blend-elsewhere": f"implies({_KM} is not None and {_KKEY} not in {_KM}.location_to_master, result.kerning == maybe_rounded(self.round_geometry, vm_interp({_KM}.model, NP, {_KM}.masters, self.content)))",
        # groups: the non-kerning groups of the default source, copied (on top of the kerning groups written with the kerning)
        "groups.non-kerning-copied": "all(g in result.groups and result.groups[g] == self.copy_nonkerning_groups[g] for g in self.copy_nonkerning_groups)",
        # info: by _generate_instance_info's contract (the other clauses of that contract hold of result.info as well; restated: the numbers)
        "info.master-or-blend": f"result.info.interpolated == {_IDATA}",
        "features.copied": "result.features.text == self.copy_feature_text",
        "lib.copied": "result.lib is not self.copy_lib and result.lib.other == self.copy_lib.other and result.lib.skip_export == self.skip_export_glyphs",
        "lib.design-location": "result.lib.location is not None and all(p[0] in LOC and LOC[p[0]] == p[1] for p in result.lib.location)",
        "location.axes": "all(k in LOC for k in self.default_design_location) and all(k in LOC for k in instance.location) and all(k in self.default_design_location or k in instance.location for k in LOC)",
        "location.values": "all(LOC[k] == (instance.location[k] if k in instance.location else self.default_design_location[k]) for k in LOC)",
        "location.normalized": "NP == norm_pairs(dict_pairs(LOC), self.axis_bounds)",
        **{"glyph." + k: f"all({v} for n in result.glyphs)" for k, v in glyph_ok("n", "result", "NP").items()},
        **cache_ok(),
    },
    canaries={
        "empty-font": "len(result.glyphs) == 0",
        "glyphs-never-rounded": f"all(implies(lockey(NP) in {_M}[n].location_to_master, result.glyphs[n].geometry == {_M}[n].location_to_master[lockey(NP)].data) for n in result.glyphs)",
        "kerning-never-rounded": f"implies({_KM} is not None and {_KKEY} in {_KM}.location_to_master, result.kerning == {_KM}.location_to_master[{_KKEY}].data)",
        "cache-untouched": f"{_M} == old({_M})",
    },
    loops={
        "for (key, glyph_names) in self.copy_nonkerning_groups.items()": Loop(index="ci", seq="CK", invariants={
            "copied-so-far": "all(CK[k] in font.groups and font.groups[CK[k]] == self.copy_nonkerning_groups[CK[k]] for k in range(ci))"}),
        "for glyph_name in self.glyph_names": Loop(index="gi", invariants={
            "np": "NP == location_normalized.pairs",
            "glyph-objects": "all(allocated(font.glyphs[n]) for n in font.glyphs)",
            "names-so-far": "all(self.glyph_names[k] in font.glyphs for k in range(gi))",
            "only-names-so-far": "all(0 <= gw[n] and gw[n] < gi and self.glyph_names[gw[n]] == n for n in font.glyphs)",
            **{"glyph." + k: f"all({v} for n in font.glyphs)" for k, v in glyph_ok("n", "font", "NP").items()},
            **cache_ok(),
        }),
        "for (name_old, name_new) in swaps": Loop(index="wi", invariants={"none": "len(swaps) == 0"}),
    },
    # (NP / LOC: ghost variables in the logic; at run time -- where there is no ghost state -- the harness supplies their values, computed from
    # the arguments by their defining equations: LOC = default design location overridden by the instance's, NP = its normalisation)
    globals={"NP": _RT_NP, "LOC": _RT_LOC, "importUfoModule": c19b._ref("c19.importUfoModule"), "typing": FuncRef(_TypingNS, "c19.typingNS"), "swap_glyph_names": c19b._ref("c19.swap_unreachable"), **c19._ACCESSORS},
    calls={"ufo2ft.instantiator:Variator.instance_at": _KVAR, "ufo2ft.instantiator:process_rules_swaps": "ufo2ft.instantiator:process_rules_swaps#dict", "ufo2ft.instantiator:Instantiator.generate_glyph_instance": "ufo2ft.instantiator:Instantiator.generate_glyph_instance#into"},
    # (class-granular where a callee's / a model's frame is: _generate_instance_info writes font.info.*, newGlyph font.glyphs; no object of these
    # classes is a source)
    modifies=["Instantiator.glyph_mutators", "InfoFont.glyphs", "InfoFont.groups", "OutGlyph.geometry", "OutGlyph.name", "OutGlyph.unicodes"]
    + CONTRACTS["ufo2ft.instantiator:Instantiator._generate_instance_info"].modifies,
)


def _gi_cases(rng, n):
    out = []
    for fam in c19.FAMILIES:
        for k in range(9):
            out.append({"family": fam, "loc": k, "round": rng.random() < 0.5, "warm": [[rng.choice(c19.GLYPHS), rng.randrange(8)] for _ in range(rng.choice([0, 2]))], "do_kerning": rng.random() < 0.6,
                        "names": {"familyName": rng.choice([None, "Fam"]), "styleName": rng.choice([None, "Sty"])}, "drop_kerning": rng.random() < 0.4})
    rng.shuffle(out)
    return out[:n]


def _gi_build(d):
    from fontTools import designspaceLib
    from ufo2ft.instantiator import Instantiator

    ds = c19.rt_designspace(d["family"])
    ds.rules = []
    if d["drop_kerning"]:
        for s in ds.sources:
            s.font.kerning.clear()
    inst = Instantiator.from_designspace(ds, round_geometry=d["round"], do_kerning=d["do_kerning"])
    locs = c19b.rt_locations(ds)
    for g, k in d["warm"]:  # glyph models cached by earlier instances (history)
        try:
            inst.generate_glyph_instance(g, inst.normalize({**inst.default_design_location, **locs[k % len(locs)]}))
        except Exception:
            pass
    desc = designspaceLib.InstanceDescriptor()
    desc.designLocation = dict(locs[d["loc"] % len(locs)])
    for a, v in d["names"].items():
        setattr(desc, a, v)
    _RT_LOC.clear()
    _RT_LOC.update({**inst.default_design_location, **desc.location})
    _RT_NP[:] = list(inst.normalize(dict(_RT_LOC)).items())
    return {"self": inst, "instance": desc}


CONTRACTS["ufo2ft.instantiator:Instantiator.generate_instance#no-rules"].runtime = Runtime(_gi_cases, _gi_build)


# =====================================================================================================
# generate_instance, half B: the swaps on an instance -- a LIST of swaps applied in order is ONE permutation of the glyph names
# =====================================================================================================
# swap_glyph_names(font, a, b) (contracts/c19c.py, proved against the code) says of ONE swap: afterwards the content filed under x is what was
# filed under swapname(a, b, x) (post.exchanged + post.others-untouched), component bases / kerning keys / group members are mapped through
# swapname(a, b, .).  generate_instance applies the swaps of process_rules_swaps in list order (skipping a == b, where swapname is the identity).
# The lemmas below are the induction steps that fold such a list: source_of(S, x, k) = the name under which the content that ends up under x
# after the first k swaps was filed at the start; image_of(S, n, k) = where the references to n point after the first k swaps.
from .c19 import SUB, swapname  # noqa: E402,F401


@specfn(STR, S=List(SUB), x=STR, k=INT)
def source_of(S, x, k):
    """the name whose ORIGINAL content is filed under x after the first k swaps of S"""
    if k <= 0:
        return x
    return source_of(S, swapname(S[k - 1][0], S[k - 1][1], x), k - 1)


@specfn(STR, S=List(SUB), n=STR, k=INT)
def image_of(S, n, k):
    """the name that a reference to n (component base, kerning side, group member) has become after the first k swaps of S"""
    if k <= 0:
        return n
    return swapname(S[k - 1][0], S[k - 1][1], image_of(S, n, k - 1))


_CONTENT = Map(STR, MDATA)

lemma(
    "C19.lemma.swap-fold.content",
    props=["C19"],
    vars={"S": List(SUB), "k": INT, "C0": _CONTENT, "Ck": _CONTENT, "Ck1": _CONTENT, "x": STR},
    # induction step: after k swaps the content under every name is the original content of source_of(.., k); swap number k+1 is one conjugation
    hyps=["0 <= k and k < len(S)", "Ck[swapname(S[k][0], S[k][1], x)] == C0[source_of(S, swapname(S[k][0], S[k][1], x), k)]", "Ck1[x] == Ck[swapname(S[k][0], S[k][1], x)]"],
    concl={"step": "Ck1[x] == C0[source_of(S, x, k + 1)]", "base": "source_of(S, x, 0) == x"},
    canaries={"nothing-moves": "Ck1[x] == C0[x]"},
)
lemma(
    "C19.lemma.swap-fold.references",
    props=["C19"],
    vars={"S": List(SUB), "k": INT, "n": STR, "m": STR},
    hyps=["0 <= k and k < len(S)", "implies(image_of(S, n, k) == image_of(S, m, k), n == m)", "source_of(S, image_of(S, n, k), k) == n"],
    concl={
        # references are mapped through one more transposition ...
        "step": "image_of(S, n, k + 1) == swapname(S[k][0], S[k][1], image_of(S, n, k))",
        # ... the folded map stays injective (no two glyphs, kerning keys or group members collide) ...
        "injective-step": "implies(image_of(S, n, k + 1) == image_of(S, m, k + 1), n == m)",
        # ... and it is the inverse of the content permutation: a reference to n ends at the name under which n's original content is filed
        "references-follow-content": "source_of(S, image_of(S, n, k + 1), k + 1) == n",
        "base": "image_of(S, n, 0) == n and source_of(S, image_of(S, n, 0), 0) == n",
    },
    canaries={"nothing-moves": "image_of(S, n, k + 1) == n"},
)


def _norm_build(d):
    a = _gi_build(d)
    return {"self": a["self"], "location": dict(_RT_LOC)}


CONTRACTS["ufo2ft.instantiator:Instantiator.normalize"].runtime = Runtime(_gi_cases, _norm_build)
